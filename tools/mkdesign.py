"""Assemble DESIGN.md = docs/design_head.md (hand-written) + generated sections:
per-property summary (tools/checks.json, tools/theorems.json), defects (known_findings.json),
seeded changes (seeded/*/meta.json, caught.json, confirm.json).  Maintainer tool."""
import json
import re
from pathlib import Path

V = Path(__file__).resolve().parents[1]


def props():
    return [json.loads(l) for l in (V / "properties.jsonl").read_text().splitlines() if l.strip()]


def per_property():
    checks = json.loads((V / "tools" / "checks.json").read_text())
    thms = json.loads((V / "tools" / "theorems.json").read_text())
    out = ["## 3. Per-property summary (as built)\n",
           "For each property: what is proved (theorems are in `lean/QV/Props/Cxx*.lean`; helper lemmas in",
           "`lean/QV/Proofs`), how the model is tied to `/repo`, what is covered by correspondence/search only.",
           "Full statements that are not proved are kept visible as `def … : Prop` in the Props files and are named here.\n"]
    for p in props():
        pid = p["id"]
        out.append(f"### {pid} — {p['title']}\n")
        c = checks.get(pid)
        if not c:
            out.append("(no check registered)\n")
            continue
        out.append(c["text"] + "\n")
        out.append(f"*Technique:* {c['technique']}.\n")
        t = thms.get(pid, {"theorems": [], "modules": []})
        names = [x.split(".")[-1] for x in t["theorems"]]
        out.append(f"*Files:* `tools/props/{pid}.py`, `lean/Driver{pid}.lean` (C01/C02/C05: `lean/Driver.lean`), modules "
                   + ", ".join(f"`{m}`" for m in t["modules"]) + ".\n")
        out.append(f"*Theorems ({len(names)}):* " + ", ".join(f"`{n}`" for n in names) + ".\n")
        # visible unproved statements
        defs = []
        for m in t["modules"]:
            f = V / "lean" / (m.replace(".", "/") + ".lean")
            if f.exists():
                defs += re.findall(r"^def\s+(\S+)\s*:\s*Prop", f.read_text(), re.M)
        if defs:
            out.append("*Stated, not proved (visible `def … : Prop`):* " + ", ".join(f"`{d}`" for d in defs) + ".\n")
    return "\n".join(out)


def defects():
    k = json.loads((V / "known_findings.json").read_text())
    out = ["## 4. Genuine defects of qibo found by this work\n",
           "Each was reproduced on the real code before being touched.  *Fixed* = one minimal unguarded `fix:` commit in `/repo`",
           "(validated with qibo's own test files, and the whole suite re-run: all 4010 baseline-stable tests still pass);",
           "*known finding* = listed in `known_findings.json` (matched by property + key; any other failing input still alarms).\n",
           "### 4.1 Fixed (in commit order)\n"]
    for line in k["fixed"]:
        m = re.match(r"fixed: property=(\S+) (\S+) (.*)", line)
        out.append(f"* **{m.group(1)}** `{m.group(2)}` {m.group(3)}")
    out.append("\n### 4.2 Known findings (not repaired)\n")
    seen = set()
    for f in k["findings"]:
        tag = (f["id"])
        keys = [g["key"] for g in k["findings"] if g["id"] == f["id"]]
        if tag in seen:
            continue
        seen.add(tag)
        out.append(f"* **{f['property']} {f['id']}** keys " + ", ".join(f"`{x}`" for x in keys) + f" — {f['summary']}")
    return "\n".join(out) + "\n"


def seeded():
    out = ["## 5. Seeded changes (independent mutation testing)\n",
           "Fresh sub-agents were given only the text of one property and a scratch worktree of qibo (nothing from `/verif`) and asked",
           "for realistic changes that break the property, still pass qibo's test-suite and need something specific to manifest, each with a",
           "demonstration program.  Every change kept under `seeded/<id>/` was confirmed here in a scratch worktree (`tools/seedconfirm.py`:",
           "the patch applies, the demo passes without it and fails with it, no baseline-stable test of the whole suite fails with it) and run",
           "through the checks (`tools/seedsweep.py`; scratch copies, `/repo` untouched).  `caught by` lists the checks that exit 1 with a",
           "VIOLATION line; *strengthened* means the check missed the change at first and was extended (see §6).\n",
           "| id | what the change does | needs | caught by | confirmed |", "|---|---|---|---|---|"]
    for d in sorted((V / "seeded").iterdir()):
        if not (d / "meta.json").exists():
            continue
        try:
            m = json.loads((d / "meta.json").read_text())
        except ValueError:
            m = {}
        c = json.loads((d / "caught.json").read_text()) if (d / "caught.json").exists() else {}
        cf = json.loads((d / "confirm.json").read_text()) if (d / "confirm.json").exists() else {}
        summ = str(m.get("summary", "")).replace("|", "/").replace("\n", " ")
        needs = str(m.get("needs_to_manifest", m.get("needs", ""))).replace("|", "/").replace("\n", " ")
        out.append(f"| {d.name} | {summ[:260]} | {needs[:200]} | {', '.join(c.get('caught_by', [])) or '—'} | {'yes' if cf.get('confirmed') else ('pending' if not cf else 'no')} |")
    return "\n".join(out) + "\n"


def benign():
    out = ["### 5.1 Behaviour-preserving changes (false-alarm testing)\n",
           "Refactors, optimisations and robustness tweaks inside the anchored mechanisms, written by fresh sub-agents, each passing qibo's",
           "suite and its own equivalence script (`benign/<id>/`), run through the checks of the properties concerned with `tools/benigntest.py`.",
           "`failing inputs` counts VIOLATION lines with a concrete replay (a false alarm); `drift` counts `no-failing-input-found` reports.\n",
           "| id | change | checks run | failing inputs | drift |", "|---|---|---|---|---|"]
    for d in sorted((V / "benign").iterdir()) if (V / "benign").exists() else []:
        if not (d / "meta.json").exists():
            continue
        m = json.loads((d / "meta.json").read_text())
        r = json.loads((d / "result.json").read_text()) if (d / "result.json").exists() and (d / "result.json").stat().st_size else {}
        ch = r.get("checks", {})
        fa = sum(len(v.get("false_alarms", [])) for v in ch.values())
        dr = sum(len(v.get("model_drift", [])) for v in ch.values())
        summ = str(m.get("summary", "")).replace("|", "/").replace("\n", " ")
        out.append(f"| {d.name} | {summ[:240]} | {', '.join(ch) or 'pending'} | {fa} | {dr} |")
    return "\n".join(out) + "\n"


def main():
    head = (V / "docs" / "design_head.md").read_text()
    tail = (V / "docs" / "design_tail.md").read_text() if (V / "docs" / "design_tail.md").exists() else ""
    (V / "DESIGN.md").write_text(head + "\n" + per_property() + "\n" + defects() + "\n" + seeded() + "\n" + benign() + "\n" + tail)
    print("DESIGN.md written")


if __name__ == "__main__":
    main()
