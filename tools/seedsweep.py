"""Run every seeded change under /verif/seeded through the checks (maintainer tool).

For seeded/<Cxx>-<n>/ runs `tools/seedtest.py` with the check of property Cxx (plus any
checks named in ALSO) and writes seeded/<Cxx>-<n>/caught.json.  Scratch copies only:
/repo and /verif are not touched.  usage: [SEEDSWEEP_JOBS=k] python3 tools/seedsweep.py [ids...]
(k parallel workers, each with its own scratch directory /tmp/seedrun_<i>)"""
import json
import os
import queue
import subprocess
import sys
import threading
from pathlib import Path

VERIF = Path(__file__).resolve().parents[1]
ALSO = {"C14-20": ["C02"], "C07-18": ["C05"], "C11-4": ["C09"], "C03-14": ["C07"], "C11-10": ["C09"], "C14-7": ["C03"], "C19-9": ["C04"], "C01-3": ["C06"], "C02-3": ["C06"], "C05-1": ["C06"], "C05-3": ["C06"]}


def one(sid, slot):
    d = VERIF / "seeded" / sid
    prop = sid.split("-")[0]
    checks = [prop] + ALSO.get(sid, [])
    env = dict(os.environ, SEEDRUN=f"/tmp/seedrun_{slot}")
    p = subprocess.run([sys.executable, str(VERIF / "tools" / "seedtest.py"), str(d), *checks], capture_output=True, text=True, env=env)
    try:
        res = json.loads(p.stdout)
    except ValueError:
        res = {"error": (p.stdout + p.stderr)[-800:]}
    res.pop("seed", None)
    res["verif_head"] = subprocess.run(["git", "-C", str(VERIF), "rev-parse", "--short", "HEAD"], capture_output=True, text=True).stdout.strip()
    # the regression corpus (the seed's own demo.py, run first by every check) catches every seed by
    # construction: `caught_by` only counts violations found by the models, ties and searches
    res["caught_by"] = sorted(k for k, v in res.get("checks", {}).items() if v.get("exit") == 1
                              and any(not str(x.get("key", "")).startswith("corpus:") for x in v.get("detail", [])))
    res["caught_by_corpus"] = sorted(k for k, v in res.get("checks", {}).items() if v.get("exit") == 1
                                     and any(str(x.get("key", "")).startswith("corpus:") for x in v.get("detail", [])))
    (d / "caught.json").write_text(json.dumps(res, indent=1) + "\n")
    print(sid, "caught by", res["caught_by"], flush=True)


def main():
    ids = sys.argv[1:] or sorted(p.name for p in (VERIF / "seeded").iterdir() if p.is_dir())
    jobs = int(os.environ.get("SEEDSWEEP_JOBS", "1"))
    q = queue.Queue()
    for sid in ids:
        q.put(sid)

    def worker(slot):
        while True:
            try:
                sid = q.get_nowait()
            except queue.Empty:
                return
            one(sid, slot)

    ts = [threading.Thread(target=worker, args=(i,)) for i in range(jobs)]
    for t in ts:
        t.start()
    for t in ts:
        t.join()
    for i in range(jobs):
        subprocess.run(["rm", "-rf", f"/tmp/seedrun_{i}"])
    subprocess.run(["git", "-C", "/repo", "worktree", "prune"])


if __name__ == "__main__":
    main()
