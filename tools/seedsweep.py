"""Run every seeded change under /verif/seeded through the checks (maintainer tool).

For seeded/<Cxx>-<n>/ runs `tools/seedtest.py` with the check of property Cxx (plus any
checks named in ALSO) and writes seeded/<Cxx>-<n>/caught.json.  Scratch copies only:
/repo and /verif are not touched.  usage: python3 tools/seedsweep.py [ids...]"""
import json
import subprocess
import sys
from pathlib import Path

VERIF = Path(__file__).resolve().parents[1]
ALSO = {"C01-3": ["C06"], "C02-3": ["C06"], "C05-1": ["C06"], "C05-3": ["C06"]}


def main():
    ids = sys.argv[1:] or sorted(p.name for p in (VERIF / "seeded").iterdir() if p.is_dir())
    for sid in ids:
        d = VERIF / "seeded" / sid
        prop = sid.split("-")[0]
        checks = [prop] + ALSO.get(sid, [])
        p = subprocess.run([sys.executable, str(VERIF / "tools" / "seedtest.py"), str(d), *checks], capture_output=True, text=True)
        try:
            res = json.loads(p.stdout)
        except ValueError:
            res = {"error": (p.stdout + p.stderr)[-800:]}
        res.pop("seed", None)
        res["verif_head"] = subprocess.run(["git", "-C", str(VERIF), "rev-parse", "--short", "HEAD"], capture_output=True, text=True).stdout.strip()
        res["caught_by"] = sorted(k for k, v in res.get("checks", {}).items() if v.get("exit") == 1 and v.get("violations", 0) > 0)
        (d / "caught.json").write_text(json.dumps(res, indent=1) + "\n")
        print(sid, "caught by", res["caught_by"], flush=True)


if __name__ == "__main__":
    main()
