"""Re-examine a seeded change whose confirmation run reported stable tests not passing
(maintainer tool): at /repo's current HEAD, in a scratch worktree with the patch applied,
re-run the demonstration and only the test files those tests live in, and rewrite
confirm.json (field `rechecked` names what was re-run).  Used after a /repo commit that
itself broke tests was withdrawn: the earlier whole-suite run stays the record for all
other tests (the patch is unchanged), the re-run replaces it for the named files.
usage: python3 tools/seedrecheck.py <seeded/<id> dir>"""
import json
import os
import subprocess
import sys
import xml.etree.ElementTree as ET
from pathlib import Path


def sh(cmd, **kw):
    return subprocess.run(cmd, shell=True, capture_output=True, text=True, **kw)


def main():
    seed = Path(sys.argv[1]).resolve()
    cj = seed / "confirm.json"
    out = json.loads(cj.read_text())
    bad = out.get("suite", {}).get("stable_tests_not_passing", [])
    if out.get("confirmed") or not bad:
        print(seed.name, "nothing to recheck")
        return
    files = sorted({"tests/" + b.split("::")[0].split(".")[-1] + ".py" for b in bad})
    wt = Path("/tmp/seedconfirm") / seed.name
    wt.parent.mkdir(parents=True, exist_ok=True)
    sh(f"git -C /repo worktree remove --force {wt}")
    assert sh(f"git -C /repo worktree add --detach {wt} HEAD").returncode == 0
    env = dict(os.environ, PYTHONPATH=f"{wt}/src", QIBO_LOG_LEVEL="5", OPENBLAS_NUM_THREADS="1", OMP_NUM_THREADS="1")
    head = sh("git -C /repo rev-parse --short HEAD").stdout.strip()
    dc = subprocess.run(["/venv/bin/python", str(seed / "demo.py")], env=env, cwd=wt, capture_output=True).returncode
    a = sh(f"git -C {wt} apply {seed / 'patch.diff'}")
    if a.returncode != 0:
        a = sh(f"cd {wt} && patch -p1 -F3 --no-backup-if-mismatch < {seed / 'patch.diff'}")
    ok = a.returncode == 0
    still = bad
    dp = 0
    if ok:
        dp = subprocess.run(["/venv/bin/python", str(seed / "demo.py")], env=env, cwd=wt, capture_output=True).returncode
        xml = wt / "junit.xml"
        subprocess.run(["/venv/bin/python", "-m", "pytest", "-q", "-p", "no:cacheprovider", "--timeout=900", "--no-cov",
                        f"--junitxml={xml}", *files], env=env, cwd=wt, capture_output=True, text=True)
        res = {}
        for tc in ET.parse(xml).iter("testcase"):
            name = f"{tc.get('classname')}::{tc.get('name')}".replace(str(wt), "/repo")
            res[name] = "fail" if any(c.tag in ("failure", "error") for c in tc) else ("skip" if any(c.tag == "skipped" for c in tc) else "pass")
        base = set(json.load(open("/root/.vp/BASELINE.json"))["stable_pass"])
        mods = {f[6:-3] for f in files}
        still = sorted(n for n in base if n.split("::")[0].split(".")[-1] in mods and res.get(n) != "pass")
    sh(f"git -C /repo worktree remove --force {wt}")
    out["rechecked"] = {"repo_head": head, "files": files, "previous_repo_head": out.get("repo_head"),
                        "previously_not_passing": len(bad), "demo_clean_exit": dc, "demo_patched_exit": dp, "patch_applies": ok}
    out["suite"]["stable_tests_not_passing"] = still
    out["confirmed"] = bool(ok and dc == 0 and dp != 0 and not still)
    cj.write_text(json.dumps(out, indent=1) + "\n")
    print(seed.name, out["confirmed"], len(still), [b[-60:] for b in still[:3]])


if __name__ == "__main__":
    main()
