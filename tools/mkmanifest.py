"""Regenerate MANIFEST.json from the per-property registry tools/checks.json."""
import json
from pathlib import Path

VERIF = Path(__file__).resolve().parents[1]

LEVEL_NOTE = ("Trusted: Lean 4.33 kernel with axioms propext/Classical.choice/Quot.sound only (audited every run); "
              "Mathlib definitions of Matrix/exp/cos/sin as the meaning of numpy functions; the tracing translator "
              "(tools/vlib/symtrace.py) and its constant recognition; the correspondence harness generators; IEEE doubles "
              "approximate reals to 1e-9. Modelled rather than verified: everything under lean/QV/Model (hand models tied by "
              "correspondence on every run); verified against regenerated source: lean/QV/Gen (rebuilt from /repo on every run).")

CHECKS = json.loads((VERIF / "tools" / "checks.json").read_text())

NOT_YET = {}


def main():
    props = [json.loads(l) for l in (VERIF / "properties.jsonl").read_text().splitlines() if l.strip()]
    checks = []
    for p in props:
        pid = p["id"]
        if pid not in CHECKS:
            continue
        c = CHECKS[pid]
        checks.append({
            "property_id": pid,
            "quick_cmd": f"./check {pid} --tier quick",
            "thorough_cmd": f"./check {pid} --tier thorough",
            "evidence_file": f"evidence/{pid}.json",
            "replay_cmd_template": f"./check {pid} --replay {{path}}",
            "engine": "lean4",
            "level_claimed": {"category": "proof", "text": c["text"], "design_ref": c["design_ref"]},
            "level_note": LEVEL_NOTE,
            "technique": c["technique"],
        })
    na = [{"property_id": p["id"], "reason": NOT_YET.get(p["id"], "check not built yet in this revision (planned: DESIGN.md §3)")}
          for p in props if p["id"] not in CHECKS]
    man = {
        "version": 1,
        "setup_cmd": "./setup.sh",
        "hooks": {
            "guard": "QIBO_VERIF",
            "enable": "no source hooks are needed: all observation is done by subclassing/patching inside the harness process",
            "baseline_off_cmd": "cd /repo && /venv/bin/python -m pytest -ra -q -p no:cacheprovider --timeout=900 --continue-on-collection-errors",
            "source_commits": [],
            "add_only": True,
        },
        "engines": [
            {"name": "lean4", "path": "lean", "serves_properties": [c["property_id"] for c in checks],
             "kind_free_text": "Lean 4.33 lake project QV: import-free models and symbolic engine, Mathlib-backed proofs, regenerated table obligations"},
            {"name": "tracer", "path": "tools/vlib/symtrace.py", "serves_properties": [c["property_id"] for c in checks],
             "kind_free_text": "translator: runs the real qibo methods on symbolic parameters and emits Lean tables"},
            {"name": "harness", "path": "tools/props", "serves_properties": [c["property_id"] for c in checks],
             "kind_free_text": "correspondence harness driving the real qibo code in-process and the Lean model driver through a line protocol"},
        ],
        "checks": checks,
        "not_applicable": na,
        "notes": "See DESIGN.md. known_findings.json lists recorded defects; replays/ holds failing inputs.",
    }
    (VERIF / "MANIFEST.json").write_text(json.dumps(man, indent=1) + "\n")


if __name__ == "__main__":
    main()
