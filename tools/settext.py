"""maintainer tool: replace the `text` (from a file) and optionally `technique` of one property in
tools/checks.json, then regenerate MANIFEST.json.  usage: python3 tools/settext.py Cxx text.txt ["technique"]"""
import json
import subprocess
import sys
from pathlib import Path

V = Path(__file__).resolve().parents[1]
p = V / "tools" / "checks.json"
C = json.loads(p.read_text())
C[sys.argv[1]]["text"] = Path(sys.argv[2]).read_text().strip().replace("&lt;", "<").replace("&gt;", ">").replace("&amp;", "&")
if len(sys.argv) > 3:
    C[sys.argv[1]]["technique"] = sys.argv[3]
p.write_text(json.dumps(C, indent=1, ensure_ascii=False))
subprocess.run([sys.executable, str(V / "tools" / "mkmanifest.py")], check=True)
