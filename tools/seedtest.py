"""Try the checks on a seeded change (maintainer tool, not part of any check).

usage: python3 tools/seedtest.py <seed dir with patch.diff, demo.py> <Cxx> [<Cyy> ...]

Works on scratch copies so that /repo and /verif are not disturbed while other work is
going on: a git worktree of /repo's HEAD under /tmp/seedrun/repo gets the patch, a copy
of /verif (with its Lean build output) under /tmp/seedrun/verif runs the checks with
VERIF_REPO pointing at the patched worktree.  Prints one JSON summary.
"""
import json
import os
import shutil
import subprocess
import sys
from pathlib import Path

VERIF = Path(__file__).resolve().parents[1]
RUN = Path(os.environ.get("SEEDRUN", "/tmp/seedrun"))


def sh(cmd, **kw):
    return subprocess.run(cmd, shell=True, capture_output=True, text=True, **kw)


def main():
    seed = Path(sys.argv[1]).resolve()
    props = sys.argv[2:]
    repo, verif = RUN / "repo", RUN / "verif"
    RUN.mkdir(parents=True, exist_ok=True)
    sh(f"git -C /repo worktree remove --force {repo}")
    r = sh(f"git -C /repo worktree add --detach {repo} HEAD")
    assert r.returncode == 0, r.stderr
    sh(f"rsync -a --delete --exclude .git --exclude replays --exclude evidence {VERIF}/ {verif}/")
    env = dict(os.environ, PYTHONPATH=f"{repo}/src", QIBO_LOG_LEVEL="5")
    out = {"seed": str(seed), "checks": {}}
    d0 = subprocess.run(["/venv/bin/python", str(seed / "demo.py")], env=env, capture_output=True, text=True, cwd=repo)
    out["demo_clean_exit"] = d0.returncode
    a = sh(f"git -C {repo} apply {seed / 'patch.diff'}")
    if a.returncode != 0:  # the tree moved on since the change was written: allow fuzz
        a = sh(f"cd {repo} && patch -p1 -F3 --no-backup-if-mismatch < {seed / 'patch.diff'}")
        out["applied_with_fuzz"] = a.returncode == 0
    out["patch_applies"] = a.returncode == 0
    if a.returncode != 0:
        out["apply_error"] = a.stderr[-500:]
    else:
        d1 = subprocess.run(["/venv/bin/python", str(seed / "demo.py")], env=env, capture_output=True, text=True, cwd=repo)
        out["demo_patched_exit"] = d1.returncode
        for p in props:
            e = dict(os.environ, VERIF_REPO=str(repo), VERIF_SEED=os.environ.get("VERIF_SEED", "0"))
            c = subprocess.run(["./check", p, "--tier", os.environ.get("VERIF_TIER", "quick")], cwd=verif, env=e, capture_output=True, text=True)
            lines = [l for l in c.stdout.splitlines() if l.startswith(("VIOLATION", "KNOWN-FINDING"))]
            viol = [l for l in lines if l.startswith("VIOLATION")]
            detail = []
            for l in viol:
                path = l.split("replay=")[1].split()[0]
                try:
                    rp = json.loads(Path(path).read_text())
                    detail.append({"key": rp.get("key"), "kind": rp.get("kind"), "what": str(rp.get("what"))[:200]})
                except Exception:
                    pass
            out["checks"][p] = {"exit": c.returncode, "violations": len(viol), "detail": detail, "tail": c.stdout.splitlines()[-1:] }
    sh(f"git -C /repo worktree remove --force {repo}")
    print(json.dumps(out, indent=1))


if __name__ == "__main__":
    main()
