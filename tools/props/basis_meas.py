"""Measurements in a basis other than Z through circuit transformations (shared direct search).

`gates.M(..., basis=X|Y|[...])` puts its basis rotations into the circuit's queue.  Every
transformation that rebuilds the circuit gate by gate (deep copy, on_qubits, decompose, light
cone, fuse, raw/from_dict, QASM, the routers) must keep the measured statistics: the marginal
distribution of the measured qubits (exact, from the final state) of the transformed circuit
equals that of the original.  Before the repair every rebuilt measurement added its rotations a
second time.  Each property's check calls `run(ctx, prop, names)` with the transformations it owns.
"""
from __future__ import annotations

import numpy as np

PRE = r'''import sys, numpy as np, networkx as nx
from qibo import Circuit, gates
from qibo.backends import NumpyBackend
nb = NumpyBackend()
def probs(circ, qubits=None):
    """exact outcome distribution of the measured qubits (in measurement order)"""
    ms = [g for g in circ.queue if isinstance(g, gates.M)]
    qs = [q for g in ms for q in g.qubits] if qubits is None else list(qubits)
    return np.asarray(nb.execute_circuit(circ.copy()).probabilities(qs))
def line(n):
    g = nx.Graph(); g.add_edges_from([(i, i + 1) for i in range(n - 1)]); return g
def star(n=5):
    g = nx.Graph(); g.add_edges_from([(2, i) for i in range(n) if i != 2]); return g
def routed_probs(router, circ):
    out, layout = router(circ)
    return probs(out)
'''

TRANSFORMS = {
    # name: python expression giving the distribution after the transformation of circuit `c`
    "copy": "probs(c.copy())",
    "deepcopy": "probs(c.copy(deep=True))",
    "deepcopy-twice": "probs(c.copy(deep=True).copy(deep=True))",
    "on_qubits-identity": "(lambda b: (b.add(c.on_qubits(*range(n))), probs(b))[1])(Circuit(n))",
    "on_qubits-shifted": "(lambda b: (b.add(c.on_qubits(*[(q + 1) % (n + 1) for q in range(n)])), probs(b))[1])(Circuit(n + 1))",
    "add-empty": "probs(c + Circuit(n))",
    "invert-invert": "probs(c.invert().invert())",
    "deepcopy-invert-invert": "probs(c.copy(deep=True).invert().invert())",
    "decompose": "probs(c.decompose())",
    "light_cone": "(lambda r: probs(r[0]))(c.light_cone(*meas_qubits))",
    "fuse": "probs(c.fuse())",
    "fuse-deepcopy": "probs(c.copy(deep=True).fuse())",
    "raw-from_dict": "probs(Circuit.from_dict(c.raw))",
    "raw-from_dict-twice": "probs(Circuit.from_dict(Circuit.from_dict(c.raw).raw))",
    "qasm": "probs(Circuit.from_qasm(c.to_qasm()))",
    "rearrange1": "probs(__import__('qibo.transpiler.optimizer', fromlist=['Rearrange']).Rearrange(max_qubits=1)(c))",
    "rearrange2": "probs(__import__('qibo.transpiler.optimizer', fromlist=['Rearrange']).Rearrange(max_qubits=2)(c))",
    "preprocessing": "probs(__import__('qibo.transpiler.optimizer', fromlist=['Preprocessing']).Preprocessing(connectivity=line(n + 2))(c))",
    "router-sabre": "routed_probs(__import__('qibo.transpiler.router', fromlist=['Sabre']).Sabre(connectivity=line(n)), c)",
    "router-shortestpaths": "routed_probs(__import__('qibo.transpiler.router', fromlist=['ShortestPaths']).ShortestPaths(connectivity=line(n)), c)",
    "router-star": "routed_probs(__import__('qibo.transpiler.router', fromlist=['StarConnectivityRouter']).StarConnectivityRouter(connectivity=star(5)), c)",
    "router-sabre-twice": "(lambda R: routed_probs(R(connectivity=line(n)), R(connectivity=line(n))(c)[0]))(__import__('qibo.transpiler.router', fromlist=['Sabre']).Sabre)",
}


def _circuit_src(rng, n, qasm_ok=False):
    lines = [f"n = {n}", "c = Circuit(n)"]
    for _ in range(rng.randint(2, 6)):
        a, b = rng.sample(range(n), 2)
        t = round(rng.uniform(0.2, 2.9), 4)
        lines.append("c.add(" + rng.choice([f"gates.CNOT({a}, {b})", f"gates.CZ({a}, {b})", f"gates.RY({a}, {t})", f"gates.H({a})", f"gates.RX({b}, {t})", f"gates.RZ({a}, {t})"]) + ")")
    k = rng.randint(1, n)
    qs = rng.sample(range(n), k)
    split = rng.randint(1, k) if k > 1 and rng.random() < 0.4 else k
    regs = [qs[:split], qs[split:]] if split < k else [qs]
    for r in regs:
        basis = [rng.choice(["gates.X", "gates.Y", "gates.Z", "gates.X"]) for _ in r]
        lines.append(f"c.add(gates.M(*{r}, basis=[{', '.join(basis)}]))")
    lines.append(f"meas_qubits = {qs}")
    lines.append("ref = probs(c)")
    return "\n".join(lines) + "\n"


def run(ctx, prop, names, cases=None):
    ob = f"{prop}_search_basis_measurement"
    rng = ctx.rng
    ok = True
    ncases = cases or (14 if ctx.thorough else 6)
    for it in range(ncases):
        for name in names:
            n = 5 if name == "router-star" else rng.randint(3, 4)
            src = _circuit_src(rng, n)
            expr = TRANSFORMS[name]
            body = src + f"out = {expr}\nd = float(np.abs(np.asarray(out) - ref).max()) if np.asarray(out).shape == ref.shape else 1.0\n"
            ctx.case(("basis-measurement", name, it))
            ctx.stat(f"basis_measurement:{name}")
            env = {}
            try:
                exec(PRE + body, env)  # noqa: S102 - own generated text, identical to the replay
            except NotImplementedError:
                ctx.stat(f"basis_measurement:{name}:refused")
                continue
            except Exception as e:  # noqa: BLE001
                ok = False
                ctx.fail(f"basis-measurement:{name}:raises", f"{name} of a circuit measuring in a non-Z basis raises {type(e).__name__}: {e}", PRE + body + "sys.exit(0)\n", broken=[ob])
                continue
            if not env["d"] < 1e-9:
                ok = False
                ctx.fail(f"basis-measurement:{name}", f"{name} of a circuit with a measurement in a basis other than Z changes the distribution of the measured qubits by {env['d']:.3e} "
                         "(the basis rotation is applied a different number of times)", PRE + body + "print(d)\nsys.exit(0 if d < 1e-9 else 1)\n", broken=[ob])
    ctx.ob(ob, ok, "search", "" if ok else "a transformation changes the statistics of a basis measurement")
