"""C18 (part d/e) — run-time instantiation of the algebra theorems of
lean/QV/Props/C18d.lean (BCSZ channels, Bures / Ginibre density matrices) and
lean/QV/Props/C18e.lean (fidelity relations, Bures distance / angle, Meyer-Wallach,
entanglement of formation, negativity, Shannon / relative entropy) on the REAL functions.

Each suite
  * regenerates the data the theorem quantifies over (the Gaussian / unitary matrices of the
    generator from the same seed through qibo's public samplers; the fidelity / concurrence /
    spectrum a measure is a function of),
  * evaluates the HYPOTHESES of the theorem on them (`S Y S = 1`, `S = S^dagger`, purities in
    [1/2, 1], probabilities in [0, 1] summing to 1, ...),
  * compares the MODEL EXPRESSION of the theorem with what the real function returns, and
  * evaluates the CONCLUSIONS on the returned object.
A failure is reported with a self-contained replay (`ctx.fail`).
"""
from __future__ import annotations

import math
import warnings

import numpy as np

HEADER = """import numpy as np, math, warnings
warnings.filterwarnings('ignore')
from qibo import set_backend
set_backend('numpy')
from qibo.quantum_info import *
from qibo.quantum_info.random_ensembles import *
from qibo.quantum_info.metrics import *
from qibo.quantum_info.entropies import *
from qibo.quantum_info.entanglement import *

def inv_sqrt(y):
    w, v = np.linalg.eigh((y + y.conj().T) / 2)
    return (v / np.sqrt(w)) @ v.conj().T
"""


def inv_sqrt(y):
    w, v = np.linalg.eigh((y + y.conj().T) / 2)
    return (v / np.sqrt(w)) @ v.conj().T


def herm_eigs(m):
    m = np.asarray(m, dtype=complex)
    return np.linalg.eigvalsh((m + m.conj().T) / 2)


class _T:
    def __init__(self, ctx, name):
        self.ctx, self.name, self.bad, self.n = ctx, name, 0, 0

    def fail(self, key, what, py, expected=None, observed=None):
        self.bad += 1
        self.ctx.fail(key, what, py, expected=expected, observed=observed, broken=[self.name])

    def done(self, detail=""):
        self.ctx.ob(self.name, self.bad == 0, "search", f"{self.bad} failing of {self.n} instances" if self.bad else f"{self.n} instances {detail}")


# ----------------------------------------------------------------------------------------
# T18_bcsz_*  (C18d)
# ----------------------------------------------------------------------------------------
BCSZ_REPLAY = """d, rank, order, seed = {d}, {rank}, {order!r}, {seed}
X = np.asarray(random_gaussian_matrix(d * d, rank=rank, mean=0, stddev=1, seed=seed))
W = X @ X.conj().T
Y = np.einsum('ijik->jk' if order == 'row' else 'jiki->jk', W.reshape(d, d, d, d))   # Tr_out
S = inv_sqrt(Y)
assert np.abs(S @ Y @ S - np.eye(d)).max() < 1e-8 and np.abs(S - S.conj().T).max() < 1e-10   # hypotheses
M = np.kron(np.eye(d), S) if order == 'row' else np.kron(S, np.eye(d))
model = M @ W @ M
out = np.asarray(random_quantum_channel(d, 'choi', measure='bcsz', rank=rank, order=order, seed=seed))
scale = max(1.0, np.abs(model).max())
assert np.abs(out - model).max() <= 1e-8 * scale, 'Choi matrix differs from (1 x S) X X^dagger (1 x S)'
red = np.einsum('ijik->jk' if order == 'row' else 'jiki->jk', out.reshape(d, d, d, d))
assert np.abs(red - np.eye(d)).max() < 1e-8, 'not trace preserving'
assert np.linalg.eigvalsh((out + out.conj().T) / 2).min() > -1e-9, 'not positive semidefinite'
"""


def inst_bcsz(ctx):
    from qibo.quantum_info import random_gaussian_matrix, random_quantum_channel

    T = _T(ctx, "C18_inst_bcsz")
    rng = ctx.rng
    seeds = [rng.randrange(10**6) for _ in range(3 if ctx.thorough else 2)]
    dims = (2, 3, 4, 8) if ctx.thorough else (2, 4)
    discr = 0
    for d in dims:
        if d & (d - 1):
            # dims must be a power of two for the generator (int(log2)); 3 only feeds the witness below
            continue
        for order in ("row", "column"):
            es = "ijik->jk" if order == "row" else "jiki->jk"
            wrong = "jiki->jk" if order == "row" else "ijik->jk"
            for rank in (None, 1, 2, d * d):
                for seed in seeds:
                    T.n += 1
                    ctx.case(("inst-bcsz", d, order, rank, seed))
                    ctx.stat("inst_bcsz")
                    key = "random_quantum_channel:bcsz-column-not-TP" if order == "column" else "random_quantum_channel:bcsz:row-model"
                    py = HEADER + BCSZ_REPLAY.format(d=d, rank=rank, order=order, seed=seed)
                    try:
                        X = np.asarray(random_gaussian_matrix(d * d, rank=rank, mean=0, stddev=1, seed=seed))
                        W = X @ X.conj().T
                        Y = np.einsum(es, W.reshape(d, d, d, d))
                        S = inv_sqrt(Y)
                        hyp = np.abs(S @ Y @ S - np.eye(d)).max() < 1e-8 and np.abs(S - S.conj().T).max() < 1e-10
                        # T18_bcsz_S_from_eigh / T18_bcsz_loop_form: the loop over numpy.linalg.eigh(Y) builds such an S
                        w, V = np.linalg.eigh(Y)
                        sk = np.sqrt(1.0 / w)
                        eig_hyp = (np.abs(V.conj().T @ V - np.eye(d)).max() < 1e-10 and np.abs(V @ V.conj().T - np.eye(d)).max() < 1e-10
                                   and np.abs(V @ np.diag(w) @ V.conj().T - Y).max() < 1e-9 * max(1.0, np.abs(Y).max()) and np.abs(sk * w * sk - 1).max() < 1e-10)
                        loop = sum(sk[k] * np.outer(V[:, k], V[:, k].conj()) for k in range(d))
                        if eig_hyp and not (np.abs(loop - V @ np.diag(sk) @ V.conj().T).max() < 1e-9 * max(1.0, np.abs(loop).max())
                                            and np.abs(loop @ Y @ loop - np.eye(d)).max() < 1e-8 and np.abs(loop - loop.conj().T).max() < 1e-10):
                            ctx.ob("C18_inst_bcsz_eigh_loop", False, "search", f"d={d} order={order} rank={rank} seed={seed}: loop over eigh(Y) does not give S with S Y S = 1")
                        ctx.stat("inst_bcsz_eigh_hypotheses_met" if eig_hyp else "inst_bcsz_eigh_hypotheses_not_met")
                        if not hyp:  # ill-conditioned sample: the theorem says nothing
                            ctx.stat("inst_bcsz_hypothesis_not_met")
                            continue
                        M = np.kron(np.eye(d), S) if order == "row" else np.kron(S, np.eye(d))
                        model = M @ W @ M
                        with warnings.catch_warnings():
                            warnings.simplefilter("ignore")
                            out = np.asarray(random_quantum_channel(d, "choi", measure="bcsz", rank=rank, order=order, seed=seed))
                        scale = max(1.0, float(np.abs(model).max()))
                        same = out.shape == model.shape and np.abs(out - model).max() <= 1e-8 * scale
                        red = np.einsum(es, out.reshape(d, d, d, d))
                        tp = np.abs(red - np.eye(d)).max() < 1e-8
                        psd = herm_eigs(out).min() > -1e-9
                        rk = int(np.sum(herm_eigs(out) > 1e-9)) <= (rank or d * d)
                        trd = abs(np.trace(out) - d) < 1e-8
                        # discriminating power of the hypothesis: the other partial trace does not solve S Y S = 1
                        Yw = np.einsum(wrong, W.reshape(d, d, d, d))
                        if np.abs(S @ Yw @ S - np.eye(d)).max() > 1e-3:
                            discr += 1
                    except Exception as e:  # noqa: BLE001
                        T.fail(key, f"random_quantum_channel({d}, 'choi', measure='bcsz', rank={rank}, order='{order}', seed={seed}) raises {type(e).__name__}: {e}", py)
                        continue
                    if not (same and tp and psd and rk and trd):
                        what = []
                        if not same:
                            what.append("Choi matrix is not (1 x S) X X^dagger (1 x S) with S = Tr_out(X X^dagger)^(-1/2) placed on the input factor")
                        if not tp:
                            what.append("partial trace over the output is not the identity")
                        if not psd:
                            what.append("not positive semidefinite")
                        if not rk:
                            what.append("Kraus rank exceeds `rank`")
                        if not trd:
                            what.append("trace is not d")
                        T.fail(key, f"BCSZ channel d={d} rank={rank} order={order} seed={seed}: " + "; ".join(what), py,
                               expected="(1 x S) X X^dagger (1 x S), CPTP", observed=f"tp_err={np.abs(red - np.eye(d)).max():.3g} min_eig={herm_eigs(out).min():.3g}")
    T.done(f"(hypothesis S Y S = 1 fails for the wrong partial trace in {discr} of them)")
    if T.n and discr == 0:
        ctx.ob("C18_inst_bcsz_discriminates", False, "search", "the row/column hypotheses never differed on the sampled data")


UNITARY_REPLAY = """d, measure, order, seed = {d}, {measure!r}, {order!r}, {seed}
U = np.asarray(random_unitary(d, measure, seed))
assert np.abs(U.conj().T @ U - np.eye(d)).max() < 1e-10                       # hypothesis
v = U.reshape(-1) if order == 'row' else U.T.reshape(-1)
out = np.asarray(random_quantum_channel(d, 'choi', measure=measure, order=order, seed=seed))
assert np.abs(out - np.outer(v, v.conj())).max() < 1e-10, 'Choi matrix is not vec(U) vec(U)^dagger'
red = np.einsum('ijik->jk' if order == 'row' else 'jiki->jk', out.reshape(d, d, d, d))
assert np.abs(red - (U.conj().T @ U).T).max() < 1e-10 and np.abs(red - np.eye(d)).max() < 1e-10
K = np.asarray(random_quantum_channel(d, 'kraus', measure='bcsz', rank=2, order=order, seed=seed)[0])
C = np.asarray(random_quantum_channel(d, 'choi', measure='bcsz', rank=2, order=order, seed=seed))
vec = (lambda k: k.reshape(-1)) if order == 'row' else (lambda k: k.T.reshape(-1))
assert np.abs(sum(np.outer(vec(k), vec(k).conj()) for k in K) - C).max() < 1e-8
redC = np.einsum('ijik->jk' if order == 'row' else 'jiki->jk', C.reshape(d, d, d, d))
assert np.abs(redC - sum(k.conj().T @ k for k in K).T).max() < 1e-8 and np.abs(sum(k.conj().T @ k for k in K) - np.eye(d)).max() < 1e-8
"""


def inst_choi(ctx):
    """T18_unitary_channel_cptp, T18_choi_row_ptrace / _column_ptrace / T18_choi_tp_iff / T18_choi_psd on the
    channels the generator returns (`choi` against `kraus` output of the same seed)."""
    from qibo.quantum_info import random_quantum_channel, random_unitary

    T = _T(ctx, "C18_inst_choi")
    rng = ctx.rng
    seeds = [rng.randrange(10**6) for _ in range(3 if ctx.thorough else 2)]
    for d in ((2, 4, 8) if ctx.thorough else (2, 4)):
        for order in ("row", "column"):
            es = "ijik->jk" if order == "row" else "jiki->jk"
            vec = (lambda k: k.reshape(-1)) if order == "row" else (lambda k: k.T.reshape(-1))
            for measure in (None, "haar"):
                for seed in seeds:
                    T.n += 1
                    ctx.case(("inst-choi", d, order, measure, seed))
                    ctx.stat("inst_choi")
                    py = HEADER + UNITARY_REPLAY.format(d=d, measure=measure, order=order, seed=seed)
                    key = f"random_quantum_channel:{measure}:choi"
                    try:
                        U = np.asarray(random_unitary(d, measure, seed))
                        if np.abs(U.conj().T @ U - np.eye(d)).max() > 1e-10:
                            continue  # random_unitary's own validity is examined by search_generators
                        v = vec(U)
                        out = np.asarray(random_quantum_channel(d, "choi", measure=measure, order=order, seed=seed))
                        red = np.einsum(es, out.reshape(d, d, d, d))
                        ok = (np.abs(out - np.outer(v, v.conj())).max() < 1e-10 and np.abs(red - (U.conj().T @ U).T).max() < 1e-10
                              and np.abs(red - np.eye(d)).max() < 1e-10 and herm_eigs(out).min() > -1e-10)
                        K = np.asarray(random_quantum_channel(d, "kraus", measure="bcsz", rank=2, order=order, seed=seed)[0])
                        C = np.asarray(random_quantum_channel(d, "choi", measure="bcsz", rank=2, order=order, seed=seed))
                        redC = np.einsum(es, C.reshape(d, d, d, d))
                        kk = sum(k.conj().T @ k for k in K)
                        ok2 = (np.abs(sum(np.outer(vec(k), vec(k).conj()) for k in K) - C).max() < 1e-8          # Choi = sum vec(K) vec(K)^dagger
                               and np.abs(redC - kk.T).max() < 1e-8 and np.abs(kk - np.eye(d)).max() < 1e-8)      # Tr_out Choi = (sum K^dagger K)^T = 1
                    except Exception as e:  # noqa: BLE001
                        T.fail(key, f"random_quantum_channel({d}, 'choi'/'kraus', measure={measure!r}/'bcsz', order='{order}', seed={seed}) raises {type(e).__name__}: {e}", py)
                        continue
                    if not ok:
                        T.fail(key, f"random_quantum_channel({d}, 'choi', measure={measure!r}, order='{order}', seed={seed}) is not vec(U) vec(U)^dagger of random_unitary with the same seed, or not CPTP", py)
                    if not ok2:
                        T.fail("random_quantum_channel:bcsz:kraus" if order == "row" else "random_quantum_channel:bcsz-column-not-TP",
                               f"random_quantum_channel({d}, measure='bcsz', rank=2, order='{order}', seed={seed}): 'kraus' and 'choi' outputs are not related by Choi = sum vec(K) vec(K)^dagger, "
                               "or Tr_out Choi != (sum K^dagger K)^T, or sum K^dagger K != 1", py)
    T.done()


# ----------------------------------------------------------------------------------------
# T18_bures_* / T18_density_rank_le / T18_ginibre_psd  (C18d) and T18_density_from_ginibre (C18c)
# ----------------------------------------------------------------------------------------
DM_REPLAY = """d, rank, metric, seed = {d}, {rank}, {metric!r}, {seed}
g = np.random.default_rng(seed)
if metric == 'bures':
    U = np.asarray(random_unitary(d, seed=g))
    A = np.asarray(random_gaussian_matrix(d, rank, seed=g))
    B = (np.eye(d) + U) @ A
else:
    B = np.asarray(random_gaussian_matrix(d, None if metric == 'hilbert-schmidt' else rank, mean=0, stddev=1, seed=g))
G = B @ B.conj().T
assert abs(np.trace(G)) > 1e-12                                  # hypothesis: normalising trace != 0
model = G / np.trace(G)
out = np.asarray(random_density_matrix(d, rank=rank, metric=metric, seed=seed))
assert np.abs(out - model).max() < 1e-10, 'not B B^dagger / tr with B = (1 + U) A (bures) or A'
assert np.abs(out - out.conj().T).max() < 1e-12 and abs(np.trace(out) - 1) < 1e-12
ev = np.linalg.eigvalsh((out + out.conj().T) / 2)
assert ev.min() > -1e-12 and int(np.sum(ev > 1e-10)) <= B.shape[1]
"""


def inst_density(ctx):
    from qibo.quantum_info import random_density_matrix, random_gaussian_matrix, random_unitary

    T = _T(ctx, "C18_inst_density")
    rng = ctx.rng
    seeds = [rng.randrange(10**6) for _ in range(3 if ctx.thorough else 2)]
    for d in ((2, 3, 4, 5, 8) if ctx.thorough else (2, 3, 4)):
        for metric in ("hilbert-schmidt", "ginibre", "bures"):
            for rank in (None, 1, 2, d):
                for seed in seeds:
                    T.n += 1
                    ctx.case(("inst-dm", d, metric, rank, seed))
                    ctx.stat("inst_density")
                    key = f"random_density_matrix:{metric}" if not (metric == "bures" and d in (3, 5)) else "random_density_matrix:bures-dims"
                    py = HEADER + DM_REPLAY.format(d=d, rank=rank, metric=metric, seed=seed)
                    try:
                        g = np.random.default_rng(seed)
                        if metric == "bures":
                            U = np.asarray(random_unitary(d, seed=g))
                            A = np.asarray(random_gaussian_matrix(d, rank, seed=g))
                            B = (np.eye(d) + U) @ A
                        else:
                            B = np.asarray(random_gaussian_matrix(d, None if metric == "hilbert-schmidt" else rank, mean=0, stddev=1, seed=g))
                        G = B @ B.conj().T
                        if abs(np.trace(G)) < 1e-12:
                            continue
                        model = G / np.trace(G)
                        out = np.asarray(random_density_matrix(d, rank=rank, metric=metric, seed=seed))
                        same = out.shape == model.shape and np.abs(out - model).max() < 1e-10
                        herm = np.abs(out - out.conj().T).max() < 1e-12
                        tr1 = abs(np.trace(out) - 1) < 1e-12
                        ev = herm_eigs(out)
                        psd = ev.min() > -1e-12
                        rk = int(np.sum(ev > 1e-10)) <= B.shape[1]
                    except Exception as e:  # noqa: BLE001
                        T.fail(key, f"random_density_matrix({d}, rank={rank}, metric='{metric}', seed={seed}) raises {type(e).__name__}: {e}", py)
                        continue
                    if not (same and herm and tr1 and psd and rk):
                        T.fail(key, f"random_density_matrix({d}, rank={rank}, metric='{metric}', seed={seed}): "
                               f"model={same} hermitian={herm} trace1={tr1} psd={psd} rank<={B.shape[1]}:{rk}", py,
                               expected="B B^dagger / tr(B B^dagger)", observed=f"max deviation {np.abs(out - model).max():.3g}" if out.shape == model.shape else f"shape {out.shape}")
    T.done()


# ----------------------------------------------------------------------------------------
# C18e: scalar algebra
# ----------------------------------------------------------------------------------------
def _rand_dm(g, d, rank=None):
    r = rank or d
    a = g.normal(size=(d, r)) + 1j * g.normal(size=(d, r))
    m = a @ a.conj().T
    return m / np.trace(m)


def _rand_sv(g, d):
    v = g.normal(size=d) + 1j * g.normal(size=d)
    return v / np.linalg.norm(v)


def _lit(x):
    return f"np.array({np.asarray(x).tolist()!r})"


def inst_fidelity(ctx):
    """T18_avg_fidelity_inverse(') / T18_gate_error_relation / T18_avg_fidelity_bounds /
    T18_bures_distance_sq / T18_bures_distance_angle / T18_bures_*_strictAnti / T18_infidelity."""
    from qibo.quantum_info import (average_gate_fidelity, bures_angle, bures_distance, fidelity, gate_error, infidelity,
                                   process_fidelity, process_infidelity)

    T = _T(ctx, "C18_inst_fidelity_algebra")
    g = np.random.default_rng(ctx.rng.randrange(2**32))
    for _ in range(8 if ctx.thorough else 4):
        for d in (2, 4):
            r = int(g.integers(1, 4))
            a = g.normal(size=(r * d, d)) + 1j * g.normal(size=(r * d, d))
            q, _r = np.linalg.qr(a)
            K = [q[i * d:(i + 1) * d, :] for i in range(r)]
            u, _r = np.linalg.qr(g.normal(size=(d, d)) + 1j * g.normal(size=(d, d)))
            L = sum(np.kron(k, k.conj()) for k in K)
            LU = np.kron(u, u.conj())
            for tgt in (None, LU):
                T.n += 1
                ctx.case(("inst-avgfid", d, r, tgt is None, float(np.real(L[0, 0]))))
                ctx.stat("inst_fidelity_channels")
                args = (L,) if tgt is None else (L, tgt)
                F = float(process_fidelity(*args))
                A = float(average_gate_fidelity(*args))
                E = float(gate_error(*args))
                PI = float(process_infidelity(*args))
                ok = (-1e-12 <= F <= 1 + 1e-9                                # hypothesis of the bounds
                      and abs(A - (d * F + 1) / (d + 1)) < 1e-12              # definition
                      and abs(((d + 1) * A - 1) / d - F) < 1e-12              # T18_avg_fidelity_inverse
                      and abs(E - d * (1 - F) / (d + 1)) < 1e-12              # T18_gate_error_relation
                      and abs(PI - (1 - F)) < 1e-12
                      and 1 / (d + 1) - 1e-12 <= A <= 1 + 1e-9)               # T18_avg_fidelity_bounds
                if not ok:
                    call = "channel" if tgt is None else "channel, target"
                    py = HEADER + f"channel = {_lit(L)}\ntarget = {_lit(LU)}\nd = {d}\nF = process_fidelity({call}); A = average_gate_fidelity({call}); E = gate_error({call})\n" \
                        "assert abs(A - (d * F + 1) / (d + 1)) < 1e-12 and abs(((d + 1) * A - 1) / d - F) < 1e-12 and abs(E - d * (1 - F) / (d + 1)) < 1e-12 and 1 / (d + 1) - 1e-12 <= A <= 1 + 1e-9\n"
                    T.fail("average_gate_fidelity:dimension", f"F_pro={F}, F_avg={A}, gate_error={E}, d={d}: F_avg = (d F_pro + 1)/(d + 1) / its inverse / gate_error = d(1-F_pro)/(d+1) violated",
                           py, expected=(d * F + 1) / (d + 1), observed=A)
    # states: the Bures quantities as functions of the real fidelity
    for d in (2, 4):
        rows = []
        base = _rand_dm(g, d)
        for k in range(10 if ctx.thorough else 6):
            other = _rand_dm(g, d) if k % 2 else _rand_dm(g, d, rank=max(1, d // 2))
            t = float(g.uniform(0, 1))
            sigma = (1 - t) * base + t * other          # a path from rho to another state: fidelities spread over (0,1]
            setup = f"state = {_lit(base)}\ntarget = {_lit(sigma)}\n"
            F = float(fidelity(base, sigma))
            I = float(infidelity(base, sigma))
            D = float(bures_distance(base, sigma))
            A = float(bures_angle(base, sigma))
            T.n += 1
            ctx.case(("inst-bures", d, k, round(F, 6)))
            ctx.stat("inst_fidelity_states")
            Fc = min(max(F, 0.0), 1.0)
            ok = (-1e-9 <= F <= 1 + 1e-7 and abs(I - (1 - F)) < 1e-12
                  and abs(D**2 - 2 * (1 - math.sqrt(Fc))) < 1e-6           # T18_bures_distance_sq
                  and abs(A - math.acos(math.sqrt(Fc))) < 2e-4             # arccos is steep at 1
                  and abs(D**2 - 2 * (1 - math.cos(A))) < 1e-6             # T18_bures_distance_angle
                  and -1e-12 <= A <= math.pi / 2 + 1e-12)                  # T18_bures_angle_range
            if not ok:
                py = HEADER + setup + "F = fidelity(state, target); D = bures_distance(state, target); A = bures_angle(state, target)\n" \
                    "Fc = min(max(float(F), 0.0), 1.0)\nassert abs(infidelity(state, target) - (1 - F)) < 1e-12 and abs(D ** 2 - 2 * (1 - math.sqrt(Fc))) < 1e-6 and abs(D ** 2 - 2 * (1 - math.cos(A))) < 1e-6 and -1e-12 <= A <= math.pi / 2 + 1e-12\n"
                T.fail("fidelity:mixed-mixed", f"fidelity={F}, infidelity={I}, bures_distance={D}, bures_angle={A}: D^2 = 2(1 - sqrt F) = 2(1 - cos angle), angle = arccos sqrt F in [0, pi/2] violated",
                       py, expected=(math.sqrt(2 * (1 - math.sqrt(Fc))), math.acos(math.sqrt(Fc))), observed=(D, A))
            rows.append((F, D, A, sigma))
        rows.sort(key=lambda x: x[0])
        for (F1, D1, A1, s1), (F2, D2, A2, s2) in zip(rows, rows[1:]):
            if F2 - F1 > 1e-5 and not (D1 > D2 and A1 > A2 and 1 - F1 > 1 - F2):   # strict antitonicity
                T.n += 1
                py = HEADER + f"state = {_lit(base)}\nt1 = {_lit(s1)}\nt2 = {_lit(s2)}\n" \
                    "assert fidelity(state, t1) < fidelity(state, t2) and bures_distance(state, t1) > bures_distance(state, t2) and bures_angle(state, t1) > bures_angle(state, t2)\n"
                T.fail("fidelity:mixed-mixed", f"Bures distance / angle not decreasing in the fidelity: F {F1} < {F2} but D {D1}, {D2}; angle {A1}, {A2}", py)
    T.done()


def _ptrace_keep(rho, n, keep):
    """reduced state on the qubits `keep` (ascending), written independently of qibo."""
    t = rho.reshape((2,) * (2 * n))
    cur = n
    for q in sorted((q for q in range(n) if q not in keep), reverse=True):
        t = np.trace(t, axis1=q, axis2=q + cur)
        cur -= 1
    return t.reshape(2 ** len(keep), 2 ** len(keep))


def _ptranspose(rho, n, part):
    t = rho.reshape((2,) * (2 * n))
    axes = list(range(2 * n))
    for q in part:
        axes[q], axes[q + n] = axes[q + n], axes[q]
    return t.transpose(axes).reshape(2**n, 2**n)


def inst_entanglement(ctx):
    """T18_meyer_wallach_range / _zero_iff, T18_eof_*, T18_negativity."""
    from qibo.quantum_info import concurrence, entanglement_of_formation, meyer_wallach_entanglement, negativity

    T = _T(ctx, "C18_inst_entanglement_algebra")
    g = np.random.default_rng(ctx.rng.randrange(2**32))
    for n in ((2, 3, 4) if ctx.thorough else (2, 3)):
        d = 2**n
        ghz = np.zeros(d, dtype=complex)
        ghz[0] = ghz[-1] = 1 / math.sqrt(2)
        prod = _rand_sv(g, 2)
        for _ in range(n - 1):
            prod = np.kron(prod, _rand_sv(g, 2))
        states = [("vector", _rand_sv(g, d)), ("ghz", ghz), ("product", prod), ("generic-dm", _rand_dm(g, d)),
                  ("rank2-dm", _rand_dm(g, d, 2)), ("maxmixed", np.eye(d, dtype=complex) / d)]
        for lab, st in states:
            rho = np.outer(st, st.conj()) if st.ndim == 1 else st
            pur = [float(np.real(np.trace(np.linalg.matrix_power(_ptrace_keep(rho, n, [k]), 2)))) for k in range(n)]
            Q = float(meyer_wallach_entanglement(st))
            T.n += 1
            ctx.case(("inst-mw", n, lab, round(Q, 9)))
            ctx.stat("inst_meyer_wallach")
            hyp = all(0.5 - 1e-12 <= p <= 1 + 1e-12 for p in pur)                 # hypothesis: single-qubit purities
            ok = hyp and abs(Q - 2 * (1 - sum(pur) / n)) < 1e-9 and -1e-12 <= Q <= 1 + 1e-12
            if lab == "product":
                ok = ok and abs(Q) < 1e-9                                         # T18_meyer_wallach_zero_iff
            if lab == "ghz":
                ok = ok and abs(Q - 1) < 1e-9
            if not ok:
                py = HEADER + f"state = {_lit(st)}\nQ = meyer_wallach_entanglement(state)\nassert abs(Q - {2 * (1 - sum(pur) / n)!r}) < 1e-9 and -1e-12 <= Q <= 1 + 1e-12\n"
                T.fail(f"meyer_wallach_entanglement:{lab}", f"Meyer-Wallach Q={Q} for single-qubit purities {pur}: not 2(1 - mean purity) in [0, 1]", py,
                       expected=2 * (1 - sum(pur) / n), observed=Q)
            # negativity on every cut {0..k-1}
            for k in range(1, n):
                part = list(range(k))
                ev = herm_eigs(_ptranspose(rho, n, part))
                N = float(negativity(st, part))
                T.n += 1
                ctx.case(("inst-neg", n, lab, k))
                ctx.stat("inst_negativity")
                hyp = abs(float(np.sum(ev)) - 1) < 1e-9                            # hypothesis: unit trace
                ok = hyp and abs(N - (float(np.sum(np.abs(ev))) - 1) / 2) < 1e-6 and abs(N - float(np.sum(np.maximum(-ev, 0)))) < 1e-6 and N >= -1e-9
                if lab in ("product", "maxmixed"):
                    ok = ok and abs(N) < 1e-6                                      # no negative eigenvalue (PPT)
                if not ok:
                    py = HEADER + f"state = {_lit(st)}\nN = negativity(state, {part!r})\nassert abs(N - {float(np.sum(np.maximum(-ev, 0)))!r}) < 1e-6 and N >= -1e-9\n"
                    T.fail(f"negativity:{lab}", f"negativity={N} on cut {part}: not (sum|ev| - 1)/2 = minus the sum of the negative eigenvalues of the partial transpose",
                           py, expected=float(np.sum(np.maximum(-ev, 0))), observed=N)
        # T18_eof_arg_endpoints / T18_eof_endpoints (clamp): locally rotated GHZ states — rounding may push the
        # concurrence slightly above 1, the value must still be log_b 2
        for k in range(12 if ctx.thorough else 6):
            loc = np.array([[1.0 + 0j]])
            for _q in range(n):
                u, _r = np.linalg.qr(g.normal(size=(2, 2)) + 1j * g.normal(size=(2, 2)))
                loc = np.kron(loc, u)
            psi = loc @ ghz
            for base in (2, math.e):
                T.n += 1
                ctx.case(("inst-eof-max", n, k, base))
                ctx.stat("inst_eof_max")
                C = float(concurrence(psi, [0]))
                E = float(entanglement_of_formation(psi, [0], base))
                if math.isnan(E) or abs(E - math.log(2) / math.log(base)) > 1e-6 or abs(C - 1) > 1e-6:
                    py = HEADER + f"psi = {_lit(psi)}\nE = entanglement_of_formation(psi, [0], {base!r})\nassert not math.isnan(E) and abs(E - {math.log(2) / math.log(base)!r}) < 1e-6\n"
                    T.fail("entanglement_of_formation:maximally-entangled", f"locally rotated GHZ state: concurrence {C!r}, entanglement_of_formation {E!r} (base {base}) instead of log_b 2", py,
                           expected=math.log(2) / math.log(base), observed=E)
        # entanglement of formation along cos(t)|0..0> + sin(t)|1..1>: concurrence sin(2t) from 0 to 1
        for base in (2, math.e, 10):
            prev = None
            ts = list(np.linspace(0, math.pi / 4, 9 if ctx.thorough else 6))
            for t in ts:
                psi = np.zeros(d, dtype=complex)
                psi[0], psi[-1] = math.cos(t), math.sin(t)
                part = [0]
                C = float(concurrence(psi, part))
                E = float(entanglement_of_formation(psi, part, base))
                x = (1 + math.sqrt(max(1 - C * C, 0.0))) / 2
                hb = -sum(p * math.log(p) / math.log(base) for p in (x, 1 - x) if p > 0)
                T.n += 1
                ctx.case(("inst-eof", n, base, round(float(t), 6)))
                ctx.stat("inst_eof")
                rho_t = np.outer(psi, psi.conj())
                P1 = float(np.real(np.trace(np.linalg.matrix_power(_ptrace_keep(rho_t, n, [0]), 2))))   # purity of the traced qubit = purity of the rest
                ok = (0.5 - 1e-12 <= P1 <= 1 + 1e-12 and abs(C - math.sqrt(max(2 * (1 - P1), 0.0))) < 1e-6      # T18_concurrence_range
                      and -1e-9 <= C <= 1 + 1e-7 and abs(C - math.sin(2 * t)) < 1e-6
                      and 0.5 <= x <= 1                                           # T18_eof_arg_range
                      and abs(E - hb) < 1e-6                                      # T18_eof_eq_binEntropy
                      and -1e-12 <= E <= math.log(2) / math.log(base) + 1e-9      # T18_eof_range
                      and not math.isnan(E))
                if t == 0:
                    ok = ok and abs(E) < 1e-9                                     # T18_eof_endpoints
                if t == ts[-1]:
                    ok = ok and abs(E - math.log(2) / math.log(base)) < 1e-6      # EoF(1) = log_b 2 (1 in base 2)
                if prev is not None and C - prev[0] > 1e-6:
                    ok = ok and E > prev[1]                                       # T18_eof_strictMono
                if not ok:
                    py = HEADER + f"psi = {_lit(psi)}\nE = entanglement_of_formation(psi, [0], {base!r})\nassert not math.isnan(E) and abs(E - {hb!r}) < 1e-6\n"
                    T.fail("entanglement_of_formation:maximally-entangled" if t == ts[-1] else "entanglement_of_formation:vector",
                           f"entanglement_of_formation={E} (base {base}) at concurrence {C}: not h_b((1 + sqrt(1 - C^2))/2) = {hb}, or outside [0, log_b 2], or not increasing in C", py,
                           expected=hb, observed=E)
                prev = (C, E)
    T.done()


def inst_entropies(ctx):
    """T18_shannon_nonneg / _le_log_card / _uniform / _point, T18_relative_entropy_nonneg / _self."""
    from qibo.quantum_info import (classical_relative_entropy, classical_renyi_entropy, classical_tsallis_entropy, shannon_entropy,
                                   von_neumann_entropy)

    T = _T(ctx, "C18_inst_entropy_bounds")
    g = np.random.default_rng(ctx.rng.randrange(2**32))
    for n in range(1, 9 if ctx.thorough else 7):
        for base in (2, math.e, 10, 1.5):
            logn = math.log(n) / math.log(base)
            cands = [("uniform", np.full(n, 1 / n)), ("point", np.eye(n)[int(g.integers(n))])]
            for z in range(0, min(n, 3)):
                p = g.random(n) + 1e-3
                if z:
                    p[g.choice(n, size=z, replace=False)] = 0.0
                if p.sum() > 0:
                    cands.append((f"zeros={z}", p / p.sum()))
            for lab, p in cands:
                T.n += 1
                ctx.case(("inst-shannon", n, base, lab, round(float(p[0]), 9)))
                ctx.stat("inst_shannon")
                hyp = np.all(p >= 0) and np.all(p <= 1) and abs(p.sum() - 1) < 1e-12
                H = float(shannon_entropy(p, base))
                ok = hyp and -1e-12 <= H <= logn + 1e-9
                if lab == "uniform":
                    ok = ok and abs(H - logn) < 1e-9
                if lab == "point":
                    ok = ok and abs(H) < 1e-12
                if not ok:
                    py = HEADER + f"p = {_lit(p)}\nH = shannon_entropy(p, {base!r})\nassert -1e-12 <= H <= {logn!r} + 1e-9" + \
                        (f" and abs(H - {logn!r}) < 1e-9" if lab == "uniform" else "") + "\n"
                    T.fail("shannon_entropy", f"shannon_entropy({p.tolist()}, base={base}) = {H}: outside [0, log_b {n}] (or bound not attained by the uniform / point distribution)", py,
                           expected=f"[0, {logn}]", observed=H)
                # T18_renyi_nonneg / T18_tsallis_nonneg / T18_min_entropy_range
                for alpha in (0.3, 0.5, 1.5, 2, 3.5):
                    T.n += 1
                    ctx.stat("inst_renyi_tsallis")
                    R = float(classical_renyi_entropy(p, alpha, base))
                    Ts = float(classical_tsallis_entropy(p, alpha, base))
                    sa = float(np.sum(p[p > 0] ** alpha))
                    ok = (hyp and abs(R - math.log(sa) / math.log(base) / (1 - alpha)) < 1e-9 and R >= -1e-12 and R <= logn + 1e-9
                          and abs(Ts - (1 - sa) / (alpha - 1)) < 1e-9 and Ts >= -1e-12)
                    if not ok:
                        py = HEADER + f"p = {_lit(p)}\nR = classical_renyi_entropy(p, {alpha!r}, {base!r}); T = classical_tsallis_entropy(p, {alpha!r}, {base!r})\n" \
                            f"assert -1e-12 <= R <= {logn!r} + 1e-9 and T >= -1e-12\n"
                        T.fail("classical_renyi_entropy" if not (R >= -1e-12 and R <= logn + 1e-9 and abs(R - math.log(sa) / math.log(base) / (1 - alpha)) < 1e-9) else "classical_tsallis_entropy",
                               f"classical Renyi / Tsallis entropy at alpha={alpha}, base={base}: {R}, {Ts} (negative, above log_b n, or not the documented formula)", py, expected=">= 0", observed=(R, Ts))
                T.n += 1
                Rinf = float(classical_renyi_entropy(p, np.inf, base))
                if not (-1e-12 <= Rinf <= logn + 1e-9 and abs(Rinf + math.log(p.max()) / math.log(base)) < 1e-9):
                    py = HEADER + f"p = {_lit(p)}\nR = classical_renyi_entropy(p, np.inf, {base!r})\nassert -1e-12 <= R <= {logn!r} + 1e-9\n"
                    T.fail("classical_renyi_entropy", f"min-entropy {Rinf} outside [0, log_b n] or not -log_b max p", py, expected=-math.log(p.max()) / math.log(base), observed=Rinf)
                # Gibbs
                q = g.random(n) + 1e-3
                q /= q.sum()
                for lab2, qq in (("generic", q), ("self", p.copy())):
                    if np.any((qq == 0) & (p != 0)):
                        continue
                    T.n += 1
                    ctx.stat("inst_relative_entropy")
                    Dv = float(classical_relative_entropy(p, qq, base))
                    ok = Dv >= -1e-12 and (lab2 != "self" or abs(Dv) < 1e-12)
                    if not ok:
                        py = HEADER + f"p = {_lit(p)}\nq = {_lit(qq)}\nD = classical_relative_entropy(p, q, {base!r})\nassert D >= -1e-12" + (" and abs(D) < 1e-12" if lab2 == "self" else "") + "\n"
                        T.fail("classical_relative_entropy", f"classical_relative_entropy(p, q, base={base}) = {Dv} < 0 (Gibbs) or D(p||p) != 0", py, expected=">= 0", observed=Dv)
    # the same bounds for the spectrum of a density matrix: von_neumann_entropy = Shannon entropy of the eigenvalues
    for d in ((2, 3, 4, 8) if ctx.thorough else (2, 4)):
        for lab, rho in (("generic", _rand_dm(g, d)), ("rank-deficient", _rand_dm(g, d, max(1, d // 2))), ("maxmixed", np.eye(d, dtype=complex) / d),
                         ("pure", np.outer(*(lambda v: (v, v.conj()))(_rand_sv(g, d))))):
            for base in (2, math.e, 10):
                T.n += 1
                ctx.case(("inst-vn", d, lab, base))
                ctx.stat("inst_von_neumann")
                ev = np.clip(herm_eigs(rho), 0, None)
                hyp = abs(ev.sum() - 1) < 1e-9 and np.all(ev <= 1 + 1e-12)
                Hs = -sum(float(x) * math.log(float(x)) for x in ev if x > 1e-300) / math.log(base)
                Sv = float(von_neumann_entropy(rho, base=base))
                logd = math.log(d) / math.log(base)
                ok = hyp and abs(Sv - Hs) < 1e-8 and -1e-9 <= Sv <= logd + 1e-9
                if lab == "maxmixed":
                    ok = ok and abs(Sv - logd) < 1e-9
                if lab == "pure":
                    ok = ok and abs(Sv) < 1e-8
                if not ok:
                    py = HEADER + f"rho = {_lit(rho)}\nS = von_neumann_entropy(rho, base={base!r})\nassert abs(S - {Hs!r}) < 1e-8 and -1e-9 <= S <= {logd!r} + 1e-9\n"
                    T.fail(f"von_neumann_entropy:{lab}", f"von_neumann_entropy={Sv} (base {base}, d={d}): not the Shannon entropy {Hs} of the spectrum, or outside [0, log_b d]", py, expected=Hs, observed=Sv)
    T.done()


def run_suites(ctx):
    for suite in (inst_bcsz, inst_choi, inst_density, inst_fidelity, inst_entanglement, inst_entropies):
        with warnings.catch_warnings():
            warnings.simplefilter("ignore")
            suite(ctx)
