"""C06 deepening — the GATE-level state inside a regenerated model (QV/Model/GateObj.lean).

A parametrised gate stores each constructor argument several times (`_parameters[i]`,
`init_kwargs[name]`, `init_args[j]`, ad-hoc attributes such as `PRX.theta`, and the flag
`trainable` / `init_kwargs['trainable']`), and every derived method reads one of the copies.
`run_suites(ctx)`

  * TRACES every parametrised class of the checked source tree on every run:
      - storage locations: the class is constructed twice with arguments that differ in one
        slot only; the places of `gate.__dict__` that differ are the copies of that slot;
      - setters: every update route (`gate.parameters = x`, `Circuit.set_parameters` in list /
        dict / flat format, each accepted encoding) — which copies hold the new value after it;
      - methods: one copy at a time is overwritten with another value ("poke") and the method's
        result is compared with the unpoked one — the method READS exactly the copies whose
        poke changes its result (information flow, no knowledge of the implementation);
        methods returning a parametrised gate (dagger, on_qubits, controlled_by, from_dict∘raw,
        Circuit.invert, Circuit.on_qubits) are traced per storage location of the RESULT;
      - `Circuit.copy(deep=True)`: locations carried over, and locations living in a container
        shared between copy and source (an in-place poke of one shows in the other);
  * EMITS the table as `lean/QV/Gen/C06_GateTable.lean` and, for every class whose row
    satisfies the decidable predicate (evaluated by Lean, stage 1), the kernel obligation
    `theorem C06_gate_fresh_<Class> : Table.freshAt table i = true := by decide +kernel`; when all
    rows pass, `C06_gate_table_fresh : Table.fresh table = true` and the instantiation of the
    history theorems `QV.Props.C06.T06_gate_*` (QV/Props/C06c.lean) at the table of THIS tree;
  * SEARCHES the real code directly (independently of the table): after short histories of
    update / dagger / on_qubits / controlled_by / from_dict / invert / deep copy, every view of the
    reached gate — and of every gate one producer call away — must equal the view of a gate
    freshly constructed from the reached gate's own `parameters`, `trainable` flag and qubits.
    Disagreements are reported with replays and explain the broken table obligations.
"""
from __future__ import annotations

import random
import re

import numpy as np

from vlib import leanrun, qgates

PROP = "C06"
GEN = leanrun.LEAN_DIR / "QV" / "Gen"

KIND_PARAMS, KIND_KWARG, KIND_ARG, KIND_ATTR, KIND_TRAINABLE, KIND_KWTRAINABLE = range(6)

# ---------------------------------------------------------------------------
# code shared by the tracer, the search and the replays

PRELUDE = r'''
import numpy as np
from qibo import Circuit, gates
from qibo.gates.abstract import Gate, ParametrizedGate
from qibo.backends import NumpyBackend
nb = NumpyBackend()

def circ(g, n):
    c = Circuit(n); c.add(g); return c

def free(g, n, k):
    return [q for q in range(n) if q not in g.qubits][:k]

def shift(n):
    return {q: (q + 1) % n for q in range(n)}

def PSI(n):
    rs = np.random.RandomState(5)
    v = rs.randn(2**n) + 1j * rs.randn(2**n)
    return v / np.linalg.norm(v)

def obs(x):
    """canonical API-level observation of a method result (documented attributes only)"""
    if isinstance(x, Gate):
        try: m = obs(np.asarray(x.matrix(nb)))
        except Exception as e: m = ("raise", type(e).__name__)
        return ("gate", type(x).__name__, tuple(x.target_qubits), tuple(x.control_qubits), bool(x.is_controlled_by),
                getattr(x, "trainable", None), obs(x.parameters), obs(x.init_kwargs), obs(x.init_args), m)
    if isinstance(x, np.ndarray):
        return ("arr", x.shape, tuple(complex(z) for z in x.reshape(-1)))
    if isinstance(x, (list, tuple)):
        return (type(x).__name__,) + tuple(obs(y) for y in x)
    if isinstance(x, dict):
        return ("dict",) + tuple((repr(k), obs(v)) for k, v in x.items())
    if isinstance(x, (bool, int, float, complex, str, type(None))):
        return x
    if isinstance(x, (np.floating, np.integer, np.complexfloating, np.bool_)):
        return x.item()
    if isinstance(x, type):
        return ("class", x.__name__)
    return ("object", type(x).__name__)

def eq_obs(a, b, tol=1e-10):
    if isinstance(a, tuple) and isinstance(b, tuple):
        return len(a) == len(b) and all(eq_obs(x, y, tol) for x, y in zip(a, b))
    if isinstance(a, bool) or isinstance(b, bool) or isinstance(a, str) or isinstance(b, str) or a is None or b is None:
        return type(a) is type(b) and a == b
    if isinstance(a, (int, float, complex)) and isinstance(b, (int, float, complex)):
        return abs(complex(a) - complex(b)) <= tol
    return a == b

def call(f):
    try: return ("ok", f())
    except Exception as e: return ("raise", type(e).__name__)

# consumers: name -> function(gate, n)
VIEWS = {
    "parameters": lambda g, n: g.parameters,
    "matrix": lambda g, n: g.matrix(nb),
    "execute": lambda g, n: np.asarray(nb.execute_circuit(circ(g, n), initial_state=PSI(n)).state()),
    "unitary": lambda g, n: circ(g, n).unitary(nb),
    "fuse": lambda g, n: circ(g, n).fuse().unitary(nb),
    "decompose": lambda g, n: g.decompose(),
    "circuit_decompose": lambda g, n: circ(g, n).decompose().queue,
    # `raw` dumps the private `_control_qubits` in the order given; the documented order is sorted
    "raw": lambda g, n: {k: (sorted(v) if k == "_control_qubits" else v) for k, v in g.raw.items()},
    "qasm": lambda g, n: circ(g, n).to_qasm(),
    "clifford": lambda g, n: g.clifford,
    "get_parameters": lambda g, n: circ(g, n).get_parameters("list", True),
    "trainable_gates": lambda g, n: (len(circ(g, n).trainable_gates), circ(g, n).get_parameters("list", False)),
}

def _update_effect(g, n):
    """what the three update formats do to a circuit holding only this gate: a frozen
    (non-trainable) gate must be refused and keep its values"""
    c = circ(g, n)
    new = [tuple(0.5 * np.asarray(v) if isinstance(v, np.ndarray) else 0.5 * v for v in p) for p in c.get_parameters("list", True)]
    out = []
    for fmt, arg in (("list", lambda: new), ("dict", lambda: {g: new[0]}), ("flat", lambda: [x for p in new for x in p])):
        try:
            c.set_parameters(arg()); out.append((fmt, "ok"))
        except Exception as e:
            out.append((fmt, type(e).__name__))
    return out, c.get_parameters("list", True)

VIEWS["update_effect"] = _update_effect
# producers that must hand the `trainable` flag on unchanged (SPECIFICATION); gate-level `dagger`
# and `from_dict(raw)` return constructor defaults by design of qibo and are not listed
KEEP_FLAG = ("on_qubits", "circuit_on_qubits", "circuit_invert", "controlled_by1", "controlled_by2", "controlled_by3", "circuit_copy_deep")
RESETS_FLAG = ("dagger", "from_dict")
CHEAP_VIEWS = ("parameters", "matrix", "decompose", "raw", "trainable_gates")

# methods returning ONE gate: name -> function(gate, n)
PRODUCERS = {
    "dagger": lambda g, n: g.dagger(),
    "on_qubits": lambda g, n: g.on_qubits(shift(n)),
    "circuit_on_qubits": lambda g, n: next(iter(circ(g, n).on_qubits(*[shift(n)[q] for q in range(n)]))),
    "from_dict": lambda g, n: Gate.from_dict(g.raw),
    "circuit_invert": lambda g, n: circ(g, n).invert().queue[0],
    "controlled_by1": lambda g, n: g.controlled_by(*free(g, n, 1)),
    "controlled_by2": lambda g, n: g.controlled_by(*free(g, n, 2)),
    "controlled_by3": lambda g, n: g.controlled_by(*free(g, n, 3)),
    "circuit_copy_deep": lambda g, n: circ(g, n).copy(deep=True).queue[0],
}
'''

_NS = None


def ns():
    global _NS
    if _NS is None:
        _NS = {}
        exec(PRELUDE, _NS)
    return _NS


def _base():
    from props import C06 as base

    return base


# ---------------------------------------------------------------------------
# storage plumbing (tracer only)

# attributes of a gate object that are not storage of constructor arguments
SKIP_ATTRS = {"device_gates", "original_gate", "symbolic_parameters", "_target_qubits", "_control_qubits"}


def same(a, b):
    """exact equality of stored values (the compared computations are deterministic)."""
    try:
        if isinstance(a, np.ndarray) or isinstance(b, np.ndarray):
            a, b = np.asarray(a), np.asarray(b)
            return a.shape == b.shape and bool(np.array_equal(a, b))
        if isinstance(a, (list, tuple)) and isinstance(b, (list, tuple)):
            return type(a) is type(b) and len(a) == len(b) and all(same(x, y) for x, y in zip(a, b))
        if isinstance(a, dict) and isinstance(b, dict):
            return list(a) == list(b) and all(same(a[k], b[k]) for k in a)
        return bool(a == b) and type(a) is type(b)
    except Exception:  # noqa: BLE001
        return a is b


def _close(a, b):
    try:
        x, y = np.asarray(a, dtype=complex), np.asarray(b, dtype=complex)
        return x.shape == y.shape and bool(np.allclose(x, y, atol=1e-12, rtol=0))
    except Exception:  # noqa: BLE001
        return False


def paths(g):
    """storage paths of a gate object: (attribute,) or (attribute, key/index)."""
    out = []
    for k, v in g.__dict__.items():
        if k in SKIP_ATTRS:
            continue
        if isinstance(v, dict):
            out += [(k, kk) for kk in v]
        elif isinstance(v, (list, tuple)):
            out += [(k, i) for i in range(len(v))]
        else:
            out.append((k,))
    return out


class _Missing:
    def __repr__(self):
        return "<missing>"

    def __eq__(self, other):
        return isinstance(other, _Missing)

    def __hash__(self):
        return 0


MISSING = _Missing()


def get(g, path):
    try:
        v = g.__dict__[path[0]]
        return v if len(path) == 1 else v[path[1]]
    except (KeyError, IndexError, TypeError):
        return MISSING


def put(g, path, value):
    """overwrite one storage location.  Containers are mutated in place (that is what the
    library's setters do: `init_kwargs.update`, `init_args[0] = …`); tuples are rebuilt."""
    if len(path) == 1:
        setattr(g, path[0], value)
        return
    cont = g.__dict__[path[0]]
    if isinstance(cont, tuple):
        lst = list(cont)
        lst[path[1]] = value
        g.__dict__[path[0]] = tuple(lst)
    else:
        cont[path[1]] = value


def _copyval(v):
    return v.copy() if isinstance(v, np.ndarray) else v


# ---------------------------------------------------------------------------
# the traced classes


class Recipe:
    """how to build one class with given slot values (reuses the catalogue of props/C06.py,
    read from the constructor signatures of the current source)."""

    def __init__(self, key, cls):
        self.key, self.cls = key, cls
        self.nq = cls.nq
        self.n = cls.nq + 3
        self.qs = list(range(cls.nq))

    def nslots(self):
        return 1 if self.cls.kind in ("unitary", "align") else (2 if self.cls.kind in ("gfsim", "grbs") else self.cls.slots)

    def values(self, rnd):
        v = _base().rand_value(self.cls, rnd)
        if self.cls.kind == "unitary":
            return [v]
        if self.cls.kind == "gfsim":
            return [v[0], v[1]]
        return list(v)

    def canon(self, slots):
        """slot list -> the canonical per-gate value of props/C06.py"""
        if self.cls.kind == "unitary":
            return slots[0]
        if self.cls.kind == "gfsim":
            return (slots[0], slots[1])
        return list(slots)

    def make(self, slots, trainable=True, qs=None):
        G = qgates.gates_module()
        qs = self.qs if qs is None else list(qs)
        c = self.cls
        if c.kind == "angles":
            return getattr(G, c.name)(*qs, *slots, trainable=trainable)
        if c.kind == "unitary":
            return G.Unitary(np.array(slots[0]), *qs, trainable=trainable)
        if c.kind == "gfsim":
            return G.GeneralizedfSim(*qs, np.array(slots[0]), slots[1], trainable=trainable)
        if c.kind == "grbs":
            return G.GeneralizedRBS([qs[0]], [qs[1]], *slots, trainable=trainable)
        if c.kind == "align":
            return G.Align(qs[0], slots[0], trainable=trainable)
        raise ValueError(c.kind)

    def code(self, slots, trainable=True, qs=None):
        pr = _base().pyrepr
        c = self.cls
        qs = self.qs if qs is None else list(qs)
        q = ", ".join(map(str, qs))
        tr = "" if trainable else ", trainable=False"
        if c.kind == "angles":
            return f"gates.{c.name}({q}, {', '.join(pr(x) for x in slots)}{tr})"
        if c.kind == "unitary":
            return f"gates.Unitary({pr(np.asarray(slots[0]))}, {q}{tr})"
        if c.kind == "gfsim":
            return f"gates.GeneralizedfSim({q}, {pr(np.asarray(slots[0]))}, {pr(slots[1])}{tr})"
        if c.kind == "grbs":
            return f"gates.GeneralizedRBS([{qs[0]}], [{qs[1]}], {', '.join(pr(x) for x in slots)}{tr})"
        return f"gates.Align({q}, {pr(slots[0])}{tr})"


def recipes():
    par, _ = _base().catalogue()
    return {k: Recipe(k, c) for k, c in sorted(par.items())}


def distinct_values(rec, rnd, k):
    """k slot vectors, pairwise different in every slot"""
    out = []
    while len(out) < k:
        v = rec.values(rnd)
        if all(not same(v[i], w[i]) for w in out for i in range(len(v))):
            out.append(v)
    return out


def class_key(g, known):
    nm = type(g).__name__
    if nm == "Unitary":
        return {1: "Unitary1", 2: "Unitary2"}.get(len(g.target_qubits))
    return nm if nm in known else None


class Field:
    def __init__(self, path, slot, flag):
        self.path, self.slot, self.flag = path, slot, flag
        self.idx = None
        if path[0] == "_parameters":
            self.kind, self.idx = KIND_PARAMS, path[1]
        elif path == ("trainable",):
            self.kind, self.idx = KIND_TRAINABLE, 0
        elif path == ("init_kwargs", "trainable"):
            self.kind, self.idx = KIND_KWTRAINABLE, 0
        elif path[0] == "init_kwargs":
            self.kind = KIND_KWARG
        elif path[0] == "init_args":
            self.kind, self.idx = KIND_ARG, path[1]
        else:
            self.kind = KIND_ATTR

    @property
    def name(self):
        p = self.path
        return p[0] if len(p) == 1 else f"{p[0]}[{p[1]!r}]"

    def key(self):
        return (self.kind, self.idx, self.slot)

    def lean(self):
        return f"⟨{self.kind}, {self.idx}, {self.slot}⟩"


class Tracer:
    def __init__(self, seed=0):
        self.rnd = random.Random(f"C06_gateobj:{seed}")
        self.recs = recipes()
        self.attr_ids = {}
        self.problems = []  # (class key, text): things the tracer could not make sense of

    def attr_id(self, name):
        return self.attr_ids.setdefault(name, len(self.attr_ids))

    # -- storage locations ------------------------------------------------
    def discover_fields(self, rec):
        k = rec.nslots()
        A, A2 = distinct_values(rec, self.rnd, 2)
        g0 = rec.make(A, True)
        fields = []
        for i in range(k + 1):
            if i < k:
                B = list(A)
                B[i] = A2[i]
                g1 = rec.make(B, True)
            else:
                g1 = rec.make(A, False)
            for p in sorted(set(paths(g0)) | set(paths(g1)), key=repr):
                if not same(get(g0, p), get(g1, p)):
                    fields.append(Field(p, i, i == k))
        pn = getattr(g0, "parameter_names", [])
        names = [pn] if isinstance(pn, str) else list(pn)
        for f in fields:
            if f.kind == KIND_KWARG:
                f.idx = names.index(f.path[1]) if f.path[1] in names else 100 + self.attr_id("init_kwargs[%r]" % (f.path[1],))
            elif f.kind == KIND_ATTR:
                f.idx = self.attr_id(f.name)
        fields.sort(key=lambda f: f.key())
        return fields

    # -- update routes ----------------------------------------------------
    def setter_routes(self, rec):
        base = _base()
        N = ns()

        def enc(v, s):
            return base.encode_gate_value(rec.cls, v, random.Random(s))

        def r_attr(g, v, s):
            g.parameters = enc(v, s)

        def r_list(g, v, s):
            N["circ"](g, rec.n).set_parameters([enc(v, s)])

        def r_dict(g, v, s):
            N["circ"](g, rec.n).set_parameters({g: enc(v, s)})

        def r_flat(g, v, s):
            flat = base.flat_of(rec.cls, v)
            if all(abs(complex(z).imag) == 0 for z in flat):
                flat = [float(complex(z).real) for z in flat]
            N["circ"](g, rec.n).set_parameters([flat, tuple(flat), np.array(flat)][s % 3])

        routes = [("gate.parameters", r_attr), ("set_parameters:list", r_list), ("set_parameters:dict", r_dict)]
        if rec.cls.kind not in ("gfsim", "align"):
            routes.append(("set_parameters:flat", r_flat))
        return routes

    # -- one class --------------------------------------------------------
    def trace_class(self, rec, all_fields):
        from qibo.gates.abstract import ParametrizedGate

        N = ns()
        n = rec.n
        row = type("Row", (), {})()
        row.rec, row.key = rec, rec.key
        fields = row.fields = all_fields[rec.key]
        k = rec.nslots()
        A, B, C = distinct_values(rec, self.rnd, 3)
        alt = rec.make(C, False)  # the values another construction puts at each location
        refA, refB = rec.make(A, True), rec.make(B, True)

        # setters
        row.setters = []  # [names, slots, writes, corrupt]
        seen = {}
        for name, fn in self.setter_routes(rec):
            for s in range(5):
                g = rec.make(A, True)
                try:
                    fn(g, rec.canon(B), s)
                except Exception as e:  # noqa: BLE001
                    self.problems.append((rec.key, f"update route {name} (encoding {s}) raises {type(e).__name__}: {e}"))
                    continue
                writes, corrupt = [], []
                for f in fields:
                    if f.flag:
                        continue
                    v = get(g, f.path)
                    if same(v, get(refB, f.path)) or _close(v, get(refB, f.path)):
                        writes.append(f)
                    elif not same(v, get(refA, f.path)):
                        corrupt.append(f)
                sig = (tuple(f.key() for f in writes), tuple(f.key() for f in corrupt))
                if sig in seen:
                    seen[sig][0].append(f"{name}#{s}")
                else:
                    seen[sig] = [[f"{name}#{s}"], list(range(k)), writes, corrupt]
                    row.setters.append(seen[sig])

        def poked(f):
            g = rec.make(A, True)
            put(g, f.path, _copyval(get(alt, f.path)))
            return g

        # consumers
        row.views = []  # (name, reads, status)
        def as_view(name, fn):
            base = N["call"](lambda: N["obs"](fn(rec.make(A, True), n)))
            reads = [f for f in fields if N["call"](lambda: N["obs"](fn(poked(f), n))) != base]
            row.views.append((name, reads, base[0]))

        for name, fn in N["VIEWS"].items():
            as_view(name, fn)

        # producers
        row.producers = []  # (name, out class key, [(Field of the result, deps, fn tag)])
        row.copied = []
        for name, fn in N["PRODUCERS"].items():
            r0 = N["call"](lambda: fn(rec.make(A, True), n))
            okey = class_key(r0[1], all_fields) if r0[0] == "ok" and isinstance(r0[1], ParametrizedGate) else None
            if okey is None:
                as_view(name, fn)  # raises, or returns something that is not a traced class
                continue
            rg = r0[1]
            ofields = all_fields[okey]
            base_vals = {of.key(): get(rg, of.path) for of in ofields}
            deps = {of.key(): [] for of in ofields}
            pvals = {}
            for f in fields:
                r1 = N["call"](lambda: fn(poked(f), n))
                for of in ofields:
                    if r1[0] != "ok" or not same(get(r1[1], of.path), base_vals[of.key()]):
                        deps[of.key()].append(f)
                        pvals[(of.key(), f.key())] = get(r1[1], of.path) if r1[0] == "ok" else MISSING
            srcA = rec.make(A, True)
            # identity fields: one source location, whose value (original and poked) is passed through
            idents = [of for of in ofields if len(deps[of.key()]) == 1
                      and same(base_vals[of.key()], get(srcA, deps[of.key()][0].path))
                      and same(pvals[(of.key(), deps[of.key()][0].key())], get(alt, deps[of.key()][0].path))]
            if name == "circuit_copy_deep":
                src = rec.make(A, True)
                row.copied = [f for f in fields if okey == rec.key and same(get(rg, f.path), get(src, f.path))
                              and [d.key() for d in deps[f.key()]] == [f.key()]]
                continue
            # function tags: result locations of one slot holding equal values get the same tag
            outs = []
            reps = {}
            for of in ofields:
                lst = reps.setdefault(of.slot, [])
                v = base_vals[of.key()]
                for ti, rv in enumerate(lst):
                    if same(v, rv) or _close(v, rv):
                        tag = ti
                        break
                else:
                    lst.append(v)
                    tag = len(lst) - 1
                outs.append((of, deps[of.key()], tag))
            keeps = [(rec.nslots(), self.recs[okey].nslots())] if name in N["KEEP_FLAG"] else []
            row.producers.append((name, okey, outs, idents, keeps))

        # containers shared between a deep copy and its source
        row.shared = []
        for f in fields:
            hit = False
            for direction in (0, 1):
                g = rec.make(A, True)
                h = N["circ"](g, n).copy(deep=True).queue[0]
                src, dst = (h, g) if direction == 0 else (g, h)
                before = get(dst, f.path)
                put(src, f.path, _copyval(get(alt, f.path)))
                hit = hit or not same(get(dst, f.path), before)
            if hit:
                row.shared.append(f)
        return row

    def trace(self):
        all_fields = {k: self.discover_fields(r) for k, r in self.recs.items()}
        rows = [self.trace_class(r, all_fields) for r in self.recs.values()]
        compute_live(rows)
        return rows


def compute_live(rows):
    """least set of fields containing everything a view reads, closed under the producers'
    dependencies (checked, not trusted, by `Table.fresh`)."""
    by = {r.key: r for r in rows}
    live = {r.key: {} for r in rows}
    for r in rows:
        for _, reads, _ in r.views:
            for f in reads:
                live[r.key][f.key()] = f
    changed = True
    while changed:
        changed = False
        for r in rows:
            for _, okey, outs, _i, _k in r.producers:
                for of, deps, _ in outs:
                    if of.key() in live[okey]:
                        for d in deps:
                            if d.key() not in live[r.key]:
                                live[r.key][d.key()] = d
                                changed = True
    for r in rows:
        r.live = [f for f in r.fields if f.key() in live[r.key]]
        extra = [f for k, f in live[r.key].items() if k not in {x.key() for x in r.fields}]
        r.live += extra


# ---------------------------------------------------------------------------
# emission


def _ls(xs):
    return "[" + ", ".join(xs) + "]"


def _fl(fs):
    return _ls(f.lean() for f in fs)


def _str(s):
    return '"' + s.replace("\\", "\\\\").replace('"', '\\"') + '"'


def lean_name(key):
    return re.sub(r"\W", "_", key)


def emit_table(rows, attr_ids):
    index = {r.key: i for i, r in enumerate(rows)}
    out = ["import QV.Model.GateObj", "set_option maxRecDepth 100000", "namespace QV.Gen.C06", "open QV.GateObj", "",
           "/-! Regenerated by tools/props/C06_gateobj.py from the gate classes of the checked source tree.",
           "    Field = ⟨kind, idx, slot⟩; kind 0 `_parameters[idx]`, 1 `init_kwargs[parameter_names[idx]]`",
           "    (idx ≥ 100: another keyword), 2 `init_args[idx]`, 3 attribute number idx, 4 `trainable`,",
           "    5 `init_kwargs['trainable']`.  Attribute numbers: "
           + ", ".join(f"{i} = {n}" for n, i in sorted(attr_ids.items(), key=lambda kv: kv[1])) + " -/", ""]
    for r in rows:
        setters = _ls("⟨" + _str(", ".join(names[:2]) + (f" (+{len(names) - 2} routes/encodings)" if len(names) > 2 else ""))
                      + f", {slots}, {_fl(writes)}⟩" for names, slots, writes, _ in r.setters)
        views = _ls(f"⟨{_str(name)}, {_fl(reads)}⟩" for name, reads, _ in r.views)
        prods = _ls("⟨" + _str(name) + f", {index[okey]}, " + _ls(f"⟨{of.lean()}, {_fl(deps)}, {tag}⟩" for of, deps, tag in outs)
                    + f", {_fl(idents)}, " + _ls(f"({i}, {j})" for i, j in keeps) + "⟩"
                    for name, okey, outs, idents, keeps in r.producers)
        out.append(f"/-- {r.key}: " + "; ".join(f"{f.lean()} = {f.name}" for f in r.fields) + " -/")
        out.append(f"def row_{lean_name(r.key)} : Cls :=\n  {{ name := {_str(r.key)}\n    fields := {_fl(r.fields)}\n    live := {_fl(r.live)}\n"
                   f"    setters := {setters}\n    views := {views}\n    producers := {prods}\n    copied := {_fl(r.copied)}\n    shared := {_fl(r.shared)} }}\n")
    out.append("def table : Table := " + _ls(f"row_{lean_name(r.key)}" for r in rows))
    out.append("end QV.Gen.C06\n")
    leanrun.write_if_changed(GEN / "C06_GateTable.lean", "\n".join(out))
    s1 = ["import QV.Gen.C06_GateTable", "open QV.GateObj QV.Gen.C06", "def main : IO Unit := do"]
    for i, r in enumerate(rows):
        s1.append(f'  IO.println s!"{r.key} {{(table.cls {i}).okFields}} {{(table.cls {i}).okViews}} {{(table.cls {i}).okSetters}} '
                  f'{{(table.cls {i}).okCopy}} {{(table.cls {i}).okProducers table}} {{table.freshAt {i}}} '
                  f'{{((table.cls {i}).producers.filter (fun p => !(Producer.ok table (table.cls {i}) p))).map (·.name)}}"')
    leanrun.write_if_changed(GEN / "C06_GateStage1.lean", "\n".join(s1) + "\n")


CLAUSES = ("okFields", "okViews", "okSetters", "okCopy", "okProducers")


def stage1(rows):
    ok, out = leanrun.lake_build(["QV.Gen.C06_GateTable"])
    if not ok:
        raise RuntimeError("generated gate table does not compile:\n" + out[-3000:])
    rc, so, se = leanrun.lean_run("QV/Gen/C06_GateStage1.lean")
    if rc != 0:
        raise RuntimeError("stage 1 for the gate table failed:\n" + se[-3000:])
    status = {}
    for line in so.splitlines():
        p = line.split(" ", 7)
        if len(p) >= 7:
            status[p[0]] = {"clauses": {c: p[1 + j] == "true" for j, c in enumerate(CLAUSES)}, "fresh": p[6] == "true",
                            "bad_producers": p[7] if len(p) > 7 else "[]"}
    return status


def emit_obligations(rows, status):
    passed = [(i, r) for i, r in enumerate(rows) if status.get(r.key, {}).get("fresh")]
    allok = len(passed) == len(rows)
    ob = ["import QV.Gen.C06_GateTable", "set_option maxRecDepth 100000", "namespace QV.Gen.C06", "open QV.GateObj", ""]
    names = []
    for i, r in passed:
        ob.append(f"theorem C06_gate_fresh_{lean_name(r.key)} : Table.freshAt table {i} = true := by decide +kernel")
        names.append(f"QV.Gen.C06.C06_gate_fresh_{lean_name(r.key)}")
    if allok:
        ob.append("theorem C06_gate_table_fresh : Table.fresh table = true := by decide +kernel")
        names.append("QV.Gen.C06.C06_gate_table_fresh")
    ob.append("end QV.Gen.C06\n")
    leanrun.write_if_changed(GEN / "C06_GateOb.lean", "\n".join(ob))
    sem = ["import QV.Gen.C06_GateOb", "import QV.Props.C06c", "namespace QV.Gen.C06", "open QV.GateObj", ""]
    if allok:
        sem += [
            "/-- the history theorems at the class table of THIS source tree -/",
            "theorem C06_gate_views_current_here {V : Type} (F : Fn V) (ops : List (Op V)) (e : Entry V)",
            "    (he : e ∈ run table F ops) (m : View) (hm : m ∈ (Table.cls table e.cls).views) :",
            "    observe m e.obj = observe m (construct (Table.cls table e.cls) e.cur) :=",
            "  QV.Props.C06.T06_gate_views_current table C06_gate_table_fresh F ops e he m hm",
            "",
            "theorem C06_gate_derived_views_current_here {V : Type} (F : Fn V) (ops : List (Op V)) (e : Entry V)",
            "    (he : e ∈ run table F ops) (P : Producer) (hP : P ∈ (Table.cls table e.cls).producers)",
            "    (m : View) (hm : m ∈ (Table.cls table P.out).views) :",
            "    observe m (produceObj F P e.obj) = observe m (construct (Table.cls table P.out) (produceCur F P e.cur)) :=",
            "  QV.Props.C06.T06_gate_derived_views_current table C06_gate_table_fresh F ops e he P hP m hm",
            "",
            "theorem C06_gate_update_isolated_here {V : Type} (F : Fn V) (ops : List (Op V)) (k s : Nat) (vals : Nat → V)",
            "    (j : Nat) (hj : j ≠ k) (e : Entry V) (he : (run table F ops)[j]? = some e) :",
            "    ∃ e', (run table F (ops ++ [.update k s vals]))[j]? = some e' ∧ e'.cls = e.cls ∧ e'.cur = e.cur ∧",
            "      ∀ m ∈ (Table.cls table e.cls).views, observe m e'.obj = observe m e.obj :=",
            "  QV.Props.C06.T06_gate_update_isolated table C06_gate_table_fresh F ops k s vals j hj e he",
        ]
        names += ["QV.Gen.C06.C06_gate_views_current_here", "QV.Gen.C06.C06_gate_derived_views_current_here",
                  "QV.Gen.C06.C06_gate_update_isolated_here"]
    sem.append("end QV.Gen.C06\n")
    leanrun.write_if_changed(GEN / "C06_GateSem.lean", "\n".join(sem))
    return names, allok


# ---------------------------------------------------------------------------
# direct search on the real code


def rebuild_info(x, recs):
    """(recipe, slots, trainable, qubits, controls) of a gate freshly constructed from the
    API-visible state of `x`; None if `x` is not an instance of a traced class."""
    key = class_key(x, recs)
    if key is None:
        return None
    rec = recs[key]
    p = list(x.parameters)
    qs = list(x.target_qubits) if x.is_controlled_by else list(x.qubits)
    cs = list(x.control_qubits) if x.is_controlled_by else []
    return rec, p, bool(x.trainable), qs, cs


def rebuild(info):
    rec, p, t, qs, cs = info
    g = rec.make(p, t, qs)
    return g.controlled_by(*cs) if cs else g


def rebuild_code(info):
    rec, p, t, qs, cs = info
    s = rec.code(p, t, qs)
    return s + (f".controlled_by({', '.join(map(str, cs))})" if cs else "")


class Step:
    def __init__(self, name, apply, code):
        self.name, self.apply, self.code = name, apply, code


def make_steps(rec, B, rnd):
    """history steps on the variable `g` (function + the same thing as replay code)."""
    base = _base()
    pr = base.pyrepr
    N = ns()
    n = rec.n
    def encode(cls, v, r):
        # Align documents an integer delay: only integer-preserving encodings are valid inputs
        if cls.kind == "align":
            x = int(v[0])
            return r.choice([lambda: x, lambda: (x,), lambda: [x], lambda: np.array([x])])()
        return base.encode_gate_value(cls, v, r)

    steps = []
    for s in range(2):
        e = encode(rec.cls, rec.canon(B), random.Random(rnd.randrange(10**6)))
        steps.append(Step("upd:gate.parameters", (lambda g, e=e: (setattr(g, "parameters", e), g)[1]), f"g.parameters = {pr(e)}"))
    e = encode(rec.cls, rec.canon(B), random.Random(rnd.randrange(10**6)))
    steps.append(Step("upd:set_parameters:list", (lambda g, e=e: (N["circ"](g, n).set_parameters([e]), g)[1]), f"circ(g, {n}).set_parameters([{pr(e)}])"))
    steps.append(Step("upd:set_parameters:dict", (lambda g, e=e: (N["circ"](g, n).set_parameters({g: e}), g)[1]), f"circ(g, {n}).set_parameters({{g: {pr(e)}}})"))
    if rec.cls.kind not in ("gfsim", "align"):
        flat = base.flat_of(rec.cls, rec.canon(B))
        if all(abs(complex(z).imag) == 0 for z in flat):
            flat = [float(complex(z).real) for z in flat]
        steps.append(Step("upd:set_parameters:flat", (lambda g, flat=flat: (N["circ"](g, n).set_parameters(flat), g)[1]), f"circ(g, {n}).set_parameters({pr(flat)})"))
    upd = steps[0]
    for name in N["PRODUCERS"]:
        steps.append(Step(name, (lambda g, name=name: N["PRODUCERS"][name](g, n)), f"g = PRODUCERS[{name!r}](g, {n})"))
    # deep copy, then update the COPY and go on with the source / update the SOURCE and go on with the copy
    def copy_upd_copy(g):
        h = N["circ"](g, n).copy(deep=True).queue[0]
        upd.apply(h)
        return g

    def copy_upd_src(g):
        h = N["circ"](g, n).copy(deep=True).queue[0]
        upd.apply(g)
        return h
    steps.append(Step("deepcopy;update-copy;source", copy_upd_copy,
                      f"h = circ(g, {n}).copy(deep=True).queue[0]\n" + upd.code.replace("g.parameters", "h.parameters")))
    steps.append(Step("deepcopy;update-source;copy", copy_upd_src,
                      f"h = circ(g, {n}).copy(deep=True).queue[0]\n" + upd.code + "\ng = h"))
    return steps


def node_mismatches(mk, recs, n, second_level=True):
    """views of the reached gate (and of every gate one producer call away) against those of a
    gate freshly constructed from its API-visible state.  Returns [(label, info)]."""
    from qibo.gates.abstract import ParametrizedGate

    N = ns()
    try:
        x, exp = mk()
    except Exception:  # noqa: BLE001 — the history itself raises: not a node
        return None
    if not isinstance(x, ParametrizedGate):
        return None
    info = rebuild_info(x, recs)
    if info is None:
        return None
    # the flag the reached gate MUST have: the constructor's, handed on by every producer except
    # gate-level dagger / from_dict (which return the constructor default)
    info = (info[0], info[1], exp, info[3], info[4])
    try:
        rebuild(info)
    except Exception:  # noqa: BLE001 — e.g. values the constructor refuses
        return None
    bad = []
    for v, fn in N["VIEWS"].items():
        a = N["call"](lambda: N["obs"](fn(mk()[0], n)))
        b = N["call"](lambda: N["obs"](fn(rebuild(info), n)))
        if not N["eq_obs"](a, b):
            bad.append((v, info))
    if second_level:
        for p, pf in N["PRODUCERS"].items():
            for v in N["CHEAP_VIEWS"]:
                fn = N["VIEWS"][v]
                a = N["call"](lambda: N["obs"](fn(pf(mk()[0], n), n)))
                b = N["call"](lambda: N["obs"](fn(pf(rebuild(info), n), n)))
                if not N["eq_obs"](a, b):
                    bad.append((f"{p}>{v}", info))
    return bad


def replay_code(rec, A, t, hist, label, info, n):
    code = PRELUDE + f"\ng = {rec.code(A, t)}\n" + "".join(s.code + "\n" for s in hist)
    code += f"ref = {rebuild_code(info)}   # freshly constructed from g.parameters, g's qubits and the trainable flag the history must hand on\n"
    if ">" in label:
        p, v = label.split(">")
        code += f"a = call(lambda: obs(VIEWS[{v!r}](PRODUCERS[{p!r}](g, {n}), {n})))\nb = call(lambda: obs(VIEWS[{v!r}](PRODUCERS[{p!r}](ref, {n}), {n})))\n"
    else:
        code += f"a = call(lambda: obs(VIEWS[{label!r}](g, {n})))\nb = call(lambda: obs(VIEWS[{label!r}](ref, {n})))\n"
    code += "print('reached gate :', a)\nprint('fresh gate   :', b)\nassert eq_obs(a, b)\n"
    return code


def search(ctx, recs, fresh_status):
    rnd = ctx.rng
    patterns = {}  # key -> dict(classes, first replay pieces)
    nodes = 0
    for key, rec in recs.items():
        n = rec.n
        for t in (True, False):
            A, B = distinct_values(rec, rnd, 2)
            steps = make_steps(rec, B, rnd)
            upds = [s for s in steps if s.name.startswith("upd:")]
            others = [s for s in steps if not s.name.startswith("upd:")]
            hists = [[]] + [[s] for s in steps]
            u = rnd.choice(upds if t else upds[:2])
            hists += [[u, s] for s in others] + [[s, rnd.choice(upds if t else upds[:2])] for s in others]
            extra = 40 if ctx.thorough else 6
            for _ in range(extra):
                hists.append([rnd.choice(steps) for _ in range(rnd.randint(2, 4))])
            if ctx.thorough:
                hists += [[a, b] for a in others for b in others]
            for hist in hists:
                if not t and any(s.name.startswith("upd:set_parameters") for s in hist):
                    continue  # Circuit.set_parameters does not address non-trainable gates

                def mk(hist=hist):
                    g, exp = rec.make(A, t), t
                    for s in hist:
                        g = s.apply(g)
                        if s.name in ns()["RESETS_FLAG"]:
                            exp = bool(getattr(g, "trainable", exp))
                    return g, exp

                bad = node_mismatches(mk, recs, n, second_level=len(hist) <= 2)
                if bad is None:
                    continue
                nodes += 1
                ctx.case(("gateobj-node", key, t, tuple(s.name for s in hist)))
                ctx.stat("gateobj_views_compared", len(ns()["VIEWS"]) + len(ns()["PRODUCERS"]) * len(ns()["CHEAP_VIEWS"]))
                for label, info in bad:
                    hname = ">".join(re.sub(r"^upd:.*", "update", s.name) for s in hist) or "construct"
                    k = f"gateobj:{hname}:{label}"
                    ent = patterns.setdefault(k, {"classes": [], "first": None, "len": 99})
                    if key not in ent["classes"]:
                        ent["classes"].append(key)
                    if ent["first"] is None:
                        ent["first"] = (rec, A, t, hist, label, info, n)
    ctx.stat("gateobj_nodes", nodes)
    # shortest histories first; one replay per pattern; a class is explained by its shortest pattern
    explained = set()
    reported = 0
    for k in sorted(patterns, key=lambda k: (k.count(">"), k)):
        ent = patterns[k]
        new = [c for c in ent["classes"] if c not in explained]
        if not new and reported:
            continue
        if reported >= 10:
            break
        rec, A, t, hist, label, info, n = ent["first"]
        explained.update(ent["classes"])
        reported += 1
        broken = [f"C06_gate_fresh_{lean_name(c)}" for c in ent["classes"]] + ["C06_gate_table_fresh", "C06_gate_theorems_instantiated", "C06_search_gateobj"]
        ctx.fail(k, f"after the history [{', '.join(s.name for s in hist) or 'construct'}] on {rec.code(A, t)} the view '{label}' differs from the view of a gate "
                    f"freshly constructed from the reached gate's parameters and qubits and the trainable flag the history must hand on (classes: {', '.join(ent['classes'][:8])}{'…' if len(ent['classes']) > 8 else ''})",
                 replay_code(rec, A, t, hist, label, info, n), broken=broken)
    ctx.ob("C06_search_gateobj", not patterns, "search", f"{len(patterns)} history/view patterns disagree with a freshly constructed gate" if patterns else "")
    return patterns



# ---------------------------------------------------------------------------
# dagger / invert against the MATHEMATICAL adjoint (independent reference)

FULL_HELPER = r"""
def full(g, n):
    # full operator of a gate from its local matrix (independent of the simulation engine)
    m = np.asarray(g.matrix(nb)); ts = list(g.target_qubits) if g.is_controlled_by else list(g.qubits)
    cs = list(g.control_qubits) if g.is_controlled_by else []
    N = 2**n; U = np.zeros((N, N), complex)
    for i in range(N):
        bi = [(i >> (n-1-q)) & 1 for q in range(n)]
        if not all(bi[c] for c in cs): U[i, i] = 1; continue
        li = int(''.join(str(bi[t]) for t in ts), 2)
        for lj in range(2**len(ts)):
            bj = list(bi)
            for p, t in enumerate(ts): bj[t] = (lj >> (len(ts)-1-p)) & 1
            U[i, int(''.join(map(str, bj)), 2)] = m[li, lj]
    return U
"""


def adjoint_search(ctx, recs):
    """for every parametrised class (generic, non-symmetric matrix blocks for the matrix-valued
    ones), plain and under 1/2 controls, before and after an update through every route:
    `gate.dagger()` and `Circuit.invert()` must be the conjugate transpose of the gate's own
    CURRENT full operator (local matrix embedded and controlled by vlib.qgates, not by qibo)."""
    from qibo import Circuit

    nb = qgates.np_backend()
    rnd = ctx.rng
    bad = {}
    ncases = 0
    for key, rec in recs.items():
        n = rec.n
        A, B = distinct_values(rec, rnd, 2)
        steps = [s for s in make_steps(rec, B, rnd) if s.name.startswith("upd:")]
        variants = [("", lambda g: g), ("controlled_by1", lambda g: g.controlled_by(*ns()["free"](g, n, 1))),
                    ("controlled_by2", lambda g: g.controlled_by(*ns()["free"](g, n, 2)))]
        for vname, vf in variants:
            for st in [None] + steps:
                def mk(vf=vf, st=st):
                    g = vf(rec.make(A, True))
                    return st.apply(g) if st is not None else g
                try:
                    g = mk()
                    U = qgates.gate_full_matrix(g, n)
                except Exception:  # noqa: BLE001 — e.g. a class with class-level controls refuses controlled_by
                    continue
                ncases += 1
                ctx.case(("adjoint", key, vname, st.name if st else "construct"))
                results = {}
                try:
                    results["dagger"] = qgates.gate_full_matrix(mk().dagger(), n)
                except Exception as e:  # noqa: BLE001
                    results["dagger"] = e
                try:
                    c = Circuit(n)
                    c.add(mk())
                    results["circuit_unitary"] = np.asarray(c.unitary(nb)).conj().T
                    results["circuit_invert"] = np.asarray(c.invert().unitary(nb))
                    results["circuit_invert_invert"] = np.asarray(c.invert().invert().unitary(nb)).conj().T
                except Exception as e:  # noqa: BLE001
                    results.setdefault("circuit_invert", e)
                for what, got in results.items():
                    ok = not isinstance(got, Exception) and got.shape == U.shape and np.allclose(got, U.conj().T, atol=1e-9)
                    if ok:
                        continue
                    hname = (vname + ">" if vname else "") + ("update" if st else "construct")
                    k = f"adjoint:{what}:{key}" if what != "circuit_unitary" else f"adjoint:embedding:{key}"
                    if k in bad:
                        continue
                    ctrl = {"": "", "controlled_by1": f"g = g.controlled_by(*free(g, {n}, 1))\n", "controlled_by2": f"g = g.controlled_by(*free(g, {n}, 2))\n"}[vname]
                    code = (PRELUDE + FULL_HELPER + f"\ng = {rec.code(A, True)}\n" + ctrl + (st.code + "\n" if st else "")
                            + f"U = full(g, {n})\n"
                            + {"dagger": f"V = full(g.dagger(), {n})\n",
                               "circuit_invert": f"V = np.asarray(circ(g, {n}).invert().unitary(nb))\n",
                               "circuit_invert_invert": f"V = np.asarray(circ(g, {n}).invert().invert().unitary(nb)).conj().T\n",
                               "circuit_unitary": f"V = np.asarray(circ(g, {n}).unitary(nb)).conj().T\n"}[what]
                            + "print(np.round(V, 6)); print(np.round(U.conj().T, 6))\nassert np.allclose(V, U.conj().T, atol=1e-9)\n")
                    bad[k] = True
                    ctx.fail(k, f"{what} of {rec.code(A, True)} ({hname}) is not the conjugate transpose of the gate's current operator"
                             + (f": raises {type(got).__name__}: {got}" if isinstance(got, Exception) else ""),
                             code, broken=["C06_search_adjoint"])
    ctx.stat("adjoint_cases", ncases)
    ctx.ob("C06_search_adjoint", not bad, "search", f"{len(bad)} class/view pairs are not the adjoint" if bad else "")


# ---------------------------------------------------------------------------
# parameter_shift for EVERY parametrised class: refuse, or return the derivative


def shift_all_classes(ctx, recs):
    """a class either has no two-term rule (`parameter_shift` raises NotImplementedError) or the
    number returned is the derivative of the expectation value (Richardson central difference of
    the real expectation function, 1e-6).  Classes that refuse today are probed too, so that a
    future `generator_eigenvalue` is checked the day it appears."""
    from qibo import Circuit, hamiltonians
    from qibo.derivative import parameter_shift

    nb = qgates.np_backend()
    G = qgates.gates_module()
    rnd = ctx.rng
    bad = 0
    accepted = []
    for key, rec in recs.items():
        n = rec.nq + 1
        for trial in range(3 if ctx.thorough else 2):
            vals = rec.values(rnd)
            a, b, c0 = (round(rnd.uniform(-2, 2), 4) for _ in range(3))
            qs = rnd.sample(range(n), rec.nq)
            q2 = n - 1 - qs[0]
            rs = np.random.RandomState(rnd.randrange(2**31))
            m = rs.randn(2**n, 2**n) + 1j * rs.randn(2**n, 2**n)
            hm = (m + m.conj().T) / 2
            psi = rs.randn(2**n) + 1j * rs.randn(2**n)
            psi /= np.linalg.norm(psi)

            def build(slots):
                c = Circuit(n)
                c.add(G.RY(qs[0], a))
                c.add(G.RX(q2, b))
                c.add(rec.make(slots, True, qs))
                c.add(G.RY(qs[-1], c0))
                return c

            try:
                circ = build(vals)
            except Exception:  # noqa: BLE001
                continue
            ham = hamiltonians.Hamiltonian(n, hm, backend=nb)
            ctx.case(("shift-class", key, trial))
            try:
                got = parameter_shift(circ, ham, 2, initial_state=psi.copy())
            except NotImplementedError:
                ctx.stat("shift_class_refuses")
                continue
            except Exception as e:  # noqa: BLE001 — multi-parameter gates break the array arithmetic of the rule
                ctx.stat("shift_class_raises_" + type(e).__name__)
                continue
            if key not in accepted:
                accepted.append(key)
            scalar = [i for i, v in enumerate(vals) if not isinstance(v, np.ndarray)]

            def f(t):
                sl = [v + t if i in scalar else v for i, v in enumerate(vals)]
                st = np.asarray(nb.execute_circuit(build(sl), initial_state=psi.copy()).state())
                return float(np.real(st.conj() @ hm @ st))

            try:
                h = 1e-2
                d1 = (f(h) - f(-h)) / (2 * h)
                d2 = (f(h / 2) - f(-h / 2)) / h
                ref = (4 * d2 - d1) / 3
            except Exception:  # noqa: BLE001 — shifted values outside the constructor's range
                continue
            restored = all(np.allclose(np.asarray(x, dtype=complex), np.asarray(y, dtype=complex), atol=1e-9)
                           for x, y in zip(circ.get_parameters(), build(vals).get_parameters()))
            if abs(got - ref) < 1e-6 and restored:
                continue
            bad += 1
            pre = ("import numpy as np\nfrom qibo import Circuit, gates, hamiltonians\nfrom qibo.backends import NumpyBackend\nfrom qibo.derivative import parameter_shift\nnb = NumpyBackend()\n"
                   f"c = Circuit({n})\nc.add(gates.RY({qs[0]}, {a!r}))\nc.add(gates.RX({q2}, {b!r}))\nc.add({rec.code(vals, True, qs)})\nc.add(gates.RY({qs[-1]}, {c0!r}))\n"
                   f"hm = np.array({hm.tolist()})\npsi = np.array({psi.tolist()})\nham = hamiltonians.Hamiltonian({n}, hm, backend=nb)\n")
            ctx.fail(f"parameter_shift:class:{rec.cls.name}",
                     f"parameter_shift accepts a {rec.cls.name} gate and returns {got}; the derivative of the expectation value is {ref}"
                     + ("" if restored else " (and the circuit's parameters are not restored)"),
                     pre + "before = c.get_parameters()\ngot = parameter_shift(c, ham, 2, initial_state=psi.copy())\n"
                     f"assert all(np.allclose(x, y) for x, y in zip(before, c.get_parameters()))\nassert abs(got - ({ref!r})) < 1e-6, got\n",
                     expected=ref, observed=got, broken=["C06_search_shift_classes"])
    ctx.stats["shift_classes_accepted"] = ",".join(accepted)
    ctx.ob("C06_search_shift_classes", bad == 0, "search", f"{bad} accepted gates with a wrong derivative" if bad else "")


# ---------------------------------------------------------------------------
# round 5: dtype histories of Unitary, bookkeeping of derived circuits, Parameter objects

R5_PRE = ("import numpy as np\nfrom qibo import Circuit, gates\nfrom qibo.backends import NumpyBackend\nnb = NumpyBackend()\n")


def _dtype_matrix(kind, d, rs):
    """a unitary d x d matrix of the given dtype family"""
    if kind.startswith("int"):
        p = rs.permutation(d)
        return np.eye(d, dtype=kind)[p]
    if kind.startswith("float"):
        a = rs.randn(d, d)
        q, r = np.linalg.qr(a)
        return (q * np.sign(np.diag(r))).astype(kind)
    a = rs.randn(d, d) + 1j * rs.randn(d, d)
    q, r = np.linalg.qr(a)
    return (q * (np.diag(r) / np.abs(np.diag(r)))).astype(kind)


def unitary_dtype_search(ctx):
    """(construction dtype, update dtype) histories of `Unitary` through every update route /
    encoding: afterwards parameters, matrix, unitary, invert and fuse use the matrix that was set."""
    from qibo import Circuit

    nb = qgates.np_backend()
    G = qgates.gates_module()
    pr = _base().pyrepr
    rnd = ctx.rng
    kinds = ["int64", "int32", "float64", "float32", "complex128", "complex64"]
    bad = 0
    seen = set()
    for k0 in kinds:
        for k1 in kinds:
            for nq in (1, 2):
                rs = np.random.RandomState(rnd.randrange(2**31))
                d = 2**nq
                m0, m1 = _dtype_matrix(k0, d, rs), _dtype_matrix(k1, d, rs)
                want = np.asarray(m1, dtype=complex)
                routes = {
                    "gate.parameters": (lambda g, c, v: setattr(g, "parameters", v), "g.parameters = {v}"),
                    "list": (lambda g, c, v: c.set_parameters([v]), "c.set_parameters([{v}])"),
                    "dict": (lambda g, c, v: c.set_parameters({g: v}), "c.set_parameters({{g: {v}}})"),
                    "flat": (lambda g, c, v: c.set_parameters(v), "c.set_parameters({v})"),
                }
                for rname, (fn, tmpl) in routes.items():
                    encs = [m1.reshape(-1).tolist(), m1.reshape(-1).copy()] if rname == "flat" else [m1.copy(), (m1.copy(),), m1.reshape(-1).copy()]
                    for ei, enc in enumerate(encs):
                        ctx.case(("unitary-dtype", k0, k1, nq, rname, ei))
                        g = G.Unitary(m0.copy(), *range(nq))
                        c = Circuit(nq)
                        c.add(g)
                        try:
                            fn(g, c, enc)
                        except Exception as e:  # noqa: BLE001
                            ctx.stat(f"unitary_dtype_update_raises_{type(e).__name__}")
                            continue
                        views = {}
                        try:
                            views["parameters"] = np.asarray(g.parameters[0], dtype=complex)
                            views["get_parameters"] = np.asarray(c.get_parameters()[0][0], dtype=complex).reshape(d, d)
                            views["matrix"] = np.asarray(g.matrix(nb))
                            views["unitary"] = np.asarray(c.unitary(nb))
                            views["invert"] = np.asarray(c.invert().unitary(nb)).conj().T
                            views["fuse"] = np.asarray(c.fuse().unitary(nb))
                            views["raw"] = np.asarray(g.raw["init_args"][0], dtype=complex)
                        except Exception as e:  # noqa: BLE001
                            views["raises"] = e
                        tol = 1e-5 if "32" in k1 or k1 == "complex64" else 1e-9
                        wrong = [v for v, a in views.items() if isinstance(a, Exception) or not np.allclose(np.asarray(a).reshape(d, d), want, atol=tol)]
                        if not wrong:
                            continue
                        bad += 1
                        key = f"unitary-dtype:{'real' if not k0.startswith('complex') else 'complex'}->{'real' if not k1.startswith('complex') else 'complex'}:{wrong[0]}"
                        if key in seen:
                            continue
                        seen.add(key)
                        code = (R5_PRE + f"m0 = np.array({m0.tolist()}, dtype='{k0}')\nm1 = np.array({m1.tolist()}, dtype='{k1}')\n"
                                f"g = gates.Unitary(m0, {', '.join(map(str, range(nq)))})\nc = Circuit({nq}); c.add(g)\n"
                                + tmpl.format(v={0: "m1", 1: "(m1,)", 2: "m1.reshape(-1)"}[ei] if rname != "flat" else ("m1.reshape(-1).tolist()" if ei == 0 else "m1.reshape(-1)")) + "\n"
                                "want = m1.astype(complex)\n"
                                "assert np.allclose(np.asarray(g.parameters[0], dtype=complex), want, atol=1e-5)\n"
                                "assert np.allclose(c.unitary(nb), want, atol=1e-5)\nassert np.allclose(c.invert().unitary(nb).conj().T, want, atol=1e-5)\n"
                                "assert np.allclose(c.fuse().unitary(nb), want, atol=1e-5)\n")
                        ctx.fail(key, f"Unitary built from a {k0} matrix and updated ({rname}, encoding {ei}) with a {k1} matrix: views {wrong} do not use the matrix that was set",
                                 code, broken=["C06_search_unitary_dtype"])
    ctx.ob("C06_search_unitary_dtype", bad == 0, "search", f"{bad} (dtype, route) histories lose the matrix that was set" if bad else "")


def _flat_gates(c):
    from qibo.gates.special import FusedGate

    out = []
    for g in c.queue:
        out += list(g.gates) if isinstance(g, FusedGate) else [g]
    return out


def derived_bookkeeping_search(ctx):
    """derive a circuit (fuse, shallow/deep copy, invert, +, decompose, on_qubits into a bigger one),
    then ADD parametrised gates to the derived circuit and to the original: the parametrised /
    trainable bookkeeping and get/set_parameters of EACH circuit must be those of its own queue."""
    from qibo import Circuit
    from qibo.gates.abstract import ParametrizedGate

    G = qgates.gates_module()
    rnd = ctx.rng
    bad = 0
    seen = set()
    derivs = {
        "fuse": ("d = c.fuse()", lambda c: c.fuse()),
        "fuse1": ("d = c.fuse(max_qubits=1)", lambda c: c.fuse(max_qubits=1)),
        "copy": ("d = c.copy()", lambda c: c.copy()),
        "copy_deep": ("d = c.copy(deep=True)", lambda c: c.copy(deep=True)),
        "invert": ("d = c.invert()", lambda c: c.invert()),
        "add": ("d = c + Circuit(c.nqubits)", lambda c: c + Circuit(c.nqubits)),
        "decompose": ("d = c.decompose()", lambda c: c.decompose()),
        "light_cone": ("d = c.light_cone(*range(c.nqubits))[0]", lambda c: c.light_cone(*range(c.nqubits))[0]),
    }
    pool = [("RX", 1, 1), ("RY", 1, 1), ("U3", 1, 3), ("fSim", 2, 2), ("RZZ", 2, 1), ("CRX", 2, 1), ("U2", 1, 2)]

    def rand_gate_code(n):
        nm, nq, npar = rnd.choice(pool)
        qs = rnd.sample(range(n), nq)
        vals = [round(rnd.uniform(-3, 3), 4) for _ in range(npar)]
        tr = rnd.random() < 0.75
        code = f"gates.{nm}({', '.join(map(str, qs))}, {', '.join(map(repr, vals))}{'' if tr else ', trainable=False'})"
        # the public attribute flipped after construction (both directions): `Circuit.add` books
        # the gate by the attribute it has when it is added
        return f"flip({code}, {not tr})" if rnd.random() < 0.35 else code

    def consistent(x):
        flat = _flat_gates(x)
        par = [g for g in flat if isinstance(g, ParametrizedGate)]
        tr = [g for g in par if g.trainable]
        issues = []
        if sorted(map(id, x.parametrized_gates)) != sorted(map(id, par)):
            issues.append("parametrized_gates")
        if sorted(map(id, x.trainable_gates)) != sorted(map(id, tr)):
            issues.append("trainable_gates")
        if x.trainable_gates.nparams != sum(g.nparams for g in tr) or x.parametrized_gates.nparams != sum(g.nparams for g in par):
            issues.append("nparams")
        try:
            if len(x.get_parameters("list", True)) != len(par) or len(x.get_parameters("flatlist")) != sum(g.nparams for g in tr) or len(x.get_parameters("dict")) != len(tr):
                issues.append("get_parameters")
            new = [tuple(round(rnd.uniform(-3, 3), 4) for _ in range(g.nparams)) for g in x.trainable_gates]
            if tr:
                x.set_parameters(new)
                if [tuple(p) for p in x.get_parameters("list")] != new:
                    issues.append("set_parameters:list")
                fl = [v for p in new for v in p]
                x.set_parameters([v + 0.5 for v in fl])
                if not np.allclose(x.get_parameters("flatlist"), [v + 0.5 for v in fl]):
                    issues.append("set_parameters:flat")
        except Exception as e:  # noqa: BLE001
            issues.append(f"raises:{type(e).__name__}")
        return issues

    ns_ = {"Circuit": Circuit, "gates": G, "np": np}
    import qibo

    ns_["gates"] = qibo.gates
    FLIP = "def flip(g, t):\n    g.trainable = t\n    return g\n"
    exec(FLIP, ns_)
    for dname, (dcode, dfn) in derivs.items():
        for trial in range(8 if ctx.thorough else 3):
            n = rnd.randint(2, 3)
            lines = [f"c = Circuit({n})"] + [f"c.add({rand_gate_code(n)})" for _ in range(rnd.randint(2, 5))]
            if rnd.random() < 0.5:
                lines.insert(rnd.randint(1, len(lines)), f"c.add(gates.H({rnd.randrange(n)}))")
            lines.append(dcode)
            order = rnd.choice([("d", "c"), ("c", "d"), ("d",), ("d", "d", "c")])
            for who in order:
                lines.append(f"{who}.add({rand_gate_code(n)})")
            env = dict(ns_)
            try:
                exec("\n".join(lines), env)
            except Exception:  # noqa: BLE001 — e.g. deep copy of a fused circuit is refused
                ctx.stat("derived_history_refused")
                continue
            ctx.case(("derived-bookkeeping", dname, trial, order))
            for who in ("c", "d"):
                issues = consistent(env[who])
                if not issues:
                    continue
                bad += 1
                flipped = ":flipped-attribute" if any("flip(" in l for l in lines) else ""
                key = f"derived-bookkeeping{flipped}:{dname}:add-to-{'+'.join(sorted(set(order)))}:{'original' if who == 'c' else 'derived'}"
                if key in seen:
                    continue
                seen.add(key)
                code = ("from qibo import Circuit, gates\nfrom qibo.gates.abstract import ParametrizedGate\nfrom qibo.gates.special import FusedGate\n" + FLIP + "\n".join(lines) + "\n"
                        f"x = {who}\nflat = []\nfor g in x.queue: flat += list(g.gates) if isinstance(g, FusedGate) else [g]\n"
                        "par = [g for g in flat if isinstance(g, ParametrizedGate)]; tr = [g for g in par if g.trainable]\n"
                        "assert sorted(map(id, x.parametrized_gates)) == sorted(map(id, par)), 'parametrized_gates lists a gate that is not in the queue (or misses one)'\n"
                        "assert sorted(map(id, x.trainable_gates)) == sorted(map(id, tr))\n"
                        "assert x.trainable_gates.nparams == sum(g.nparams for g in tr)\n"
                        "assert len(x.get_parameters('list', True)) == len(par) and len(x.get_parameters('flatlist')) == sum(g.nparams for g in tr)\n"
                        "x.set_parameters([tuple(0.1 for _ in range(g.nparams)) for g in tr])\n")
                ctx.fail(key, f"after `{dcode}` and adding gates to {order}, the bookkeeping of the {'original' if who == 'c' else 'derived'} circuit is not that of its own queue: {issues}",
                         code, broken=["C06_search_derived_bookkeeping"])
    ctx.ob("C06_search_derived_bookkeeping", bad == 0, "search", f"{bad} circuits with foreign bookkeeping" if bad else "")


def parameter_object_search(ctx):
    """`qibo.parameter.Parameter`: value and partial derivatives of lambdas that share one code
    object but differ in their closure (factory, loop, comprehension), against central differences;
    chain-rule gradient of a re-uploading circuit against finite differences of the expectation."""
    from qibo import Circuit, hamiltonians
    from qibo.derivative import parameter_shift
    from qibo.parameter import Parameter

    nb = qgates.np_backend()
    G = qgates.gates_module()
    rnd = ctx.rng
    bad = 0
    seen = set()

    def factory(w, b):
        return lambda x, th1, th2: w * x * th1 + b * th2**2 + w * b * th1 * th2

    def fail(key, what, code):
        nonlocal bad
        bad += 1
        if key not in seen:
            seen.add(key)
            ctx.fail(key, what, code, broken=["C06_search_parameter_objects"])

    for trial in range(6 if ctx.thorough else 3):
        ws = [round(rnd.uniform(0.3, 2.0), 3) for _ in range(3)]
        bs = [round(rnd.uniform(-1.5, 1.5), 3) for _ in range(3)]
        x = round(rnd.uniform(0.2, 1.5), 3)
        ths = [[round(rnd.uniform(-1, 1), 3), round(rnd.uniform(-1, 1), 3)] for _ in range(3)]
        styles = {
            "factory": lambda: [Parameter(factory(w, b), trainable=list(t), features=[x]) for w, b, t in zip(ws, bs, ths)],
            "comprehension": lambda: [Parameter((lambda w, b: (lambda x, th1, th2: w * x * th1 + b * th2**2 + w * b * th1 * th2))(w, b), trainable=list(t), features=[x]) for w, b, t in zip(ws, bs, ths)],
            "distinct": lambda: [Parameter(lambda x, th1, th2: ws[0] * x * th1 + bs[0] * th2**2 + ws[0] * bs[0] * th1 * th2, trainable=list(ths[0]), features=[x]),
                                 Parameter(lambda x, th1, th2: ws[1] * x * th1 + bs[1] * th2**2 + ws[1] * bs[1] * th1 * th2, trainable=list(ths[1]), features=[x]),
                                 Parameter(lambda x, th1, th2: ws[2] * x * th1 + bs[2] * th2**2 + ws[2] * bs[2] * th1 * th2, trainable=list(ths[2]), features=[x])],
        }
        for sname, mk in styles.items():
            ps = mk()
            for k, p in enumerate(ps):
                w, b, t = ws[k], bs[k], ths[k]
                ctx.case(("parameter-object", sname, trial, k))
                val = w * x * t[0] + b * t[1] ** 2 + w * b * t[0] * t[1]
                exact = [w * t[0] + 0 * x, w * x + w * b * t[1], 2 * b * t[1] + w * b * t[0]]
                code = ("from qibo.parameter import Parameter\n"
                        "def factory(w, b):\n    return lambda x, th1, th2: w * x * th1 + b * th2**2 + w * b * th1 * th2\n"
                        f"ps = [Parameter(factory(w, b), trainable=list(t), features=[{x!r}]) for w, b, t in zip({ws!r}, {bs!r}, {ths!r})]\n"
                        f"p = ps[{k}]\nassert abs(p() - ({val!r})) < 1e-9\n"
                        + "".join(f"assert abs(p.partial_derivative({i}) - ({exact[i]!r})) < 1e-9, (p.partial_derivative({i}), {exact[i]!r})\n" for i in (1, 2)))
                try:
                    if abs(p() - val) > 1e-9:
                        fail(f"parameter:value:{sname}", f"Parameter number {k} built by {sname} evaluates to {p()} instead of {val}", code)
                    for i in (1, 2):
                        got = p.partial_derivative(i)
                        if abs(got - exact[i]) > 1e-9:
                            fail(f"parameter:partial_derivative:{sname}", f"partial_derivative({i}) of Parameter number {k} built by {sname} (closure w={w}, b={b}) is {got}; the derivative of its lambda is {exact[i]}", code)
                except Exception as e:  # noqa: BLE001
                    fail(f"parameter:raises:{sname}", f"Parameter built by {sname} raises {type(e).__name__}: {e}", code)
        # chain rule through a re-uploading circuit
        rs = np.random.RandomState(rnd.randrange(2**31))
        m = rs.randn(2, 2) + 1j * rs.randn(2, 2)
        hm = (m + m.conj().T) / 2
        ham = hamiltonians.Hamiltonian(1, hm, backend=nb)
        rots = ["RX", "RY", "RZ"]

        def angle_fac(w, b):
            return lambda x, th: w * x * th + b

        def build(tv):
            c = Circuit(1)
            ps = []
            for k in range(3):
                p = Parameter(angle_fac(ws[k], bs[k]), trainable=[tv[k]], features=[x])
                ps.append(p)
                c.add(getattr(G, rots[k])(0, theta=p))
            return c, ps

        def energy(tv):
            c, _ = build(tv)
            st = np.asarray(nb.execute_circuit(c).state())
            return float(np.real(st.conj() @ hm @ st))

        tv = [t[0] for t in ths]
        c, ps = build(tv)
        for k in range(3):
            ctx.case(("parameter-chain", trial, k))
            try:
                grad = parameter_shift(c, ham, k) * ps[k].partial_derivative(1)
            except Exception as e:  # noqa: BLE001
                fail("parameter:chain-rule:raises", f"chain rule raises {type(e).__name__}: {e}", "")
                continue
            h = 1e-3
            up, dn = list(tv), list(tv)
            up[k] += h
            dn[k] -= h
            up2, dn2 = list(tv), list(tv)
            up2[k] += h / 2
            dn2[k] -= h / 2
            d1 = (energy(up) - energy(dn)) / (2 * h)
            d2 = (energy(up2) - energy(dn2)) / h
            ref = (4 * d2 - d1) / 3
            if abs(grad - ref) > 1e-6:
                code = ("import numpy as np\nfrom qibo import Circuit, gates, hamiltonians\nfrom qibo.backends import NumpyBackend\nfrom qibo.derivative import parameter_shift\nfrom qibo.parameter import Parameter\nnb = NumpyBackend()\n"
                        f"ws, bs, x, tv = {ws!r}, {bs!r}, {x!r}, {tv!r}\nhm = np.array({hm.tolist()})\nham = hamiltonians.Hamiltonian(1, hm, backend=nb)\n"
                        "def fac(w, b):\n    return lambda x, th: w * x * th + b\n"
                        "c = Circuit(1); ps = []\nfor k, R in enumerate((gates.RX, gates.RY, gates.RZ)):\n    p = Parameter(fac(ws[k], bs[k]), trainable=[tv[k]], features=[x]); ps.append(p); c.add(R(0, theta=p))\n"
                        f"grad = parameter_shift(c, ham, {k}) * ps[{k}].partial_derivative(1)\nassert abs(grad - ({ref!r})) < 1e-6, (grad, {ref!r})\n")
                fail("parameter:chain-rule", f"chain-rule gradient w.r.t. trainable {k} of a re-uploading circuit (angles w_k*x*th_k + b_k from one factory) is {grad}; the derivative of the expectation is {ref}", code)
    ctx.ob("C06_search_parameter_objects", bad == 0, "search", f"{bad} Parameter values/derivatives wrong" if bad else "")

# ---------------------------------------------------------------------------


def run_suites(ctx):
    tr = Tracer(ctx.seed)
    rows = tr.trace()
    emit_table(rows, tr.attr_ids)
    status = stage1(rows)
    names, allok = emit_obligations(rows, status)
    targets = ["QV.Gen.C06_GateOb", "QV.Gen.C06_GateSem"]
    ok, out = leanrun.lake_build(targets)
    if not ok:
        ctx.log("lake build of the generated gate-table obligations failed:\n" + out[-2500:])
    axioms = {}
    if ok and names:
        _, axioms, _ = leanrun.audit_axioms(names, targets, "C06g")
    ctx.stat("gateobj_classes", len(rows))
    ctx.stat("gateobj_fields", sum(len(r.fields) for r in rows))
    ctx.stat("gateobj_setter_rows", sum(len(r.setters) for r in rows))
    ctx.stat("gateobj_views", sum(len(r.views) for r in rows))
    ctx.stat("gateobj_producers", sum(len(r.producers) for r in rows))
    for r in rows:
        st = status.get(r.key, {"fresh": False, "clauses": {}, "bad_producers": "?"})
        nm = f"C06_gate_fresh_{lean_name(r.key)}"
        good = st["fresh"] and ok and not (set(axioms.get("QV.Gen.C06." + nm, ["missing"])) - leanrun.STD_AXIOMS)
        detail = ""
        if not st["fresh"]:
            failed = [c for c, v in st["clauses"].items() if not v]
            stale = sorted({f.name for names_, slots, writes, corrupt in r.setters for f in r.live
                            if not f.flag and f.key() not in {w.key() for w in writes}})
            detail = f"row not fresh: clauses {failed}; live fields not refreshed by some setter: {stale}; incoherent producers: {st['bad_producers']}; shared: {[f.name for f in r.shared]}"
        elif not good:
            detail = "kernel obligation did not build or uses non-standard axioms"
        ctx.ob(nm, good, "generated-kernel", detail)
        ctx.case(("gateobj-row", r.key))
    tname = "QV.Gen.C06.C06_gate_table_fresh"
    ctx.ob("C06_gate_table_fresh", allok and ok and not (set(axioms.get(tname, ["missing"])) - leanrun.STD_AXIOMS), "generated-kernel",
           "" if allok else "some rows are not fresh: " + ", ".join(r.key for r in rows if not status.get(r.key, {}).get("fresh")))
    inst = [n for n in names if n.endswith("_here")]
    ctx.ob("C06_gate_theorems_instantiated", allok and ok and all(not (set(axioms.get(n, ["missing"])) - leanrun.STD_AXIOMS) for n in inst) and bool(inst),
           "generated-kernel", "" if allok else "the history theorems are instantiated only when the whole table is fresh")
    for key, text in tr.problems[:5]:
        ctx.log(f"gate tracer: {key}: {text}")
    ctx.ob("C06_gate_trace_complete", not tr.problems, "translator", "; ".join(f"{k}: {t}" for k, t in tr.problems[:4]))
    ctx.sample({"kind": "gate-table row", "class": "PRX", "fields": [f.name for f in next(r for r in rows if r.key == "PRX").fields],
                "live": [f.name for f in next(r for r in rows if r.key == "PRX").live]})
    search(ctx, tr.recs, status)
    adjoint_search(ctx, tr.recs)
    shift_all_classes(ctx, tr.recs)
    unitary_dtype_search(ctx)
    derived_bookkeeping_search(ctx)
    parameter_object_search(ctx)
    ctx.trusted.append("the gate-table tracer tools/props/C06_gateobj.py (storage locations by differential construction, reads by poking one location at a time, "
                       "results observed through documented attributes); QV.Model.GateObj abstracts a method's result as a function of the locations it reads")
    ctx.notes.append("gate level: class table regenerated for every parametrised class (fields, 3-4 update routes x 5 encodings, 13 views, 8 producers incl. controlled_by with 1/2/3 controls with their identity fields and the specified kept slots (trainable flag), deep-copy sharing), "
                     "`Table.fresh table` decided by the kernel; direct search: histories of <=4 steps (update routes, producers, deep copy + update of copy/source) per class and trainable flag, "
                     "13 views (incl. the effect of list/dict/flat updates on a frozen gate) + 9 producers x 5 views of the reached gate vs a gate freshly constructed from its parameters and qubits and the trainable flag the history must hand on (producers of a non-trainable gate must yield a non-trainable gate; gate-level dagger/from_dict excepted)")


if __name__ == "__main__":
    tr = Tracer(0)
    for row in tr.trace():
        print("==", row.key, "fields:", [(f.name, f.slot) for f in row.fields], "live:", [f.name for f in row.live])
        for names, slots, writes, corrupt in row.setters:
            print("   setter", names[0], f"(+{len(names)-1})", "writes", [f.name for f in writes], "corrupt", [f.name for f in corrupt])
        for name, reads, st in row.views:
            print("   view", name, st, [f.name for f in reads])
        for name, okey, outs, idents, keeps in row.producers:
            print("   prod", name, "->", okey, [(of.name, [d.name for d in deps], tag) for of, deps, tag in outs], "idents", [f.name for f in idents], "keeps", keeps)
        print("   copied", [f.name for f in row.copied], "shared", [f.name for f in row.shared])
    print(tr.problems)
