"""C03 — direct searches on result handles (no Lean model; property-level SPEC in python):

  onq      measurements moved with M.on_qubits / Circuit.on_qubits / StarConnectivityRouter (which share
           the MeasurementResult object of the original gate): after executing the NEW circuit,
           samples/frequencies(registers=True) and the gate-level accessors of the new gate and of the
           original handle report the bits of the right (relabelled) qubits in the order of the gate's
           targets; and a handle shared by two circuits answers for the circuit executed last.
  cgate    gate-level accessors of a COLLAPSING measurement after a shot-by-shot execution:
           samples(binary=False), frequencies(binary=True/False) are views of the recorded rows.
  load     dump -> load (to_dict -> from_dict, load_result): samples/frequencies(registers=True) keep
           their register names (default names included) and their data.

A key listed in PENDING is a finding reported to the lead and not yet decided: it is counted
(`ctx.stat`) but not reported as a violation.  Remove the key from PENDING once the repair is in
/repo (the search then guards against its return) or once it is listed in known_findings.json.
"""
from __future__ import annotations

import itertools

import numpy as np

PENDING = set()  # all three reported findings were repaired in /repo (7a1d21764, d9861e3c9, c09701ad2)

SRC = r'''
import os
import tempfile


def basis_circuit(n, bits):
    c = Circuit(n)
    for q in range(n):
        if bits[q]:
            c.add(gates.X(q))
    return c


def check_onq_registers(n, bits, regs, wires):
    """small circuit on n qubits in the basis state `bits`, registers `regs` (ordered target lists);
    placed on the qubits `wires` (small qubit q -> wires[q]) of a circuit with len(wires)+1 qubits."""
    be = NumpyBackend()
    small = basis_circuit(n, bits)
    handles = [small.add(gates.M(*r)) for r in regs]
    N = max(wires) + 2
    big = Circuit(N)
    big.add(gates.X(N - 1 if (N - 1) not in wires else [q for q in range(N) if q not in wires][0]))
    big.add(small.on_qubits(*wires))
    newm = [g for g in big.queue if isinstance(g, gates.M)]
    if [tuple(g.target_qubits) for g in newm] != [tuple(wires[q] for q in r) for r in regs]:
        return "moved measurements act on %r" % ([tuple(g.target_qubits) for g in newm],)
    res = be.execute_circuit(big, nshots=3)
    exp = [[bits[q] for q in r] for r in regs]
    names = ["register%d" % i for i in range(len(regs))]
    sr = res.samples(registers=True)
    fr = res.frequencies(registers=True)
    if list(sr.keys()) != names or list(fr.keys()) != names:
        return "register names %r / %r" % (list(sr.keys()), list(fr.keys()))
    for i, (nm, e) in enumerate(zip(names, exp)):
        key = "".join(map(str, e))
        if np.asarray(sr[nm]).tolist() != [e] * 3:
            return "samples(registers=True)[%s] = %r, the relabelled qubits %r carry %r" % (nm, np.asarray(sr[nm]).tolist(), tuple(newm[i].target_qubits), e)
        if dict(fr[nm]) != {key: 3}:
            return "frequencies(registers=True)[%s] = %r, expected {%r: 3}" % (nm, dict(fr[nm]), key)
        for who, h in (("new gate", newm[i].result), ("original handle", handles[i])):
            if np.asarray(h.samples()).tolist() != [e] * 3 or dict(h.frequencies()) != {key: 3} or [int(x) for x in h.samples(binary=False)] != [int(key, 2)] * 3:
                return "%s of register %s reports %r / %r" % (who, nm, np.asarray(h.samples()).tolist(), dict(h.frequencies()))
    flat = [b for e in exp for b in e]
    if np.asarray(res.samples()).tolist() != [flat] * 3:
        return "samples() = %r, expected rows %r" % (np.asarray(res.samples()).tolist(), flat)
    return None


def check_router_registers(router, bits, regs, pairs):
    """5 logical qubits in the basis state `bits`, CZ gates on `pairs` (diagonal: the state stays a
    basis state up to a sign), registers `regs`; after routing (star graph / line, the measurements
    are re-attached with on_qubits) every register reports the bits of its LOGICAL qubits."""
    import networkx as nx
    from qibo.transpiler.router import Sabre, StarConnectivityRouter

    be = NumpyBackend()
    c = basis_circuit(5, bits)
    for a_, b_ in pairs:
        c.add(gates.CZ(a_, b_))
    handles = [c.add(gates.M(*r)) for r in regs]
    conn = nx.Graph()
    if router == "star":
        conn.add_edges_from([(2, i) for i in (0, 1, 3, 4)])
        routed, _ = StarConnectivityRouter(conn)(c)
    else:
        conn.add_edges_from([(i, i + 1) for i in range(4)])
        routed, _ = Sabre(conn)(c)
    res = be.execute_circuit(routed, nshots=2)
    sr = res.samples(registers=True)
    fr = res.frequencies(registers=True)
    names = ["register%d" % i for i in range(len(regs))]
    if sorted(sr.keys()) != sorted(names):
        return "register names after routing %r" % (list(sr.keys()),)
    for nm, r, h in zip(names, regs, handles):
        e = [bits[q] for q in r]
        key = "".join(map(str, e))
        if np.asarray(sr[nm]).tolist() != [e] * 2 or dict(fr[nm]) != {key: 2}:
            return "after routing register %s of logical qubits %r reports %r, the qubits carry %r" % (nm, tuple(r), np.asarray(sr[nm]).tolist(), e)
        rm = [g for g in routed.queue if isinstance(g, gates.M) and g.register_name == nm][0]
        if np.asarray(rm.result.samples()).tolist() != [e] * 2 or dict(rm.result.frequencies()) != {key: 2}:
            return "after routing the measurement gate of register %s reports %r, the logical qubits %r carry %r" % (nm, np.asarray(rm.result.samples()).tolist(), tuple(r), e)
        if rm.result is h and (np.asarray(h.samples()).tolist() != [e] * 2 or dict(h.frequencies()) != {key: 2}):
            # (the star router shares the original gate's result object, Sabre works on a copy)
            return "after routing the original handle of %r reports %r, the qubits carry %r" % (tuple(r), np.asarray(h.samples()).tolist(), e)
    return None


def check_shared_lazy(order):
    """a handle whose result object is shared by two circuits (M.on_qubits) answers for the circuit
    executed LAST: s = X M (outcome 1), b = X X M built from s.on_qubits (outcome 0)."""
    be = NumpyBackend()
    s = Circuit(1)
    s.add(gates.X(0))
    h = s.add(gates.M(0))
    b = Circuit(1)
    b.add(gates.X(0))
    b.add(s.on_qubits(0))
    want = None
    for which in order:
        res = be.execute_circuit(s if which == "s" else b, nshots=2)
        want = 1 if which == "s" else 0
    try:
        got = np.asarray(h.samples()).reshape(-1).tolist()
    except Exception as e:
        return "executions %r then handle.samples() raised %s: %s" % (order, type(e).__name__, e)
    if got != [want] * 2 or np.asarray(res.samples()).reshape(-1).tolist() != [want] * 2:
        return "executions %r: the handle reports %r, the last executed circuit's result %r" % (order, got, np.asarray(res.samples()).reshape(-1).tolist())
    return None


def check_collapse_gate_accessors(n, dm, targets, nshots, chooser):
    """H on every qubit, collapsing M(*targets), terminal M on one other qubit; gate-level views."""
    be = OracleBackend(chooser)
    c = Circuit(n, density_matrix=dm)
    for q in range(n):
        c.add(gates.H(q))
    mc = c.add(gates.M(*targets, collapse=True))
    other = [q for q in range(n) if q not in targets]
    if other:
        c.add(gates.M(other[0]))
    be.execute_circuit(c, nshots=nshots)
    rows = [[int(b) for b in np.asarray(r).reshape(-1)] for r in mc.samples()]
    if len(rows) != nshots or any(len(r) != len(targets) for r in rows):
        return "recorded rows %r" % (rows,)
    dec = [int("".join(map(str, r)), 2) for r in rows]
    try:
        got = [int(x) for x in np.asarray(mc.samples(binary=False)).reshape(-1)]
        fb = dict(mc.frequencies(binary=True))
        fd = dict(mc.frequencies(binary=False))
    except Exception as e:
        return "gate-level accessor of the collapsing measurement raised %s: %s" % (type(e).__name__, e)
    if got != dec:
        return "samples(binary=False) = %r, rows read big-endian give %r" % (got, dec)
    hd = dict(collections.Counter(dec))
    if {int(k): int(v) for k, v in fd.items()} != hd or {int(k, 2): int(v) for k, v in fb.items()} != hd or any(len(k) != len(targets) for k in fb):
        return "frequencies %r / %r are not the histogram %r of the recorded rows" % (fb, fd, hd)
    return None


def check_channel_before_collapse(n, chq, cq, probs, nshots, chooser):
    """state vectors: X-flip channels (PauliNoiseChannel [("X", p)]) on the qubits chq of |0..0>, then
    H + collapsing M on cq, then terminal M(*chq).  Every shot samples every channel anew: row bit j of
    shot s is 1 iff THAT shot's draw for channel j chose the X branch (index 0); the sampler is called
    len(chq) + 2 times per shot."""
    be = OracleBackend(chooser)
    c = Circuit(n)
    for q, p in zip(chq, probs):
        c.add(gates.PauliNoiseChannel(q, [("X", p)]))
    c.add(gates.H(cq))
    mc = c.add(gates.M(cq, collapse=True))
    c.add(gates.M(*chq))
    res = be.execute_circuit(c, nshots=nshots)
    per = len(chq) + 2
    if len(be.calls) != nshots * per:
        return "%d sampler calls for %d shots; every shot draws %d times (one per channel, the collapsing measurement, the terminal sample)" % (len(be.calls), nshots, per)
    rows = np.asarray(res.samples()).tolist()
    want = [[1 if be.calls[s * per + j][0] == 0 else 0 for j in range(len(chq))] for s in range(nshots)]
    if rows != want:
        return "reported rows %r; the channel draws of the shots give %r" % (rows, want)
    rec = [int(np.asarray(r).reshape(-1)[0]) for r in mc.samples()]
    if rec != [be.calls[s * per + len(chq)][0] for s in range(nshots)]:
        return "recorded collapse outcomes %r are not the shots' draws" % (rec,)
    return None


def check_add_special(n, items, how):
    """Circuit.add with FusedGate / CallbackGate entries.  items: ("M", targets) | ("G", qubits) |
    ("F", [member qubit lists]) = the FusedGate(s) obtained by fusing H / CNOT members | ("CB",).
    SPEC: a measurement stays terminal iff no later gate (FusedGates count like their members,
    callbacks act on no qubit) touches one of its qubits."""
    from qibo import callbacks

    c = Circuit(n)
    ms, touched = [], []
    for it in items:
        if it[0] == "M":
            ms.append((len(touched), c.add(gates.M(*it[1])), list(it[1])))
            c_gate = None
            touched.append(set())
        elif it[0] == "G":
            c.add(gates.H(it[1][0]) if len(it[1]) == 1 else gates.CNOT(*it[1]))
            touched.append(set(it[1]))
        elif it[0] == "CB":
            c.add(gates.CallbackGate(callbacks.Norm()))
            touched.append(set())
        else:
            other = Circuit(n)
            for qs in it[1]:
                other.add(gates.H(qs[0]) if len(qs) == 1 else gates.CNOT(*qs))
            fused = other.fuse(max_qubits=2)
            if how == "plus":
                c = c + fused
            else:
                for g in fused.queue:
                    c.add(g)
            touched.append({q for qs in it[1] for q in qs})
    mgates = [g for g in c.queue if isinstance(g, gates.M)]
    exp_terminal = []
    for (pos, _, ts), g in zip(ms, mgates):
        later = set().union(*touched[pos + 1:]) if touched[pos + 1:] else set()
        term = not (set(ts) & later)
        exp_terminal.append(term)
        if bool(g.collapse) != (not term):
            return "M%r followed by gates on %r has collapse=%r" % (tuple(ts), sorted(later), g.collapse)
    got = [tuple(m.target_qubits) for m in c.measurements]
    want = [tuple(ts) for (pos, _, ts), t in zip(ms, exp_terminal) if t]
    if got != want or bool(c.has_collapse) != (not all(exp_terminal)):
        return "circuit.measurements = %r, has_collapse = %r; expected terminal measurements %r" % (got, c.has_collapse, want)
    return None


def check_load_registers(n, items, dm, via, nshots, seed):
    """items: ("M", targets, name-or-None, collapse) | ("H", q).  Execute, then reload the result
    (via 'dict': from_dict(to_dict()), 'file': dump + load_result); registers must be the same."""
    from qibo.result import load_result

    nb = NumpyBackend()
    c = Circuit(n, density_matrix=dm)
    for it in items:
        if it[0] == "H":
            c.add(gates.H(it[1]))
        else:
            c.add(gates.M(*it[1], register_name=it[2], collapse=it[3]))
    nb.set_seed(seed)
    res = nb.execute_circuit(c, nshots=nshots)
    sr = res.samples(registers=True)
    fr = res.frequencies(registers=True)
    if via == "dict":
        new = type(res).from_dict(res.to_dict())
    else:
        d = tempfile.mkdtemp()
        path = os.path.join(d, "r.npy")
        res.dump(path)
        new = load_result(path)
        os.remove(path)
        os.rmdir(d)
    sr2 = new.samples(registers=True)
    fr2 = new.frequencies(registers=True)
    if list(sr2.keys()) != list(sr.keys()) or list(fr2.keys()) != list(fr.keys()):
        return "register names after reloading: %r, before: %r" % (list(sr2.keys()), list(sr.keys()))
    for k in sr:
        if not np.array_equal(np.asarray(sr[k]), np.asarray(sr2[k])) or dict(fr[k]) != dict(fr2[k]):
            return "register %r differs after reloading" % (k,)
    if not np.array_equal(np.asarray(res.samples()), np.asarray(new.samples())):
        return "samples differ after reloading"
    return None
'''


def _base():
    from props import C03 as base

    return base


_NS = {}


def ns():
    if not _NS:
        exec(_base().HARNESS_SRC, _NS)
        exec(SRC, _NS)
    return _NS


def header_src():
    return _base().HARNESS_SRC + "\n" + SRC + "\n"


def report(ctx, counters, key, what, py, why, ob):
    if key in PENDING:
        ctx.stat("pending_" + key)
        counters["pending"].add(key)
        return
    counters[ob] = counters.get(ob, 0) + 1
    ctx.fail(key, what, py, observed=why, broken=[ob])


def run_suites(ctx):
    base = _base()
    N = ns()
    rng = ctx.rng
    cnt = {"pending": set()}
    # --- moved measurements -------------------------------------------------------------------
    cases = []
    for n in (2, 3):
        lays = base.layouts(n)
        for regs in (lays if ctx.thorough else rng.sample(lays, min(len(lays), 14))):
            for _ in range(2):
                wires = rng.sample(range(n + 1), n)
                bits = [rng.randint(0, 1) for _ in range(n)]
                if len(set(bits)) == 1:
                    bits[rng.randrange(n)] ^= 1
                cases.append((n, bits, regs, wires))
    for n, bits, regs, wires in cases:
        ctx.case(("onq_registers", n, tuple(bits), tuple(map(tuple, regs)), tuple(wires)))
        ctx.stat("onq_registers")
        try:
            why = N["check_onq_registers"](n, bits, regs, wires)
        except Exception as e:  # noqa
            why = f"{type(e).__name__}: {e}"
        if why:
            py = header_src() + f"why = check_onq_registers({n}, {bits!r}, {regs!r}, {wires!r})\nassert why is None, why\n"
            report(ctx, cnt, "handles:on_qubits:registers", f"registers {regs} of a circuit in basis state {bits} placed on qubits {wires}: {why}", py, why, "C03_search_handles_on_qubits")
    for _ in range(30 if ctx.thorough else 10):
        router = rng.choice(["star", "sabre"])
        bits = [rng.randint(0, 1) for _ in range(5)]
        sub = rng.sample(range(5), rng.randint(2, 4))
        cut = rng.randint(1, len(sub) - 1)
        regs = [sub[:cut], sub[cut:]]
        pairs = [tuple(rng.sample(range(5), 2)) for _ in range(rng.randint(2, 5))]
        ctx.case(("router_registers", router, tuple(bits), tuple(map(tuple, regs)), tuple(pairs)))
        ctx.stat("router_registers_" + router)
        try:
            why = N["check_router_registers"](router, bits, regs, pairs)
        except Exception as e:  # noqa
            why = f"{type(e).__name__}: {e}"
        if why:
            py = header_src() + f"why = check_router_registers({router!r}, {bits!r}, {regs!r}, {pairs!r})\nassert why is None, why\n"
            report(ctx, cnt, "handles:router:registers", f"{router} routing of CZ{pairs} + registers {regs} on basis state {bits}: {why}", py, why, "C03_search_handles_on_qubits")
    for order in (["s"], ["b"], ["b", "s"], ["s", "b"], ["s", "b", "s"]):
        ctx.case(("shared_lazy", tuple(order)))
        try:
            why = N["check_shared_lazy"](order)
        except Exception as e:  # noqa
            why = f"{type(e).__name__}: {e}"
        if why:
            py = header_src() + f"why = check_shared_lazy({order!r})\nassert why is None, why\n"
            report(ctx, cnt, "handles:shared-result:lazy", f"result object shared through M.on_qubits: {why}", py, why, "C03_search_handles_on_qubits")
    ctx.ob("C03_search_handles_on_qubits", cnt.get("C03_search_handles_on_qubits", 0) == 0, "search", "")
    # --- collapsing gate accessors ------------------------------------------------------------
    for _ in range(40 if ctx.thorough else 14):
        n = rng.randint(1, 3)
        targets = rng.sample(range(n), rng.randint(1, n))
        dm = rng.random() < 0.4 or len(targets) == n
        nshots = rng.randint(1, 5)
        log = []
        sup = base.support_chooser(rng)

        def chooser(p_, n_, log=log, sup=sup):
            o_ = sup(p_, n_)
            log.append(o_)
            return o_

        ctx.case(("collapse_gate", n, dm, tuple(targets), nshots))
        ctx.stat("collapse_gate_accessors")
        try:
            why = N["check_collapse_gate_accessors"](n, dm, targets, nshots, chooser)
        except Exception as e:  # noqa
            why = f"{type(e).__name__}: {e}"
        if why:
            py = header_src() + f"why = check_collapse_gate_accessors({n}, {dm}, {targets!r}, {nshots}, Tape({log!r}))\nassert why is None, why\n"
            report(ctx, cnt, "handles:collapse-gate:decimal", f"collapsing M{tuple(targets)} (n={n}, dm={dm}, nshots={nshots}): {why}", py, why, "C03_search_handles_collapse_gate")
    ctx.ob("C03_search_handles_collapse_gate", cnt.get("C03_search_handles_collapse_gate", 0) == 0, "search", "")
    # --- sampled channels before a collapsing measurement (state vectors) -------------------------
    b19 = 0
    for _ in range(30 if ctx.thorough else 12):
        n = rng.randint(2, 4)
        qs = rng.sample(range(n), rng.randint(2, n))
        cq, chq = qs[0], qs[1:]
        probs = [rng.choice([0.25, 0.5, 0.75]) for _ in chq]
        nshots = rng.randint(2, 5)
        log = []

        sup = base.support_chooser(rng)

        def chooser(p_, n_, log=log, sup=sup):
            o_ = sup(p_, n_)
            log.append(o_)
            return o_

        ctx.case(("channel_before_collapse", n, tuple(chq), cq, nshots))
        ctx.stat("channel_before_collapse")
        try:
            why = N["check_channel_before_collapse"](n, chq, cq, probs, nshots, chooser)
        except Exception as e:  # noqa
            why = f"{type(e).__name__}: {e}"
        if why:
            b19 += 1
            py = header_src() + f"why = check_channel_before_collapse({n}, {chq!r}, {cq}, {probs!r}, {nshots}, Tape({log!r}))\nassert why is None, why\n"
            ctx.fail("repeated-execution:channel-before-collapse", f"{n} qubits, X-flip channels on {chq}, collapsing M({cq}), terminal M{tuple(chq)}, nshots={nshots}: {why}", py, observed=why,
                     broken=["C03_search_channel_before_collapse"])
    ctx.ob("C03_search_channel_before_collapse", b19 == 0, "search", f"{b19} failing inputs" if b19 else "")
    # --- Circuit.add with FusedGate / CallbackGate entries ------------------------------------------
    b20 = 0
    for _ in range(120 if ctx.thorough else 40):
        n = rng.randint(2, 4)
        items = []
        for _ in range(rng.randint(2, 6)):
            r = rng.random()
            if r < 0.35:
                free = [q for q in range(n) if not any(it[0] == "M" and q in it[1] for it in items)]
                if free:
                    items.append(("M", rng.sample(free, rng.randint(1, min(2, len(free))))))
            elif r < 0.5:
                items.append(("G", rng.sample(range(n), rng.randint(1, 2))))
            elif r < 0.65:
                items.append(("CB",))
            else:
                items.append(("F", [rng.sample(range(n), rng.randint(1, 2)) for _ in range(rng.randint(1, 3))]))
        if not any(it[0] == "M" for it in items):
            items.insert(0, ("M", [rng.randrange(n)]))
        how = rng.choice(["add", "plus"])
        ctx.case(("add_special", n, str(items), how))
        ctx.stat("add_special_" + how)
        try:
            why = N["check_add_special"](n, items, how)
        except Exception as e:  # noqa
            why = f"{type(e).__name__}: {e}"
        if why:
            b20 += 1
            py = header_src() + f"why = check_add_special({n}, {items!r}, {how!r})\nassert why is None, why\n"
            ctx.fail("circuit-add:special-gates", f"Circuit.add sequence {items} ({how}): {why}", py, observed=why, broken=["C03_search_add_special_gates"])
    ctx.ob("C03_search_add_special_gates", b20 == 0, "search", f"{b20} failing inputs" if b20 else "")
    # --- reloading results ----------------------------------------------------------------------
    state0 = np.random.get_state()
    try:
        for i in range(36 if ctx.thorough else 12):
            n = rng.randint(2, 4)
            qs = rng.sample(range(n), rng.randint(2, n))
            items = [("H", q) for q in range(n) if rng.random() < 0.6]
            dm = rng.random() < 0.3
            if rng.random() < 0.4 and len(qs) > 2:
                items.append(("M", [qs.pop()], None, True))      # a collapsing measurement first: default indices skip
            cut = rng.randint(1, len(qs) - 1)
            names = [None, None] if i % 3 == 0 else [rng.choice([None, "a"]), rng.choice([None, "b"])]
            items.append(("M", qs[:cut], names[0], False))
            items.append(("M", qs[cut:], names[1], False))
            via = "file" if i % 4 == 0 else "dict"
            nshots = rng.randint(1, 5)
            seed = rng.randrange(2 ** 31)
            ctx.case(("load_registers", n, str(items), dm, via, nshots))
            ctx.stat("load_registers_" + via)
            try:
                why = N["check_load_registers"](n, items, dm, via, nshots, seed)
            except Exception as e:  # noqa
                why = f"{type(e).__name__}: {e}"
            if why:
                py = header_src() + f"why = check_load_registers({n}, {items!r}, {dm}, {via!r}, {nshots}, {seed})\nassert why is None, why\n"
                report(ctx, cnt, "handles:load:register-names", f"circuit {items} (n={n}, dm={dm}) reloaded via {via}: {why}", py, why, "C03_search_handles_load")
    finally:
        np.random.set_state(state0)
    ctx.ob("C03_search_handles_load", cnt.get("C03_search_handles_load", 0) == 0, "search", "")
    if cnt["pending"]:
        ctx.notes.append("findings reported to the lead and not yet decided (counted, not reported as violations): " + ", ".join(sorted(cnt["pending"])))
    ctx.notes.append("handles: registers of measurements moved with on_qubits (shared MeasurementResult), gate-level accessors of collapsing measurements, "
                     "register names and data after to_dict/from_dict and dump/load_result")
