"""C14, parallel helpers against the scheduler model (lean/QV/Model/Parallel.lean).

The REAL helpers of qibo.parallel are run with 1..4 workers under a harness-imposed schedule:
the backend handed to the helper is a subclass of the real NumpyBackend whose `execute_circuit`
and `apply_gate` first wait at a turnstile (one thread runs at a time, the next one is picked by
a policy), and `Circuit.set_parameters` / `Circuit.copy` are wrapped from outside for the
duration of the run.  Recorded per job: which circuit / gate / measurement-result objects the
worker was given (identity classes, the caller's own or a copy), whether the initial state is
the caller's array or a private copy, the parameters written, the parameter every gate had when
it was applied, `_final_state`.  The observed order of the instrumented steps is turned into a
schedule of the model's atomic instructions and replayed in Lean (driver commands PX/PC/PP):

  correspondence  objects, per-gate parameter reads, heap after the run, "disciplined",
                  "complete" agree with the model (`C14_corr_parallel_model`)
  search          every result equals the execution of a FRESH circuit with that job's parameters
                  on a copy of that job's input, the caller's circuit and arrays are unchanged
                  (`C14_search_parallel_schedules`, key `parallel-schedule:<helper>`)
  negative        the model's witness without the copy (driver command PS) against the same
                  steps performed by hand on one real circuit object
"""
from __future__ import annotations

import json

import numpy as np

from vlib.driver import run_driver

DRIVER = "DriverC14.lean"

PAR_SRC = r'''
import random
import threading

import numpy as np
from qibo import Circuit, gates
from qibo.backends import NumpyBackend
from qibo.models.circuit import Circuit as _QC
from qibo.parallel import parallel_circuits_execution, parallel_execution, parallel_parametrized_execution

PGATES = {"RX": gates.RX, "RY": gates.RY, "RZ": gates.RZ}
FGATES = {"H": gates.H, "X": gates.X, "S": gates.S}
TGATES = {"CZ": gates.CZ, "CNOT": gates.CNOT}


def pbuild(spec, thetas=None):
    """spec = {"n", "gates": [[name, qubits, theta|None, trainable]], "measure": [...]|None}.
    `thetas` overrides the angles of the trainable parametrised gates, in order."""
    c = Circuit(spec["n"])
    it = iter(thetas) if thetas is not None else None
    for name, qs, theta, trainable in spec["gates"]:
        if name in PGATES:
            if it is not None and trainable:
                theta = next(it)
            c.add(PGATES[name](qs[0], theta=float(theta), trainable=bool(trainable)))
        elif name in FGATES:
            c.add(FGATES[name](qs[0]))
        else:
            c.add(TGATES[name](qs[0], qs[1]))
    if spec.get("measure"):
        c.add(gates.M(*spec["measure"]))
    return c


def pstate(n, sid):
    d = 2 ** n
    v = np.array([((sid * 5 + x * 3) % 4) + 1 + 1j * ((sid + x * x) % 3 - 1) for x in range(d)], dtype=np.complex128)
    return np.ascontiguousarray(v / np.linalg.norm(v))


def pval(gate):
    ps = getattr(gate, "parameters", ())
    try:
        return int(round(float(ps[0]))) if len(ps) else 0
    except Exception:
        return 0


def slot_values(c):
    return [pval(g) for g in c.queue if not isinstance(g, gates.M)]


class Turnstile:
    """one worker thread runs at a time; a thread arriving at an instrumented point waits until
    it is picked.  Picks are made when as many threads wait as can be active (or after a timeout)."""

    def __init__(self, seed, k, njobs, policy, timeout=0.04):
        self.cv = threading.Condition()
        self.rng = random.Random(seed)
        self.k, self.left, self.cap = max(1, k), njobs, max(1, k)
        self.policy, self.timeout = policy, timeout
        self.waiting, self.running = {}, None
        self.names, self.last_run, self.clock = {}, {}, 0
        self.log, self.forced = [], 0

    def name(self, tid):
        return self.names.setdefault(tid, len(self.names))

    def want(self):
        return max(1, min(self.k, self.left, self.cap))

    def _grant(self, force=False):
        if self.running is not None or not self.waiting:
            return
        if not force and len(self.waiting) < self.want():
            return
        cand = sorted(self.waiting, key=self.name)
        if self.policy == "setfirst":
            early = [t for t in cand if self.waiting[t] in ("set", "enter")]
            cand = early or cand
            pick = self.rng.choice(cand)
        elif self.policy == "roundrobin":
            pick = min(cand, key=lambda t: (self.last_run.get(t, -1), self.name(t)))
        else:
            pick = self.rng.choice(cand)
        self.running = pick
        self.cv.notify_all()

    def point(self, tid, kind, record):
        with self.cv:
            if self.running == tid:
                self.running = None
            self.waiting[tid] = kind
            self._grant()
            while self.running != tid:
                if not self.cv.wait(self.timeout):
                    self.forced += 1
                    self.cap = max(1, len(self.waiting))
                    self._grant(force=True)
                    if self.running is not None and self.running != tid and self.running not in self.waiting:
                        # the thread that holds the turn is blocked outside the turnstile
                        self.running = None
                        self._grant(force=True)
            del self.waiting[tid]
            self.clock += 1
            self.last_run[tid] = self.clock
            self.log.append(record)

    def note(self, record):
        with self.cv:
            self.log.append(record)

    def started(self):
        with self.cv:
            self.cap = self.k

    def release(self, tid):
        with self.cv:
            self.left -= 1
            if self.running == tid:
                self.running = None
            self._grant()


class TraceBackend(NumpyBackend):
    """the real numpy backend, instrumented from outside."""

    def __init__(self):
        super().__init__()
        self.ts = None
        self.cur = {}
        self.segments = []
        self.copies = []
        self.ndraws = 0
        self.tl = threading.local()

    def seg(self):
        tid = threading.get_ident()
        s = self.cur.get(tid)
        if s is None:
            s = {"tid": tid, "reads": [], "set": None, "ngates_seen": 0}
            self.cur[tid] = s
            self.segments.append(s)
            self.ts.started()
        return s

    def execute_circuit(self, circuit, initial_state=None, nshots=1000):
        if self.ts is None or getattr(self.tl, "inside", False):
            return super().execute_circuit(circuit, initial_state, nshots)
        tid = threading.get_ident()
        s = self.seg()
        self.ts.point(tid, "enter", (s, "enter"))
        s.update(circuit=circuit, cid=id(circuit),
                 gids=tuple(id(g) for g in circuit.queue if not isinstance(g, gates.M)),
                 mids=tuple(id(m.result) for m in circuit.measurements),
                 params_enter=slot_values(circuit), state=initial_state, nshots=nshots)
        self.tl.inside = True
        try:
            r = super().execute_circuit(circuit, initial_state, nshots)
        finally:
            self.tl.inside = False
        s.update(params_exit=slot_values(circuit), result=r)
        self.cur[tid] = None
        self.ts.release(tid)
        return r

    def apply_gate(self, gate, state, nqubits):
        if self.ts is not None and getattr(self.tl, "inside", False):
            s = self.seg()
            self.ts.point(threading.get_ident(), "gate", (s, "gate"))
            s["reads"].append(pval(gate))
            s.setdefault("steps", []).append(0)
        return super().apply_gate(gate, state, nqubits)

    def sample_shots(self, probabilities, nshots):
        if self.ts is not None and getattr(self.tl, "inside", False):
            s = self.seg()
            self.ts.point(threading.get_ident(), "draw", (s, "draw"))
            with self.ts.cv:
                s.setdefault("draws", []).append(self.ndraws)
                self.ndraws += 1
            s.setdefault("steps", []).append(1)
        return super().sample_shots(probabilities, nshots)


class Instrumented:
    """wraps Circuit.set_parameters / Circuit.copy for the duration of one helper call."""

    def __init__(self, be):
        self.be = be

    def __enter__(self):
        be = self.be
        self.o_set, self.o_copy = _QC.set_parameters, _QC.copy
        o_set, o_copy = self.o_set, self.o_copy

        def set_parameters(c, parameters):
            if be.ts is not None and not getattr(be.tl, "setting", False):
                s = be.seg()
                be.ts.point(threading.get_ident(), "set", (s, "set"))
                s["set"] = (c, [int(round(float(x))) for x in np.asarray(parameters, dtype=float).ravel()])
                be.tl.setting = True
                try:
                    return o_set(c, parameters)
                finally:
                    be.tl.setting = False
            return o_set(c, parameters)

        def copy(c, deep=False):
            new = o_copy(c, deep)
            if be.ts is not None:
                rec = {"src": c, "new": new, "deep": bool(deep)}
                be.copies.append(rec)
                be.ts.note((rec, "copy"))
            return new

        _QC.set_parameters, _QC.copy = set_parameters, copy
        return self

    def __exit__(self, *a):
        _QC.set_parameters, _QC.copy = self.o_set, self.o_copy


def run_scenario(sc):
    """run one real helper under the turnstile. Returns the observation record."""
    spec, k = sc.get("spec") or sc["specs"][0], sc["k"]
    n = spec["n"]
    be = TraceBackend()
    helper = sc["helper"]
    if helper == "PX":
        caller = [pbuild(spec)]
        states = [pstate(n, s) for s in sc["sids"]]
        njobs = len(states)
        call = lambda: parallel_execution(caller[0], states, processes=k, backend=be)
    elif helper == "PC":
        objs = [pbuild(sp) for sp in sc["specs"]]
        caller = objs
        circuits = [objs[a] for a in sc["addrs"]]
        mode = sc["states_mode"]
        if mode == "none":
            states = None
        elif mode == "single":
            states = pstate(n, sc["sids"][0])
        else:
            states = [pstate(sc["specs"][a]["n"], s) for a, s in zip(sc["addrs"], sc["sids"])]
        njobs = len(circuits)
        if sc.get("via") == "backend":
            call = lambda: be.execute_circuits(circuits, states, nshots=sc["nshots"], processes=k)
        else:
            call = lambda: parallel_circuits_execution(circuits, states, nshots=sc["nshots"], processes=k, backend=be)
    else:
        caller = [pbuild(spec)]
        states = None if sc["sid"] is None else pstate(n, sc["sid"])
        njobs = len(sc["params"])
        plist = [np.array(p, dtype=float) if sc.get("as_array", True) else [float(x) for x in p] for p in sc["params"]]
        call = lambda: parallel_parametrized_execution(caller[0], plist, initial_state=states, processes=k, backend=be)
    before_params = [slot_values(c) for c in caller]
    before_final = [c._final_state for c in caller]
    keep = None if states is None else ([s.copy() for s in states] if isinstance(states, list) else states.copy())
    be.ts = Turnstile(sc["seed"], k or 1, njobs, sc["policy"])
    with Instrumented(be):
        res = call()
    ts, be.ts = be.ts, None
    return {"be": be, "ts": ts, "res": res, "caller": caller, "states": states, "keep": keep,
            "before_params": before_params, "before_final": before_final, "njobs": njobs}


def noisy_build(d):
    """d = {"n", "theta", "chans": [[qubit, pauli, p]], "measure": [...]}: repeated execution."""
    c = Circuit(d["n"])
    c.add(gates.RY(0, theta=d["theta"]))
    for q in range(d["n"] - 1):
        c.add(gates.CNOT(q, q + 1))
    for q, pl, p in d["chans"]:
        c.add(gates.PauliNoiseChannel(q, [(pl, p)]))
    c.add(gates.M(*d["measure"]))
    return c


def run_noisy(descs, addrs, nshots, k, seed, policy):
    """parallel_circuits_execution over repeated-execution circuits under the turnstile."""
    be = TraceBackend()
    objs = [noisy_build(d) for d in descs]
    circuits = [objs[a] for a in addrs]
    be.ts = Turnstile(seed, k or 1, len(circuits), policy)
    with Instrumented(be):
        res = parallel_circuits_execution(circuits, None, nshots=nshots, processes=k, backend=be)
    ts, be.ts = be.ts, None
    return be, ts, res


def seeded_noisy(descs, addrs, nshots, seed, helper):
    """same seed, one worker, against the plain loop over fresh circuits."""
    nb = NumpyBackend()
    objs = [noisy_build(d) for d in descs]
    nb.set_seed(seed)
    if helper == "circuits":
        res = parallel_circuits_execution([objs[a] for a in addrs], None, nshots=nshots, processes=1, backend=nb)
    else:
        res = parallel_execution(objs[0], [pstate(descs[0]["n"], a) for a in addrs], processes=1, backend=nb)
    a = [np.asarray(r.samples(binary=False)).tolist() for r in res]
    nb.set_seed(seed)
    if helper == "circuits":
        seq = [nb.execute_circuit(noisy_build(descs[x]), nshots=nshots) for x in addrs]
    else:
        seq = [nb.execute_circuit(noisy_build(descs[0]), initial_state=pstate(descs[0]["n"], x)) for x in addrs]
    b = [np.asarray(r.samples(binary=False)).tolist() for r in seq]
    return a, b


def reference(sc, j):
    """job j executed alone: a FRESH circuit with that job's parameters on a fresh copy of its input."""
    nb = NumpyBackend()
    n = sc["spec"]["n"] if "spec" in sc else sc["specs"][0]["n"]
    if sc["helper"] == "PX":
        return nb.execute_circuit(pbuild(sc["spec"]), initial_state=pstate(n, sc["sids"][j]))
    if sc["helper"] == "PC":
        sp = sc["specs"][sc["addrs"][j]]
        mode = sc["states_mode"]
        st = None if mode == "none" else pstate(sp["n"], sc["sids"][0 if mode == "single" else j])
        return nb.execute_circuit(pbuild(sp), initial_state=st, nshots=sc["nshots"])
    st = None if sc["sid"] is None else pstate(n, sc["sid"])
    return nb.execute_circuit(pbuild(sc["spec"], sc["params"][j]), initial_state=st)


def property_check(sc, ob):
    """the property itself on the observed run: returns None or a description."""
    res = ob["res"]
    if len(res) != ob["njobs"]:
        return "%d results for %d jobs" % (len(res), ob["njobs"])
    for j, r in enumerate(res):
        ref = reference(sc, j)
        a, b = np.asarray(r.state()), np.asarray(ref.state())
        if a.shape != b.shape or not np.allclose(a, b, atol=1e-12):
            return "result %d is not the execution of job %d run alone on a fresh circuit" % (j, j)
        if hasattr(ref, "nshots") and hasattr(r, "frequencies") and getattr(r, "measurements", None):
            if r.nshots != ref.nshots or sum(r.frequencies().values()) != ref.nshots:
                return "result %d has %r shots instead of %r" % (j, r.nshots, ref.nshots)
    for c, p0 in zip(ob["caller"], ob["before_params"]):
        if slot_values(c) != p0:
            return "the caller's circuit has parameters %r after the call (before: %r)" % (slot_values(c), p0)
    st, keep = ob["states"], ob["keep"]
    if st is not None:
        same = all(np.array_equal(x, y) for x, y in zip(st, keep)) if isinstance(st, list) else np.array_equal(st, keep)
        if not same:
            return "the caller's initial state array was modified"
    return None
'''

_NS = {}
exec(compile(PAR_SRC, "<C14 parallel harness>", "exec"), _NS)  # noqa: S102  (same text goes into replays)
globals().update({k: v for k, v in _NS.items() if not k.startswith("__")})


# ---------------------------------------------------------------------------
# generators

def rand_spec(rng, n=None, measured=None):
    n = n or rng.choice([1, 2, 2, 3])
    gs = []
    m = rng.randint(2, 6)
    for i in range(m):
        t = rng.random()
        if t < 0.55 or i == 0:
            gs.append([rng.choice(["RX", "RY", "RZ"]), [rng.randrange(n)], rng.randint(1, 3), rng.random() < 0.85])
        elif t < 0.8 or n == 1:
            gs.append([rng.choice(["H", "X", "S"]), [rng.randrange(n)], None, False])
        else:
            a, b = rng.sample(range(n), 2)
            gs.append([rng.choice(["CZ", "CNOT"]), [a, b], None, False])
    if measured is None:
        measured = rng.random() < 0.5
    return {"n": n, "gates": gs, "measure": rng.sample(range(n), rng.randint(1, n)) if measured else None}


def slots_of(spec):
    return [i for i, g in enumerate(spec["gates"]) if g[0] in ("RX", "RY", "RZ") and g[3]]


def base_values(spec):
    return [g[2] if g[0] in ("RX", "RY", "RZ") else 0 for g in spec["gates"]]


def scenarios(rng, thorough):
    out = []
    policies = ["random", "roundrobin", "setfirst"]
    reps = 8 if thorough else 2
    for rep in range(reps):
        for k in [None, 1, 2, 3, 4]:
            pol = policies[(rep + (k or 0)) % 3]
            # parallel_execution
            spec = rand_spec(rng)
            out.append({"helper": "PX", "spec": spec, "k": k, "policy": pol, "seed": rng.randrange(10 ** 6),
                        "sids": [rng.randrange(50) for _ in range(rng.randint(2, 5))]})
            # parallel_circuits_execution: a few distinct objects, some listed twice
            n = rng.choice([1, 2, 3])
            nobj = rng.randint(1, 3)
            mixed = rng.random() < 0.6  # circuits of different sizes in one list
            specs = [rand_spec(rng, None if mixed else n) for _ in range(nobj)]
            njobs = rng.randint(2, 5)
            addrs = [rng.randrange(nobj) for _ in range(njobs)]
            # addresses in order of first appearance, every object used
            order = []
            for a in addrs:
                if a not in order:
                    order.append(a)
            specs = [specs[a] for a in order]
            addrs = [order.index(a) for a in addrs]
            out.append({"helper": "PC", "specs": specs, "addrs": addrs, "k": k, "policy": policies[(rep + (k or 0) + 1) % 3],
                        "seed": rng.randrange(10 ** 6), "states_mode": rng.choice(["none", "list", "list"] if len({sp["n"] for sp in specs}) > 1 else ["none", "single", "list", "list"]),
                        "sids": [rng.randrange(50) for _ in range(njobs)], "nshots": rng.randint(1, 40),
                        "via": rng.choice(["helper", "backend"])})
            # parallel_parametrized_execution
            spec = rand_spec(rng)
            while not slots_of(spec):
                spec = rand_spec(rng)
            njobs = rng.randint(2, 5)
            ns = len(slots_of(spec))
            params = [[10 * (j + 1) + s for s in range(ns)] for j in range(njobs)]
            rng.shuffle(params)
            out.append({"helper": "PP", "spec": spec, "k": k, "policy": policies[(rep + (k or 0) + 2) % 3],
                        "seed": rng.randrange(10 ** 6), "params": params, "sid": None if rng.random() < 0.25 else rng.randrange(50),
                        "as_array": rng.random() < 0.7})
    # the adversarial schedule for the parametrised helper, every worker count
    for k in [2, 3, 4]:
        spec = rand_spec(rng)
        while len(slots_of(spec)) < 2:
            spec = rand_spec(rng)
        ns = len(slots_of(spec))
        out.append({"helper": "PP", "spec": spec, "k": k, "policy": "setfirst", "seed": rng.randrange(10 ** 6),
                    "params": [[10 * (j + 1) + s for s in range(ns)] for j in range(k + 1)], "sid": rng.randrange(50), "as_array": True})
    return out


# ---------------------------------------------------------------------------
# observation -> canonical record and model line

def classes(keys):
    """index of the first job with the same key, per job."""
    first, out = {}, []
    for i, kk in enumerate(keys):
        first.setdefault(kk, i)
        out.append(first[kk])
    return out


def _nl(l):
    return "%d %s" % (len(l), " ".join(str(int(x)) for x in l)) if l else "0"


def observe(sc, ob):
    """per job (in the order of the returned list): the objects, writes and reads observed;
    the model schedule; malformed observations raise ValueError."""
    be, ts, res = ob["be"], ob["ts"], ob["res"]
    segs = [s for s in be.segments if "result" in s]
    by_rid = {id(s["result"]): s for s in segs}
    if len(by_rid) != len(segs) or len(res) != len(segs):
        raise ValueError("%d executions observed, %d results returned" % (len(segs), len(res)))
    jobs = []
    for r in res:
        if id(r) not in by_rid:
            raise ValueError("a returned result was not produced by an observed execution")
        jobs.append(by_rid[id(r)])
    index = {id(s): j for j, s in enumerate(jobs)}
    caller = ob["caller"]
    copy_of = {id(c["new"]): c for c in be.copies}
    rows = []
    for j, s in enumerate(jobs):
        c = s["circuit"]
        cp = copy_of.get(id(c))
        st = s["state"]
        if sc["helper"] == "PP":
            own_input = None if st is None else (st is not ob["states"] and np.array_equal(st, ob["keep"]))
        else:
            own_input = False
        rows.append({
            "cid": s["cid"], "gids": s["gids"], "mids": s["mids"],
            "is_caller": next((i for i, cc in enumerate(caller) if cc is c), None),
            "copy_src": None if cp is None else next((i for i, cc in enumerate(caller) if cc is cp["src"]), -1),
            "copy_deep": None if cp is None else cp["deep"],
            "set": None if s["set"] is None else s["set"][1],
            "set_on_own": None if s["set"] is None else s["set"][0] is c,
            "reads": list(s["reads"]), "enter": s["params_enter"], "exit": s["params_exit"],
            "own_input": own_input, "final_is_result": c._final_state is s["result"],
        })
    # the schedule of model instructions
    sched = []
    seen_gates = {}
    for rec, kind in ts.log:
        if kind == "copy":
            tgt = next((jj for jj, s in enumerate(jobs) if s["circuit"] is rec["new"]), None)
            if tgt is not None:
                sched.append(tgt)
            continue
        j = index.get(id(rec))
        if j is None:
            continue
        s = jobs[j]
        ng = len(s["reads"])
        if kind == "set":
            sched += [j] * len(s["set"][1])
        elif kind == "enter":
            sched += [j] * (2 if ng == 0 else 1)
        else:
            seen_gates[j] = seen_gates.get(j, 0) + 1
            sched += [j] * (2 if seen_gates[j] == ng else 1)
    return jobs, rows, sched


def model_line(sc, sched):
    if sc["helper"] == "PX":
        spec = sc["spec"]
        toks = ["PX", _nl(base_values(spec)), str(len(spec["gates"])), str(len(sc["sids"]))]
        toks += [_nl([100 + s]) for s in sc["sids"]]
    elif sc["helper"] == "PC":
        toks = ["PC", str(len(sc["specs"]))] + [_nl(base_values(sp)) for sp in sc["specs"]]
        toks.append(str(len(sc["addrs"])))
        toks += ["%d %d" % (a, len(sc["specs"][a]["gates"])) for a in sc["addrs"]]
        mode = sc["states_mode"]
        if mode == "none":
            toks.append("0")
        else:
            sids = [sc["sids"][0]] * len(sc["addrs"]) if mode == "single" else sc["sids"]
            toks.append(str(len(sids)))
            toks += [_nl([100 + s]) for s in sids]
    else:
        spec = sc["spec"]
        toks = [sc["helper"], _nl(base_values(spec)), str(len(spec["gates"])), _nl(slots_of(spec)), str(len(sc["params"]))]
        toks += [_nl(p) for p in sc["params"]]
        toks.append("0" if sc["sid"] is None else _nl([100 + sc["sid"]]))
    toks.append(_nl(sched))
    return " ".join(toks)


def input_tag(sc, j):
    if sc["helper"] == "PX":
        return [100 + sc["sids"][j]]
    if sc["helper"] == "PC":
        if sc["states_mode"] == "none":
            return []
        return [100 + sc["sids"][0 if sc["states_mode"] == "single" else j]]
    return [] if sc["sid"] is None else [100 + sc["sid"]]


def parse_answer(out):
    parts = {}
    for chunk in out.split(" # "):
        chunk = chunk.strip()
        if chunk.startswith("D="):
            parts["D"], parts["C"] = chunk.split()[0][2:], chunk.split()[1][2:]
        else:
            parts[chunk[:1]] = chunk[1:].strip()
    jobs = []
    for tok in parts.get("J", "").split():
        circ, cf, ng, own, st = tok.split("/")
        jobs.append({"circ": int(circ), "copyFrom": None if cf == "-" else int(cf), "ngates": int(ng), "own": own == "1",
                     "set": [tuple(int(x) for x in w.split(":")) for w in st.split(",") if w]})
    def rl(sx):
        return [None if r.strip() == "-" else [int(x) for x in r.split()[1:]] for r in sx.split("|")] if sx else []
    heap = []
    for cell in parts.get("H", "").split(";"):
        a, b, c = cell.split("/")
        heap.append({"params": [int(x) for x in a.split()], "final": None if c.strip() == "-" else int(c)})
    return {"jobs": jobs, "R": rl(parts.get("R", "")), "Q": rl(parts.get("Q", "")), "X": rl(parts.get("X", "")),
            "heap": heap, "D": parts.get("D"), "C": parts.get("C")}


def compare(sc, ob, jobs, rows, ans, soft):
    """model answer against the observation; returns list of disagreements (`soft`: differences
    in objects that no result depends on, reported as statistics only)."""
    bad = []
    mj = ans["jobs"]
    if len(mj) != len(rows):
        return ["model has %d jobs, %d observed" % (len(mj), len(rows))]
    # which objects
    mcls = classes([m["circ"] for m in mj])
    for name in ("cid", "gids", "mids"):
        keys = [r[name] for r in rows]
        if name != "cid" and any(len(kk) == 0 for kk in keys):
            continue
        if name == "gids":
            # gate objects: two jobs share a gate object iff they share the circuit in the model
            share = [[bool(set(a) & set(b)) for b in keys] for a in keys]
            want = [[mcls[i] == mcls[j] for j in range(len(mj))] for i in range(len(mj))]
            if share != want:
                bad.append("gate objects shared between jobs %r, model %r" % (share, want))
        elif name == "mids":
            share = [[bool(set(a) & set(b)) for b in keys] for a in keys]
            want = [[mcls[i] == mcls[j] for j in range(len(mj))] for i in range(len(mj))]
            if share != want:
                soft.append("measurement result objects shared between jobs %r, model %r" % (share, want))
        elif classes(keys) != mcls:
            bad.append("circuit objects per job %r, model addresses %r" % (classes(keys), [m["circ"] for m in mj]))
    for j, (m, r) in enumerate(zip(mj, rows)):
        if m["copyFrom"] is None:
            if r["is_caller"] != m["circ"] or r["copy_src"] is not None:
                bad.append("job %d works on %s, model: the caller's object %d" % (j, "a copy" if r["copy_src"] is not None else "object %r" % r["is_caller"], m["circ"]))
        else:
            if r["is_caller"] is not None or r["copy_src"] != m["copyFrom"] or r["copy_deep"] is not True:
                bad.append("job %d: observed object (caller's: %r, copy of: %r, deep: %r), model: deep copy of object %d" % (j, r["is_caller"], r["copy_src"], r["copy_deep"], m["copyFrom"]))
            caller_g = set(id(g) for g in ob["caller"][m["copyFrom"]].queue)
            if set(r["gids"]) & caller_g:
                bad.append("job %d shares gate objects with the caller's circuit" % j)
        want_set = [v for _, v in m["set"]]
        if (r["set"] or []) != want_set or (r["set"] is not None and not r["set_on_own"]):
            bad.append("job %d wrote parameters %r (on its own object: %r), model %r" % (j, r["set"], r["set_on_own"], want_set))
        if r["own_input"] is not None and sc["helper"] == "PP" and r["own_input"] != m["own"]:
            # informative only: without in-place writes by the gates a shared input array is harmless
            soft.append("job %d: private copy of the initial state %r, model %r" % (j, r["own_input"], m["own"]))
        if sc["helper"] != "PP":
            st = jobs[j]["state"]
            src = ob["states"]
            want_obj = None if src is None else (src[j] if isinstance(src, list) else src)
            if st is not want_obj:
                bad.append("job %d was not handed the caller's state object %d" % (j, j))
        got = input_tag(sc, j) + r["reads"]
        if ans["R"][j] != got:
            bad.append("job %d: gates read %r, model (observed schedule) %r" % (j, got, ans["R"][j]))
        if ans["X"][j] != got or ans["Q"][j] != got:
            bad.append("job %d: gates read %r, sequential loop %r, closed form %r" % (j, got, ans["Q"][j], ans["X"][j]))
        if r["enter"] != r["exit"]:
            bad.append("job %d: parameters of its circuit changed during its execution (%r -> %r)" % (j, r["enter"], r["exit"]))
    if ans["D"] != "1" or ans["C"] != "1":
        bad.append("model: disciplined=%s complete=%s" % (ans["D"], ans["C"]))
    # heap after the run
    if sc["helper"] == "PP":
        objs = [ob["caller"][0]] + [s["circuit"] for s in jobs]
    else:
        objs = ob["caller"]
    if len(objs) == len(ans["heap"]):
        for a, (c, cell) in enumerate(zip(objs, ans["heap"])):
            if slot_values(c) != cell["params"]:
                bad.append("object %d has parameters %r after the run, model %r" % (a, slot_values(c), cell["params"]))
            if ob["ts"].forced == 0:
                fin = next((j for j, s in enumerate(jobs) if c._final_state is s["result"]), None)
                if c._final_state is not None and fin is None and sc["helper"] == "PP" and a == 0:
                    fin = "other"
                if fin != cell["final"] and not (sc["helper"] == "PP" and a == 0 and c._final_state is ob["before_final"][0]):
                    bad.append("object %d: _final_state is the result of job %r, model %r" % (a, fin, cell["final"]))
    else:
        bad.append("%d objects, model heap %d" % (len(objs), len(ans["heap"])))
    return bad


def replay(sc):
    return PAR_SRC + f"""
sc = {sc!r}
ob = run_scenario(sc)
why = property_check(sc, ob)
print(why)
raise SystemExit(1 if why else 0)
"""


def hand_negative(ctx):
    """the model's witness without the copy, and the same steps by hand on ONE real circuit:
    set(job 0) ; set(job 1) ; execute(job 0's turn) gives job 1's parameters."""
    spec = {"n": 1, "gates": [["RY", [0], 1, True], ["H", [0], None, False], ["RX", [0], 2, True]], "measure": None}
    params = [[11, 12], [21, 22]]
    # model: PS with the schedule set0 set0 set1 set1 then the rest
    sched = [0, 0, 1, 1] + [0] * 5 + [1] * 5
    sc = {"helper": "PS", "spec": spec, "params": params, "sid": None}
    out = run_driver([model_line(sc, sched)], driver=DRIVER)[0]
    ans = parse_answer(out)
    c = pbuild(spec)
    be = NumpyBackend()
    c.set_parameters(np.array(params[0], dtype=float))
    c.set_parameters(np.array(params[1], dtype=float))
    reads0 = slot_values(c)
    r0 = be.execute_circuit(c)
    reads1 = slot_values(c)
    ok = ans["D"] == "0" and ans["R"] == [reads0, reads1] and ans["Q"] != ans["R"]
    ref = be.execute_circuit(pbuild(spec, params[1]))
    ok = ok and np.allclose(r0.state(), ref.state(), atol=1e-12)
    ctx.case(("parallel-model-negative",))
    return ok, f"model {ans['R']} / sequential {ans['Q']} / by hand {[reads0, reads1]} / D={ans['D']}"


def tape_suite(ctx):
    """repeated executions inside the helpers: the order in which the jobs consume the ONE global
    generator (model: tapeRun, driver command PT), and same seed + one worker = the plain loop."""
    rng = ctx.rng
    lines, wants, bad_seed, bad_part, part_msg = [], [], 0, 0, ""
    for rep in range(5 if ctx.thorough else 2):
        for k in [1, 2, 3]:
            n = rng.choice([1, 2])
            nobj = rng.randint(1, 2)
            descs = [{"n": n, "theta": round(rng.uniform(0.4, 2.6), 3),
                      "chans": [[rng.randrange(n), rng.choice(["X", "Y", "Z"]), rng.choice([0.3, 0.5])] for _ in range(rng.randint(1, 2))],
                      "measure": rng.sample(range(n), rng.randint(1, n))} for _ in range(nobj)]
            addrs = [rng.randrange(nobj) for _ in range(rng.randint(2, 4))]
            nshots = rng.randint(1, 4)
            seed = rng.randrange(10 ** 6)
            be, ts, res = run_noisy(descs, addrs, nshots, k, seed, ["random", "roundrobin"][rep % 2])
            ctx.case(("parallel-tape", json.dumps(descs), tuple(addrs), nshots, k))
            ctx.stat("partape_k%d" % k)
            segs = {id(s2["result"]): s2 for s2 in be.segments if "result" in s2}
            jobs = [segs.get(id(r)) for r in res]
            if any(j is None for j in jobs) or len(segs) != len(res):
                lines.append("PT 0 0")
                wants.append("malformed observation")
                continue
            index = {id(s2): j for j, s2 in enumerate(jobs)}
            sched = [index[id(rec)] for rec, kind in ts.log if kind in ("gate", "draw") and id(rec) in index]
            lines.append("PT %d %s %s" % (len(jobs), " ".join(_nl(j.get("steps", [])) for j in jobs), _nl(sched)))
            wants.append(" ; ".join(" ".join(str(x) for x in j.get("draws", [])) for j in jobs))
            # every job drew nshots * (channels + 1) times and returns nshots rows
            for j, (r, a) in enumerate(zip(res, addrs)):
                want_d = nshots * (len(descs[a]["chans"]) + 1)
                if len(jobs[j].get("draws", [])) != want_d or len(r.samples(binary=False)) != nshots:
                    wants[-1] = "job %d drew %d times (expected %d)" % (j, len(jobs[j].get("draws", [])), want_d)
            # conclusions of T14_par_tape_partition / _in_order on the real run: the answers of the ONE
            # generator are handed out without gap or repetition, each job sees its own in stream order
            alld = [x for j in jobs for x in j.get("draws", [])]
            if sorted(alld) != list(range(len(alld))) or any(list(j.get("draws", [])) != sorted(j.get("draws", [])) for j in jobs):
                bad_part += 1
                ctx.fail("parallel-tape:partition",
                         f"answers of the global generator are not partitioned among the parallel jobs in stream order: {[list(j.get('draws', [])) for j in jobs]} (circuits {descs}, jobs {addrs}, nshots {nshots}, workers {k}, seed {seed})",
                         PAR_SRC + f"\nbe, ts, res = run_noisy({descs!r}, {addrs!r}, {nshots}, {k}, {seed}, {['random', 'roundrobin'][rep % 2]!r})\nd = sorted(x for s2 in be.segments if 'result' in s2 for x in s2.get('draws', []))\nraise SystemExit(0 if d == list(range(len(d))) else 1)\n",
                         expected="a partition of 0..N-1, increasing per job", observed=str([list(j.get('draws', [])) for j in jobs])[:300],
                         broken=["C14_search_parallel_tape_partition"])
                part_msg = part_msg or f"draw positions per job {[list(j.get('draws', [])) for j in jobs]} (circuits {descs}, jobs {addrs}, nshots {nshots}, workers {k})"
            # same seed, one worker
            for helper in (("circuits", "execution") if (k == 1 and rep == 0) else ("circuits",)):
                if helper == "execution":  # 1000 shots per job (the helper has no nshots argument)
                    addrs = addrs[:2]
                a, b = seeded_noisy(descs, addrs, nshots, seed, helper)
                ctx.case(("parallel-seed-repeated", helper, seed))
                if a != b:
                    bad_seed += 1
                    ctx.fail("parallel-seed:repeated-execution",
                             f"same seed, one worker: parallel_{'circuits_' if helper == 'circuits' else ''}execution over repeated-execution circuits gives other samples than the plain loop over fresh circuits (circuits {descs}, jobs {addrs}, nshots {nshots}, seed {seed})",
                             PAR_SRC + f"\na, b = seeded_noisy({descs!r}, {addrs!r}, {nshots}, {seed}, {helper!r})\nraise SystemExit(0 if a == b else 1)\n",
                             expected=str(b)[:300], observed=str(a)[:300], broken=["C14_search_parallel_seed_repeated"])
    outs = run_driver(lines, driver=DRIVER) if lines else []
    bad = [(w, o) for w, o in zip(wants, outs) if o.split(" # ")[0].strip() != w.strip()]
    ctx.ob("C14_corr_parallel_tape", not bad, "correspondence",
           f"{len(bad)} runs: positions of the generator's answers per job {bad[0][0]!r}, model {bad[0][1]!r}" if bad else "")
    ctx.ob("C14_search_parallel_tape_partition", bad_part == 0, "search",
           f"{bad_part} runs where the generator's answers are not partitioned among the jobs in stream order: {part_msg}" if bad_part else "")
    ctx.ob("C14_search_parallel_seed_repeated", bad_seed == 0, "search", f"{bad_seed} seeded one-worker runs differ from the plain loop" if bad_seed else "")


def run_suites(ctx):
    tape_suite(ctx)
    rng = ctx.rng
    scs = scenarios(rng, ctx.thorough)
    lines, obs = [], []
    bad_search = 0
    malformed = []
    for sc in scs:
        try:
            ob = run_scenario(sc)
        except Exception as e:  # the real helper raised
            bad_search += 1
            ctx.fail("parallel-schedule:%s:raises" % sc["helper"], f"{sc['helper']} with processes={sc['k']} raises {e!r} (scenario {sc})",
                     replay(sc), broken=["C14_search_parallel_schedules"])
            continue
        ctx.case(("parallel-model", json.dumps(sc, sort_keys=True)))
        ctx.stat("parmodel_%s_k%s_%s" % (sc["helper"], sc["k"], sc["policy"]))
        ctx.stat("parmodel_forced_grants", ob["ts"].forced)
        why = property_check(sc, ob)
        if why:
            bad_search += 1
            ctx.fail("parallel-schedule:%s" % sc["helper"],
                     f"{ {'PX': 'parallel_execution', 'PC': 'parallel_circuits_execution', 'PP': 'parallel_parametrized_execution'}[sc['helper']]}"
                     f"(processes={sc['k']}) under the schedule policy '{sc['policy']}': {why} (scenario {sc})",
                     replay(sc), observed=why, broken=["C14_search_parallel_schedules", "C14_corr_parallel_model"])
        try:
            jobs, rows, sched = observe(sc, ob)
        except ValueError as e:
            malformed.append((sc, str(e)))
            continue
        lines.append(model_line(sc, sched))
        obs.append((sc, ob, jobs, rows, sched))
        ctx.stat("parmodel_steps", len(sched))
        # was the schedule a real interleaving?
        switches = sum(1 for a, b in zip(sched, sched[1:]) if a != b)
        ctx.stat("parmodel_switches", switches)
    outs = run_driver(lines, driver=DRIVER) if lines else []
    bad_corr = len(malformed)
    details = ["%s: %s" % (sc["helper"], e) for sc, e in malformed[:2]]
    bad_scs = [sc for sc, _ in malformed]
    for (sc, ob, jobs, rows, sched), out in zip(obs, outs):
        soft = []
        try:
            ans = parse_answer(out)
            diff = compare(sc, ob, jobs, rows, ans, soft)
        except Exception as e:
            diff = ["unreadable model answer %r (%s)" % (out[:120], e)]
        if soft:
            ctx.stat("parmodel_soft_differences")
            if ctx.stats.get("parmodel_soft_differences") == 1:
                ctx.log("parallel model, informative: " + "; ".join(soft[:2]))
        if diff:
            bad_corr += 1
            bad_scs.append(sc)
            if len(details) < 3:
                details.append("%s k=%s: %s" % (sc["helper"], sc["k"], "; ".join(diff[:3])))
                ctx.log("parallel model disagreement: %s scenario %s" % ("; ".join(diff[:4]), sc))
    if ctx.samples is not None and obs:
        sc, ob, jobs, rows, sched = obs[-1]
        ctx.sample({"scenario": {k: v for k, v in sc.items() if k != "spec"}, "schedule": sched, "reads": [r["reads"] for r in rows]})
    okn, detn = hand_negative(ctx)
    ctx.ob("C14_corr_parallel_model", bad_corr == 0, "correspondence",
           f"{bad_corr} of {len(scs)} runs of the real helpers disagree with the scheduler model: " + " | ".join(details) if bad_corr else "")
    ctx.ob("C14_corr_parallel_negative", okn, "correspondence", "" if okn else detn)
    ctx.ob("C14_search_parallel_schedules", bad_search == 0, "search",
           f"{bad_search} runs under an imposed schedule differ from the jobs run alone" if bad_search else "")
    if bad_corr and not bad_search and not ctx.failures:
        sc = bad_scs[0]
        ctx.fail("parallel-model-mismatch:%s" % sc["helper"],
                 "the real helper does not hand the workers the objects / parameters the scheduler model assumes: " + " | ".join(details),
                 replay(sc), observed=" | ".join(details), broken=["C14_corr_parallel_model"])
