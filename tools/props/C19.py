"""C19 — noise attachment is faithful and both noisy simulation modes agree.

Ingredients
  * theorems: lean/QV/Props/C19.lean (+C19b) about lean/QV/Model/Noise.lean; C19c about
    lean/QV/Model/NoiseIBMQ.lean (`IBMQNoiseModel.from_dict` inside the model, tied by
    tools/props/C19_ibmq.py through lean/DriverC19b.lean);
  * tie: random circuits x random rule lists through the REAL `NoiseModel.apply`,
    `IBMQNoiseModel.from_dict(...).apply` and `Circuit.with_pauli_noise` vs the Lean model
    (queue structure compared exactly); exact dyadic trajectories / density matrices through
    the REAL `UnitaryChannel.apply` / `apply_channel` / `apply_channel_density_matrix` vs
    the Lean model;
  * search on the real code: queue preservation / placement / counts / no mutation / second
    call, zero-strength noise, exact enumeration of all trajectories vs the density-matrix
    result, `execute_circuit_repeated` with a forced tape (exact) and with a seed
    (statistical).
"""
from __future__ import annotations

import itertools
import math

import numpy as np

from vlib.driver import run_driver
from vlib.proofs import build_and_audit, registry

PROP = "C19"
DRIVER = "DriverC19.lean"

# ---------------------------------------------------------------------------------------
# source-level description of a case (so that the replay is exactly what was run)
# ---------------------------------------------------------------------------------------

PRELUDE = """import numpy as np
from qibo import Circuit, gates, set_backend
from qibo.noise import *
set_backend("numpy")
I2 = np.eye(2); X = np.array([[0, 1], [1, 0]], dtype=complex); Z = np.diag([1, -1]).astype(complex)
Y = np.array([[0, -1j], [1j, 0]]); I4 = np.eye(4)
XX = np.kron(X, X); ZZ = np.kron(Z, Z); XZ = np.kron(X, Z); ZX = np.kron(Z, X); YI = np.kron(Y, I2)
def P2(a, b): return np.array([[1 - a, a], [b, 1 - b]])
def show(c): return [(g.__class__.__name__, tuple(sorted(g.qubits)) if isinstance(g, gates.Channel) else tuple(g.qubits)) for g in c.queue]
"""

GATE_CLASSES = ["H", "X", "Y", "Z", "S", "T", "RX", "RY", "RZ", "U3", "CNOT", "CZ", "SWAP", "CRX", "fSim",
                "TOFFOLI", "Unitary", "M", "PauliNoiseChannel", "DepolarizingChannel", "UnitaryChannel",
                "KrausChannel", "ResetChannel", "I", "iSWAP", "ReadoutErrorChannel", "AmplitudeDampingChannel",
                "PhaseDampingChannel", "ThermalRelaxationChannel", "Align", "GPI2", "RZZ", "CY", "SX"]
CLS_CODE = {n: i for i, n in enumerate(GATE_CLASSES)}

KIND = {"kraus": 0, "unitary": 1, "pauli": 2, "depol": 3, "thermal": 4, "ampdamp": 5, "phasedamp": 6,
        "readout": 7, "reset": 8, "custom": 9}
KIND_CLASS = {0: "KrausChannel", 1: "UnitaryChannel", 2: "PauliNoiseChannel", 3: "DepolarizingChannel",
              4: "ThermalRelaxationChannel", 5: "AmplitudeDampingChannel", 6: "PhaseDampingChannel",
              7: "ReadoutErrorChannel", 8: "ResetChannel"}


def _q(qs):
    return ", ".join(str(q) for q in qs)


def gen_gate(rng, n, allow_m=True, allow_chan=True, unitary_only=False):
    """source string of one gate on an n-qubit register."""
    one = ["H", "X", "Y", "Z", "S", "T", "SX"]
    one_p = ["RX", "RY", "RZ", "GPI2"]
    two = ["CNOT", "CZ", "SWAP", "iSWAP", "CY"]
    two_p = ["CRX", "RZZ"]
    r = rng.random()
    if allow_m and r < 0.14:
        k = rng.choice([1, 1, 2, 2, 3]) if n >= 3 else rng.randint(1, n)
        qs = rng.sample(range(n), min(k, n))
        opt = rng.random()
        extra = ""
        if opt < 0.12:
            extra = ", collapse=True"
        elif opt < 0.22:
            extra = ", basis=gates.X"
        return f"gates.M({_q(qs)}{extra})"
    if allow_chan and r < 0.22 and not unitary_only:
        q = rng.randrange(n)
        c = rng.choice(["pn", "dep", "reset"])
        if c == "pn":
            return f"gates.PauliNoiseChannel({q}, [('Z', 0.0625)])"
        if c == "dep":
            qs = rng.sample(range(n), min(n, rng.randint(1, 2)))
            return f"gates.DepolarizingChannel(({_q(qs)},), 0.125)"
        return f"gates.ResetChannel({q}, [0.125, 0.25])"
    if n >= 3 and r < 0.30:
        qs = rng.sample(range(n), 3)
        if rng.random() < 0.5:
            return f"gates.TOFFOLI({_q(qs)})"
        base = rng.choice([f"gates.X({qs[0]})", f"gates.Z({qs[0]})", f"gates.RX({qs[0]}, theta=0.75)"])
        return base + f".controlled_by({qs[1]}, {qs[2]})"
    if n >= 2 and r < 0.62:
        qs = rng.sample(range(n), 2)
        if rng.random() < 0.3:
            return f"gates.{rng.choice(two_p)}({_q(qs)}, theta={rng.choice([0.5, 1.25, -2.0])})"
        if rng.random() < 0.15:
            return f"gates.H({qs[0]}).controlled_by({qs[1]})"
        if rng.random() < 0.1:
            return f"gates.Unitary(XZ, {_q(qs)})"
        return f"gates.{rng.choice(two)}({_q(qs)})"
    q = rng.randrange(n)
    if rng.random() < 0.35:
        name = rng.choice(one_p)
        arg = "phi" if name == "GPI2" else "theta"
        return f"gates.{name}({q}, {arg}={rng.choice([0.5, 1.25, -2.0, math.pi / 2])})"
    return f"gates.{rng.choice(one)}({q})"


def gen_circuit(rng, n, length, **kw):
    return [gen_gate(rng, n, **kw) for _ in range(length)]


def cond_src(code, args):
    if code == 0:
        return f"lambda g: len(g.qubits) == {args[0]}"
    if code == 1:
        return f"lambda g: g.qubits == ({_q(args)},)"
    if code == 2:
        return "lambda g: False"
    if code == 3:
        return "lambda g: g.qubits[0] % 2 == 0"
    if code == 4:
        return f"lambda g: sum(g.qubits) >= {args[0]}"
    return f"lambda g: {args[0]} in g.qubits"


def gen_rule(rng, n, idx, keys, zero=False, kinds=None):
    """one rule: dict(key, kind, kargs, filt, conds, err (source), params).  Strengths are
    distinct per rule (idx) so a channel identifies its rule."""
    p = 0.0 if zero else (idx + 1) / 64.0
    kind = rng.choice(kinds or list(KIND))
    key = rng.choice(keys)
    filt = None
    conds = []
    f = rng.random()
    if f < 0.25:
        filt = rng.randrange(n)
    elif f < 0.5:
        filt = tuple(rng.sample(range(n), rng.randint(1, min(n, 3))))
    elif f < 0.58:
        filt = ()  # a rule restricted to NO qubit: it never applies (empty intersection with every gate)
    nfq = None if filt is None else (1 if isinstance(filt, int) else len(filt))
    for _ in range(rng.choice([0, 0, 0, 1, 1, 2])):
        code = rng.choice([0, 0, 1, 2, 3, 4, 5])
        if code == 0:
            args = [rng.randint(1, 3)]
        elif code == 1:
            args = rng.sample(range(n), rng.randint(1, min(n, 2)))
        elif code == 4:
            args = [rng.randint(0, n)]
        elif code == 5:
            args = [rng.randrange(n)]
        else:
            args = []
        conds.append((code, args))
    rule = {"key": key, "kind": KIND[kind], "kargs": [], "filt": filt, "conds": conds, "single": False}
    multi_filtered = nfq is not None and nfq >= 2  # operators must be symmetric under qubit swap
    if kind == "pauli":
        ops = rng.choice([[("X", p)], [("X", p), ("Z", p / 2)], [("Y", p / 2), ("Z", p / 4), ("X", p / 8)]])
        rule["params"] = ops
        rule["err"] = f"PauliError({ops!r})"
    elif kind == "depol":
        rule["params"] = p
        rule["err"] = f"DepolarizingError({p!r})"
    elif kind == "thermal":
        t = [1.0 + idx, 0.5 + idx * 0.75, 0.0 if zero else 0.25 * (idx + 1), rng.choice([0, 0.25])]
        if rng.random() < 0.3:
            t[1] = t[0] * 1.5  # t1 < t2 branch
        rule["params"] = t
        rule["err"] = f"ThermalRelaxationError({t[0]!r}, {t[1]!r}, {t[2]!r}, {t[3]!r})"
    elif kind in ("ampdamp", "phasedamp"):
        rule["params"] = float(p)
        rule["err"] = f"{'AmplitudeDampingError' if kind == 'ampdamp' else 'PhaseDampingError'}({float(p)!r})"
    elif kind == "reset":
        rule["params"] = [p, p / 2]
        rule["err"] = f"ResetError({p!r}, {p / 2!r})"
    elif kind == "unitary":
        k = rng.choice([1, 1, 2])
        rule["kargs"] = [k]
        if k == 1:
            names = rng.choice([["X"], ["X", "Z"], ["Y", "Z", "X"]])
        elif multi_filtered:
            names = rng.choice([["XX"], ["XX", "ZZ"]])
        else:
            names = rng.choice([["XZ"], ["XZ", "YI"], ["XX", "ZX"]])
        probs = [p / (2**j) for j in range(len(names))]
        rule["params"] = (probs, names)
        rule["err"] = f"UnitaryError({probs!r}, [{', '.join(names)}])"
    elif kind == "kraus":
        k = rng.choice([1, 1, 2])
        rule["kargs"] = [k]
        s0, s1 = math.sqrt(1 - p), math.sqrt(p)
        if k == 1:
            names = rng.choice([("I2", "X"), ("I2", "Z")])
        elif multi_filtered:
            names = rng.choice([("I4", "XX"), ("I4", "ZZ")])
        else:
            names = rng.choice([("I4", "XZ"), ("I4", "YI")])
        rule["params"] = ((s0, s1), names)
        rule["err"] = f"KrausError([{s0!r} * {names[0]}, {s1!r} * {names[1]}])"
    elif kind == "readout":
        # the channel needs a 2^k x 2^k matrix for the k qubits it ends on: fix k by construction
        a, b = p, p / 2
        if rng.random() < 0.6 or n == 1:
            k = 1
            if rng.random() < 0.5:
                rule["filt"] = rng.randrange(n)
                rule["conds"] = [c for c in conds if c[0] != 0]
            else:
                rule["filt"] = None
                rule["conds"] = [(0, [1])] + [c for c in conds if c[0] != 0][:1]
            rule["params"] = ("P2", a, b, 1)
            rule["err"] = f"ReadoutError(P2({a!r}, {b!r}))"
        else:
            k = 2
            if rng.random() < 0.5:
                qs = rng.sample(range(n), 2)
                rule["filt"] = tuple(qs)
                rule["conds"] = [(5, [qs[0]]), (5, [qs[1]])]
                rule["params"] = ("P2", a, a, 2)  # symmetric
                rule["err"] = f"ReadoutError(np.kron(P2({a!r}, {a!r}), P2({a!r}, {a!r})))"
                rule["params"] = ("P2s", a, a, 2)
            else:
                rule["filt"] = None
                rule["conds"] = [(0, [2])]
                rule["params"] = ("P2a", a, b, 2)
                rule["err"] = f"ReadoutError(np.kron(P2({a!r}, {b!r}), P2({b!r}, {a!r})))"
    elif kind == "custom":
        qs = rng.sample(range(n), rng.randint(1, min(2, n)))
        rule["kargs"] = list(qs)
        rule["params"] = (tuple(qs), p)
        rule["err"] = f"CustomError(gates.DepolarizingChannel(({_q(qs)},), {p!r}))"
    if len(rule["conds"]) == 1 and rng.random() < 0.5:
        rule["single"] = True  # pass the callable itself, not a list
    rule["filt_src"] = filt_source(rng, rule["filt"])
    return rule


def filt_source(rng, filt):
    """the `qubits=` argument in one of the collection forms `NoiseModel.add` is given in practice: a single
    int, a tuple, a list, a set / frozenset, a range (contiguous ascending ids); the EMPTY collection in
    every form.  They all denote the same set of qubits."""
    if filt is None:
        return None
    if isinstance(filt, int):
        return str(filt)
    fl = list(filt)
    if not fl:
        return rng.choice(["()", "[]", "range(0)", "set()", "frozenset()", "range(2, 2)"])
    # (numpy integers are not generated: qibo's gates themselves reject numpy integers as qubit ids)
    forms = [f"({_q(fl)},)", f"({_q(fl)},)", f"[{_q(fl)}]", "{" + _q(fl) + "}", "frozenset({" + _q(fl) + "})"]
    if fl == list(range(fl[0], fl[0] + len(fl))):
        forms += [f"range({fl[0]}, {fl[0] + len(fl)})"] * 2
    return rng.choice(forms)


def rule_add_src(rule):
    parts = [rule["err"]]
    if rule["key"] is not None:
        parts.append(f"gates.{rule['key']}")
    if rule["filt"] is not None:
        f = rule["filt"]
        parts.append(f"qubits={rule.get('filt_src') or (f if isinstance(f, int) else '(' + _q(f) + ',)')}")
    if rule["conds"]:
        cs = [cond_src(c, a) for c, a in rule["conds"]]
        parts.append("conditions=" + (f"({cs[0]})" if rule["single"] else "[" + ", ".join(cs) + "]"))
    return "nm.add(" + ", ".join(parts) + ")"


def case_source(n, dm, gate_srcs, rules, model_cls="NoiseModel"):
    lines = [f"c = Circuit({n}, density_matrix={dm})"]
    lines += [f"c.add({g})" for g in gate_srcs]
    lines.append(f"nm = {model_cls}()")
    lines += [rule_add_src(r) for r in rules]
    return "\n".join(lines) + "\n"


def run_source(src):
    ns = {}
    exec(PRELUDE + src, ns)  # noqa: S102 - the source is generated above
    return ns


# ---------------------------------------------------------------------------------------
# observation of real queues
# ---------------------------------------------------------------------------------------


def _mat_fp(gate, nb):
    try:
        m = np.asarray(gate.matrix(nb))
    except Exception:  # noqa: BLE001
        return ("nomatrix",)
    return (m.shape, (np.round(m, 9) + 0.0).tobytes())


def chan_order(ch):
    name = ch.__class__.__name__
    if name == "DepolarizingChannel":
        return tuple(ch.target_qubits)
    if name == "PauliNoiseChannel":
        a = ch.init_args
        return tuple(a) if isinstance(a, (tuple, list)) else (a,)
    qs = [tuple(g.qubits) for g in ch.gates]
    return qs[0] if all(q == qs[0] for q in qs) else tuple(qs)


def desc(g, nb):
    """API-level description of a queue element."""
    from qibo import gates

    if isinstance(g, gates.Channel):
        coeffs = tuple(round(float(np.real(c)), 10) + 0.0 for c in g.coefficients)
        return ("chan", g.__class__.__name__, chan_order(g), coeffs, tuple(_mat_fp(u, nb) for u in g.gates))
    params = tuple(round(float(p), 10) if isinstance(p, (int, float)) else "arr" for p in g.parameters)
    extra = ()
    if isinstance(g, gates.M):
        extra = (g.register_name, tuple(b.__class__.__name__ for b in g.basis))
    return ("gate", g.__class__.__name__, tuple(g.qubits), params, extra)


def canon(d):
    """order-insensitive form of a channel description (for filtered rules, whose qubit
    order comes from a Python set)."""
    if d[0] != "chan":
        return d
    order = d[2]
    flat = tuple(sorted(set(q for x in order for q in (x if isinstance(x, tuple) else (x,)))))
    if d[1] == "DepolarizingChannel":  # its operator list is enumerated in the order of the qubits
        return (d[0], d[1], flat, tuple(sorted(d[3])), len(d[4]))
    return (d[0], d[1], flat, d[3], d[4])


def expected_channel(rule, qs, ns):
    """the channel the rule prescribes on the ordered qubits qs, built directly with the
    channel constructors (independent of qibo.noise)."""
    from qibo import gates

    k = rule["kind"]
    p = rule["params"]
    if k == KIND["pauli"]:
        return gates.PauliNoiseChannel(qs[0], list(p))
    if k == KIND["depol"]:
        return gates.DepolarizingChannel(tuple(qs), p)
    if k == KIND["thermal"]:
        return gates.ThermalRelaxationChannel(qs[0], list(p))
    if k == KIND["ampdamp"]:
        return gates.AmplitudeDampingChannel(qs[0], p)
    if k == KIND["phasedamp"]:
        return gates.PhaseDampingChannel(qs[0], p)
    if k == KIND["reset"]:
        return gates.ResetChannel(qs[0], list(p))
    if k == KIND["unitary"]:
        probs, names = p
        return gates.UnitaryChannel(tuple(qs), list(zip(probs, [ns[m] for m in names])))
    if k == KIND["kraus"]:
        (s0, s1), names = p
        return gates.KrausChannel(tuple(qs), [s0 * ns[names[0]], s1 * ns[names[1]]])
    if k == KIND["readout"]:
        tag, a, b, kk = p
        P2 = ns["P2"]
        if kk == 1:
            P = P2(a, b)
        elif tag == "P2s":
            P = np.kron(P2(a, a), P2(a, a))
        else:
            P = np.kron(P2(a, b), P2(b, a))
        return gates.ReadoutErrorChannel(tuple(qs), P)
    if k == KIND["custom"]:
        cq, lam = p
        return gates.DepolarizingChannel(tuple(cq), lam)
    raise ValueError(k)


def gate_tokens(g):
    from qibo import gates

    name = g.__class__.__name__
    if name not in CLS_CODE:
        CLS_CODE[name] = len(CLS_CODE)
    qs = list(g.qubits)
    return f"{CLS_CODE[name]} {len(qs)} {' '.join(map(str, qs))} {int(isinstance(g, gates.M))} {int(isinstance(g, gates.Channel))}".replace("  ", " ")


def rule_tokens(rule):
    key = -1 if rule["key"] is None else CLS_CODE[rule["key"]]
    a = rule["kargs"]
    f = rule["filt"]
    if f is None:
        ft = "-1"
    else:
        fl = [f] if isinstance(f, int) else list(f)
        ft = f"{len(fl)} {' '.join(map(str, fl))}"
    ct = " ".join(f"{c} {len(args)} {' '.join(map(str, args))}".strip() for c, args in rule["conds"])
    return " ".join(x for x in [str(key), str(rule["kind"]), str(len(a)), " ".join(map(str, a)), ft, str(len(rule["conds"])), ct] if x != "")


def apply_line(real_gates, rules):
    return " ".join(["APPLY", str(len(real_gates))] + [gate_tokens(g) for g in real_gates] + [str(len(rules))] + [rule_tokens(r) for r in rules])


def parse_items(out):
    items = []
    for t in out.split():
        if t[0] == "G":
            items.append(("G", int(t[1:])))
        else:
            r, k, qs = t[1:].split(":")
            items.append(("C", int(r), int(k), tuple(int(x) for x in qs.split(",") if x != "")))
    return items


def compare_queue(real_queue, items, in_gates, rules, ns, nb):
    """None if the real noisy queue is what the model prescribes, else a message."""
    exp = []
    groups = []  # (start, length, unordered)
    i = 0
    while i < len(items):
        it = items[i]
        if it[0] == "G":
            exp.append(desc(in_gates[it[1]], nb))
            i += 1
            continue
        j = i
        while j < len(items) and items[j][0] == "C" and items[j][1] == it[1]:
            j += 1
        rule = rules[it[1]]
        start = len(exp)
        for x in items[i:j]:
            exp.append(desc(expected_channel(rule, x[3], ns), nb))
        groups.append((start, j - i, rule.get("unordered", rule["filt"] is not None)))
        i = j
    real = [desc(g, nb) for g in real_queue]
    if len(real) != len(exp):
        return f"length {len(real)} != {len(exp)}", real, exp
    covered = set()
    for start, length, unordered in groups:
        covered.update(range(start, start + length))
        a, b = real[start:start + length], exp[start:start + length]
        if unordered:
            a, b = sorted(map(canon, a), key=repr), sorted(map(canon, b), key=repr)
        if a != b:
            return f"channels at positions {start}..{start + length - 1} differ", real, exp
    for k in range(len(exp)):
        if k not in covered and real[k] != exp[k]:
            return f"position {k} differs", real, exp
    return None


def desc_is_channel(g):
    from qibo import gates

    return isinstance(g, gates.Channel)


def short(descs):
    return [(d[1], d[2]) for d in descs]


# ---------------------------------------------------------------------------------------
# direct properties of a real noisy queue (no model involved)
# ---------------------------------------------------------------------------------------


def snapshot(c):
    from qibo import gates

    out = []
    for g in c.queue:
        ps = tuple(np.asarray(p, dtype=complex).tobytes() if not isinstance(p, (int, float)) else p for p in g.parameters)
        item = [id(g), g.__class__.__name__, tuple(g.qubits), tuple(g.control_qubits), tuple(g.target_qubits), ps]
        if isinstance(g, gates.M):
            item += [g.collapse, g.register_name, tuple(id(b) for b in g.basis)]
        if isinstance(g, gates.Channel):
            item += [tuple(float(np.real(x)) for x in g.coefficients), len(g.gates)]
        out.append(tuple(item))
    return (tuple(out), tuple(id(m) for m in c.measurements), c.has_collapse, c.has_unitary_channel, c.nqubits,
            bool(c.density_matrix))


def direct_properties(c, noisy, rules, nb):
    """failures (key, message) of the property itself on one real (circuit, noisy circuit);
    no model involved.  An element of the noisy queue counts as the next input gate if it is
    that object or an equal copy of it."""
    from qibo import gates

    fails = []
    inq = list(c.queue)
    q = list(noisy.queue)
    kept_pos = []  # positions in q of the input gates, in order
    j = 0
    for pos, g in enumerate(q):
        if j < len(inq) and (g is inq[j] or (not any(g is h for h in inq) and desc(g, nb) == desc(inq[j], nb))):
            kept_pos.append(pos)
            j += 1
    extra = [g for pos, g in enumerate(q) if pos not in set(kept_pos)]
    if j < len(inq):
        if any(any(g is h for h in inq) for g in extra):
            fails.append(("apply:gate-order", f"input gates reordered or repeated: {[g.__class__.__name__ for g in q]}"))
        else:
            fails.append(("apply:gate-dropped", f"input gate {inq[j].__class__.__name__}{inq[j].qubits} (position {j}) is missing"))
        return fails
    dup = [g for g in extra if any(g is h for h in inq) or not isinstance(g, gates.Channel)]
    if dup:
        fails.append(("apply:gate-duplicated", f"gates that are not prescribed channels appear: {[(g.__class__.__name__, g.qubits) for g in dup]}"))
        return fails
    # placement: every inserted channel sits between its trigger and the next/previous input gate
    kept = set(kept_pos)
    for pos, g in enumerate(q):
        if pos in kept:
            continue
        if isinstance(g, gates.ReadoutErrorChannel):
            trig = next((q[k] for k in range(pos + 1, len(q)) if k in kept), None)
        else:
            trig = next((q[k] for k in range(pos - 1, -1, -1) if k in kept), None)
        if trig is None:
            fails.append(("apply:placement", f"channel {g.__class__.__name__}{g.qubits} at {pos} has no trigger gate"))
            continue
        is_custom = any(r["kind"] == KIND["custom"] and tuple(sorted(r["kargs"])) == tuple(sorted(g.qubits)) for r in rules)
        if not set(g.qubits) <= set(trig.qubits) and not is_custom:
            fails.append(("apply:placement", f"channel {g.__class__.__name__}{g.qubits} at {pos} is not on the qubits of its trigger {trig.__class__.__name__}{trig.qubits}"))
    return fails


# ---------------------------------------------------------------------------------------
# suites
# ---------------------------------------------------------------------------------------


def classify_apply_failure(c_gates, rules, real_descs, exp_descs):
    """stable key for a disagreement on NoiseModel.apply."""
    from qibo import gates

    rg = [d for d in real_descs if d[0] == "gate"]
    eg = [d for d in exp_descs if d[0] == "gate"]
    has_readout = any(r["kind"] == KIND["readout"] for r in rules)
    nm_real = sum(1 for d in rg if d[1] == "M")
    nm_exp = sum(1 for d in eg if d[1] == "M")
    if has_readout:
        if nm_real > nm_exp:
            nread = sum(1 for r in rules if r["kind"] == KIND["readout"])
            return "readout:multi-rule" if nread >= 2 and all(r["kind"] == KIND["readout"] or r["key"] != "M" for r in rules) else "apply:M-duplicated"
        if len(rg) < len(eg):
            return "readout:gate-dropped"
        if rg == eg and sorted(map(repr, map(canon, real_descs))) == sorted(map(repr, map(canon, exp_descs))):
            return "readout:order"
    if nm_real > nm_exp:
        return "apply:M-duplicated"
    if len(rg) < len(eg):
        return "apply:gate-dropped"
    if len(rg) > len(eg):
        return "apply:gate-duplicated"
    if rg != eg:
        return "apply:gate-order"
    return "apply:channels"


def replay_apply(src, expected):
    return (PRELUDE + src + "noisy = nm.apply(c)\n"
            f"expected = {expected!r}\n"
            "print(show(noisy)); print(expected)\n"
            "assert show(noisy) == expected, 'noisy queue is not the prescribed one'\n")


def exp_show(items, in_gates, rules, ns):
    out = []
    for it in items:
        if it[0] == "G":
            g = in_gates[it[1]]
            out.append((g.__class__.__name__, tuple(sorted(g.qubits)) if desc_is_channel(g) else tuple(g.qubits)))
        else:
            ch = expected_channel(rules[it[1]], it[3], ns)
            out.append((ch.__class__.__name__, tuple(sorted(ch.qubits))))
    return out


def apply_suite(ctx, nb):
    """random circuits x random rule lists through the real NoiseModel.apply vs the model."""
    rng = ctx.rng
    ncases = 900 if ctx.thorough else 260
    cases = []
    # boundary cases first: no rules, rules on absent classes, the DESIGN F23 input class
    fixed = [
        (2, True, ["gates.H(0)", "gates.M(0, 1)"],
         [dict(key="M", kind=7, kargs=[], filt=0, conds=[], single=False, params=("P2", 0.125, 0.0625, 1), err="ReadoutError(P2(0.125, 0.0625))"),
          dict(key="M", kind=7, kargs=[], filt=1, conds=[], single=False, params=("P2", 0.25, 0.125, 1), err="ReadoutError(P2(0.25, 0.125))")]),
        (2, True, ["gates.H(0)", "gates.H(1)"],
         [dict(key="H", kind=7, kargs=[], filt=1, conds=[], single=False, params=("P2", 0.125, 0.0625, 1), err="ReadoutError(P2(0.125, 0.0625))")]),
        (2, True, ["gates.H(0)", "gates.M(0, 1)"],
         [dict(key="M", kind=2, kargs=[], filt=None, conds=[], single=False, params=[("X", 0.125)], err="PauliError([('X', 0.125)])")]),
        (2, True, ["gates.X(1)", "gates.M(1)"],
         [dict(key="M", kind=2, kargs=[], filt=None, conds=[], single=False, params=[("X", 0.125)], err="PauliError([('X', 0.125)])"),
          dict(key="M", kind=7, kargs=[], filt=None, conds=[], single=False, params=("P2", 0.25, 0.125, 1), err="ReadoutError(P2(0.25, 0.125))")]),
        (3, False, ["gates.H(0)", "gates.CNOT(2, 0)", "gates.M(0, 2)"], []),
    ]
    for n, dm, gs, rules in fixed:
        cases.append((n, dm, gs, rules, "NoiseModel"))
    for _ in range(ncases):
        n = rng.choice([1, 2, 2, 3, 3, 3, 4, 5])
        gs = gen_circuit(rng, n, rng.randint(1, 7))
        present = sorted({g.split("(")[0].split(".")[1] for g in gs})
        keys = [None, None] + present + present + [rng.choice(GATE_CLASSES[:17])]
        rules = [gen_rule(rng, n, i, keys) for i in range(rng.choice([0, 1, 1, 2, 2, 3, 4, 6]))]
        cases.append((n, rng.random() < 0.6, gs, rules, "NoiseModel"))
    # gate kinds beyond plain gates: the blocks of a fused circuit (FusedGate, a SpecialGate: rules keyed by None DO apply to it,
    # rules keyed by the classes of the gates it absorbed do not) and a callback gate (no qubits: nothing is attached)
    special = set()
    for i in range(len(fixed), len(cases)):
        if len(cases[i][2]) >= 2 and rng.random() < 0.22:
            special.add(i)
            if not any(r["key"] is None for r in cases[i][3]):
                cases[i][3].append(gen_rule(rng, cases[i][0], len(cases[i][3]), [None]))
    built, lines = [], []
    for ci, (n, dm, gs, rules, mc) in enumerate(cases):
        src = case_source(n, dm, gs, rules, mc)
        if ci in special:
            posts = ["c = c.fuse()\n", "c = c.fuse(max_qubits=1)\n", "c = c.fuse()\n"]
            if not any(cd[0] == 3 for r in rules for cd in r["conds"]):  # (the generated condition `g.qubits[0] % 2 == 0` needs a qubit)
                posts.append("from qibo import callbacks\nc.add(gates.CallbackGate(callbacks.Norm()))\nc = c.fuse()\n")
            post = rng.choice(posts)
            src = src.replace(f"nm = {mc}()\n", post + f"nm = {mc}()\n", 1)
        try:
            ns = run_source(src)
        except Exception as e:  # noqa: BLE001 - an invalid generated circuit (e.g. duplicate register)
            ctx.stat("gen_invalid")
            continue
        c = ns["c"]
        for g in c.queue:
            if g.__class__.__name__ in ("FusedGate", "CallbackGate"):
                ctx.stat("apply_entry:" + g.__class__.__name__)
        built.append((src, ns, list(c.queue), rules))
        lines.append(apply_line(list(c.queue), rules))
    outs = run_driver(lines, driver=DRIVER)
    bad = 0
    mut_bad = 0
    for (src, ns, in_gates, rules), out in zip(built, outs):
        c, nm = ns["c"], ns["nm"]
        items = parse_items(out)
        before = snapshot(c)
        try:
            noisy = nm.apply(c)
        except Exception as e:  # noqa: BLE001
            bad += 1
            ctx.fail("apply:raises", f"NoiseModel.apply raises {type(e).__name__}: {e}", PRELUDE + src + "nm.apply(c)\n",
                     expected=str(exp_show(items, in_gates, rules, ns)), observed=repr(e), broken=["C19_corr_apply"])
            continue
        after = snapshot(c)
        nchan = sum(1 for it in items if it[0] == "C")
        ctx.case(("apply", src))
        ctx.stat(f"apply_rules{len(rules)}")
        ctx.stat("apply_inserted_channels", nchan)
        for r in rules:
            ctx.stat(f"apply_kind{r['kind']}")
        if len(ctx.samples) < 4 and nchan >= 2:
            ctx.sample({"kind": "apply", "source": src.splitlines(), "model": out})
        res = compare_queue(noisy.queue, items, in_gates, rules, ns, nb)
        if res is not None:
            bad += 1
            msg, real, exp = res
            key = classify_apply_failure(in_gates, rules, real, exp)
            ctx.fail(key, f"NoiseModel.apply: {msg}: got {short(real)}, prescribed {short(exp)}",
                     replay_apply(src, exp_show(items, in_gates, rules, ns)), expected=str(short(exp)), observed=str(short(real)),
                     broken=["C19_corr_apply"])
        else:
            for key, msg in direct_properties(c, noisy, rules, nb):
                bad += 1
                ctx.fail(key, msg, PRELUDE + src + "print(show(nm.apply(c)))\nraise SystemExit(1)\n", broken=["C19_corr_apply"])
        # no mutation of the caller's circuit / gates
        if after != before:
            mut_bad += 1
            from qibo import gates as G

            only_collapse = all((a == b) or (a[1] == "M" and a[:6] == b[:6] and a[7:] == b[7:]) for a, b in zip(before[0], after[0])) and before[1:] == after[1:] and len(before[0]) == len(after[0])
            if res is None:
                key = "apply:mutates-input:M-collapse" if only_collapse else "apply:mutates-input"
                ctx.fail(key, "NoiseModel.apply changes the circuit it is given" + (" (collapse flag of a measurement gate)" if only_collapse else ""),
                         PRELUDE + src + "snap = lambda c: [(g.__class__.__name__, g.qubits, getattr(g, 'collapse', None), tuple(map(str, g.parameters))) for g in c.queue] + [len(c.measurements), c.has_collapse]\n"
                         "b = snap(c); nm.apply(c); a = snap(c)\nprint(b); print(a)\nassert a == b, 'input circuit mutated'\n",
                         broken=["C19_apply_no_mutation"])
        # second call gives the same queue (rule table not consumed / changed)
        if res is None and after == before:
            try:
                again = nm.apply(c)
                if [desc(g, nb) for g in again.queue] != [desc(g, nb) for g in noisy.queue]:
                    bad += 1
                    ctx.fail("apply:second-call", "second NoiseModel.apply on the same circuit differs from the first",
                             PRELUDE + src + "a = show(nm.apply(c)); b = show(nm.apply(c))\nprint(a); print(b)\nassert a == b\n", broken=["C19_corr_apply"])
            except Exception as e:  # noqa: BLE001
                bad += 1
                ctx.fail("apply:second-call", f"second NoiseModel.apply raises {type(e).__name__}: {e}",
                         PRELUDE + src + "nm.apply(c); nm.apply(c)\n", broken=["C19_corr_apply"])
    ctx.ob("C19_corr_apply", bad == 0, "correspondence", f"{bad} disagreements" if bad else "")
    ctx.ob("C19_apply_no_mutation", mut_bad == 0, "search", f"{mut_bad} mutated inputs" if mut_bad else "")


# -- IBMQ composite model ----------------------------------------------------------------


def ibmq_rules(params, n):
    """the rule list `IBMQNoiseModel.from_dict` documents, as driver rules (independent
    re-statement of the documentation)."""
    rules = []

    def add(kind, params_, filt=None, conds=(), key=None):
        rules.append({"key": key, "kind": KIND[kind], "kargs": [], "filt": filt, "conds": list(conds), "single": False,
                      "params": params_, "unordered": True})

    d1, d2 = params["depolarizing_one_qubit"], params["depolarizing_two_qubit"]
    t1, t2 = params["t1"], params["t2"]
    g1, g2 = params["gate_times"]
    ex = params["excited_population"]
    ro = params["readout_one_qubit"]
    if isinstance(d1, dict):
        for q, lam in d1.items():
            add("depol", lam, int(q), [(0, [1])])
    else:
        add("depol", d1, None, [(0, [1])])
    if isinstance(d2, dict):
        for k, lam in d2.items():
            qs = tuple(int(x) for x in k.replace(" ", "").split("-"))
            add("depol", lam, qs, [(0, [2]), (1, list(qs))])
    else:
        add("depol", d2, None, [(0, [2])])
    if isinstance(t1, dict):
        for q in t1:
            add("thermal", [t1[q], t2[q], g1, ex], int(q), [(0, [1])])
            add("thermal", [t1[q], t2[q], g2, ex], int(q), [(0, [2])])
    else:
        add("thermal", [t1, t2, g1, ex], None, [(0, [1])])
        add("thermal", [t1, t2, g2, ex], None, [(0, [2])])
    if isinstance(ro, dict):
        for q, pr in ro.items():
            if isinstance(pr, (int, float)):
                pr = (pr, pr)
            elif len(pr) == 1:
                pr = tuple(pr) * 2
            add("readout", ("P2", pr[0], pr[1], 1), int(q), key="M")
    else:
        add("readout", ("P2", ro, ro, 1), None, key="M")
    return rules


def ibmq_suite(ctx, nb):
    rng = ctx.rng
    bad = 0
    built, lines = [], []
    for _ in range(120 if ctx.thorough else 40):
        n = rng.choice([2, 3, 3, 4])
        multi_m = rng.random() < 0.5
        gs = gen_circuit(rng, n, rng.randint(2, 7), allow_m=False, allow_chan=False)
        if multi_m:
            qs = rng.sample(range(n), rng.randint(2, n))
            gs.append(f"gates.M({_q(qs)})")
        else:
            gs += [f"gates.M({q})" for q in rng.sample(range(n), rng.randint(1, n))]
        # (a global float "readout_one_qubit" builds ONE unfiltered 2x2 rule: with a multi-qubit M the
        #  channel constructor rejects it with ValueError - documented limitation, not generated)
        per_qubit = multi_m or rng.random() < 0.6
        sub = lambda: [q for q in range(n) if rng.random() < 0.7] or [0]  # noqa: E731
        if per_qubit:
            tq = sub()
            params = {
                "depolarizing_one_qubit": {str(q): (q + 1) / 32 for q in sub()},
                "depolarizing_two_qubit": {f"{a}-{b}": (a + 2 * b + 1) / 64 for a, b in rng.sample(list(itertools.permutations(range(n), 2)), min(3, n * (n - 1)))},
                "t1": {str(q): 1.0 + q for q in tq}, "t2": {str(q): 0.5 + q for q in tq},
                "gate_times": (0.125, 0.25), "excited_population": 0.25,
                "readout_one_qubit": {str(q): rng.choice([(q + 1) / 32, ((q + 1) / 32, (q + 1) / 64), [(q + 1) / 16]]) for q in sub()},
            }
        else:
            params = {"depolarizing_one_qubit": 0.0625, "depolarizing_two_qubit": 0.125, "t1": 1.0, "t2": 0.75,
                      "gate_times": (0.125, 0.25), "excited_population": 0, "readout_one_qubit": 0.125}
        src = f"c = Circuit({n}, density_matrix=True)\n" + "".join(f"c.add({g})\n" for g in gs) + f"nm = IBMQNoiseModel()\nnm.from_dict({params!r})\n"
        ns = run_source(src)
        rules = ibmq_rules(params, n)
        built.append((src, ns, list(ns["c"].queue), rules, multi_m))
        lines.append(apply_line(list(ns["c"].queue), rules))
    outs = run_driver(lines, driver=DRIVER)
    for (src, ns, in_gates, rules, multi_m), out in zip(built, outs):
        items = parse_items(out)
        c, nm = ns["c"], ns["nm"]
        ctx.case(("ibmq", src))
        ctx.stat("ibmq_multi_qubit_M" if multi_m else "ibmq_single_qubit_M")
        before = snapshot(c)
        try:
            noisy = nm.apply(c)
        except Exception as e:  # noqa: BLE001
            bad += 1
            ctx.fail("ibmq:raises", f"IBMQNoiseModel.apply raises {type(e).__name__}: {e}", PRELUDE + src + "nm.apply(c)\n", broken=["C19_corr_ibmq"])
            continue
        res = compare_queue(noisy.queue, items, in_gates, rules, ns, nb)
        if res is not None:
            bad += 1
            msg, real, exp = res
            key = classify_apply_failure(in_gates, rules, real, exp)
            ctx.fail(key, f"IBMQNoiseModel.from_dict(...).apply: {msg}: got {short(real)}, prescribed {short(exp)}",
                     replay_apply(src, exp_show(items, in_gates, rules, ns)), expected=str(short(exp)), observed=str(short(real)),
                     broken=["C19_corr_ibmq"])
        elif snapshot(c) != before:
            bad += 1
            ctx.fail("apply:mutates-input", "IBMQNoiseModel.apply changes the circuit it is given", PRELUDE + src + "nm.apply(c)\nraise SystemExit(1)\n",
                     broken=["C19_corr_ibmq"])
    ctx.ob("C19_corr_ibmq", bad == 0, "correspondence", f"{bad} disagreements" if bad else "")


# -- histories: add and apply interleaved on one model object --------------------------------


def gen_ibmq_params(rng, n, per_qubit, shift=0):
    sub = lambda: [q for q in range(n) if rng.random() < 0.7] or [0]  # noqa: E731
    if not per_qubit:
        return {"depolarizing_one_qubit": 0.0625 + shift / 128, "depolarizing_two_qubit": 0.125 + shift / 128, "t1": 1.0 + shift, "t2": 0.75,
                "gate_times": (0.125, 0.25), "excited_population": 0, "readout_one_qubit": 0.125 + shift / 64}
    tq = sub()
    return {
        "depolarizing_one_qubit": {str(q): (q + 1 + 4 * shift) / 32 for q in sub()},
        "depolarizing_two_qubit": {f"{a}-{b}": (a + 2 * b + 1 + shift) / 64 for a, b in rng.sample(list(itertools.permutations(range(n), 2)), min(3, n * (n - 1)))},
        "t1": {str(q): 1.0 + q + shift for q in tq}, "t2": {str(q): 0.5 + q for q in tq},
        "gate_times": (0.125, 0.25), "excited_population": 0.25,
        "readout_one_qubit": {str(q): rng.choice([(q + 1 + shift) / 32, ((q + 1) / 32, (q + 1 + shift) / 64)]) for q in sub()},
    }


def history_suite(ctx, nb):
    """one model object used repeatedly: `add` and `apply` interleaved (apply, add a rule keyed on
    None / on a class met before / on another class, with filters and conditions, apply again on
    the same and on other circuits); `IBMQNoiseModel.from_dict` called twice on one object.
    Every apply is compared with a FRESH model holding the same rules in the same order and with
    the Lean model of that rule list."""
    rng = ctx.rng
    bad = 0
    records, lines = [], []  # record: (replay source, real queue, fresh queue, in_gates, rules, ns)
    for _ in range(90 if ctx.thorough else 30):
        n = rng.choice([2, 3, 3, 4])
        ibmq = rng.random() < 0.25
        ncirc = rng.choice([1, 2, 2, 3])
        csrc = ""
        gss = []
        for k in range(ncirc):
            if ibmq:
                gs = gen_circuit(rng, n, rng.randint(2, 6), allow_m=False, allow_chan=False) + [f"gates.M({q})" for q in rng.sample(range(n), rng.randint(1, n))]
            else:
                gs = gen_circuit(rng, n, rng.randint(2, 6))
            gss.append(gs)
            csrc += f"c{k} = Circuit({n}, density_matrix=True)\n" + "".join(f"c{k}.add({g})\n" for g in gs)
        present = sorted({g.split("(")[0].split(".")[1] for gs in gss for g in gs})
        cls = "IBMQNoiseModel" if ibmq else "NoiseModel"
        try:
            ns = run_source(csrc + f"nm = {cls}()\n")
        except Exception:  # noqa: BLE001 - invalid generated circuit
            ctx.stat("gen_invalid")
            continue
        hist = csrc + f"nm = {cls}()\n"
        adds = []  # source lines of the rule additions so far
        rules = []
        nops = rng.randint(4, 9)
        napply = 0
        for step in range(nops):
            do_add = step == 0 or (rng.random() < 0.45 and step != nops - 1)
            if do_add:
                if ibmq:
                    params = gen_ibmq_params(rng, n, rng.random() < 0.7, shift=len(adds))
                    line = f"nm.from_dict({params!r})"
                    new_rules = ibmq_rules(params, n)
                else:
                    # keyed on None (merged into every class already met), on a class already met, or on another one
                    key = rng.choice([None, None] + present + [rng.choice(GATE_CLASSES[:17])])
                    rule = gen_rule(rng, n, len(rules), [key])
                    line = rule_add_src(rule)
                    new_rules = [rule]
                try:
                    exec(line, ns)  # noqa: S102
                except Exception as e:  # noqa: BLE001
                    bad += 1
                    ctx.fail("apply:history:add-raises", f"adding a rule after an apply raises {type(e).__name__}: {e}", PRELUDE + hist + line + "\n", broken=["C19_history"])
                    break
                hist += line + "\n"
                adds.append(line)
                rules = rules + new_rules
                continue
            k = rng.randrange(ncirc)
            c = ns[f"c{k}"]
            fresh_src = f"fresh = {cls}()\n" + "".join(a.replace("nm.", "fresh.", 1) + "\n" for a in adds)
            replay = (PRELUDE + hist + fresh_src + f"a = show(nm.apply(c{k})); b = show(fresh.apply(c{k}))\nprint(a); print(b)\n"
                      "assert a == b, 'a model that was applied before a rule was added differs from a fresh model with the same rules'\n")
            try:
                noisy = ns["nm"].apply(c)
                exec(fresh_src, ns)  # noqa: S102
                fresh = ns["fresh"].apply(c)
            except Exception as e:  # noqa: BLE001
                bad += 1
                ctx.fail("apply:history:raises", f"apply in a history raises {type(e).__name__}: {e}", replay, broken=["C19_history"])
                break
            hist += f"nm.apply(c{k})\n"
            napply += 1
            records.append((replay, list(noisy.queue), list(fresh.queue), list(c.queue), list(rules), ns, napply, len(adds)))
            lines.append(apply_line(list(c.queue), rules))
        ctx.stat("history_ibmq" if ibmq else "history_noise_model")
    outs = run_driver(lines, driver=DRIVER)
    for (replay, real_q, fresh_q, in_gates, rules, ns, napply, nadds), out in zip(records, outs):
        ctx.case(("history", replay))
        ctx.stat("history_applies")
        if napply > 1:
            ctx.stat("history_apply_after_add_after_apply")
        real = [desc(g, nb) for g in real_q]
        fr = [desc(g, nb) for g in fresh_q]
        if real != fr:
            bad += 1
            ctx.fail("apply:history:add-after-apply", f"apply number {napply} of a model object (after {nadds} add calls interleaved with applies) differs from a fresh "
                     f"model with the same rules: got {short(real)}, fresh model gives {short(fr)}", replay, expected=str(short(fr)), observed=str(short(real)),
                     broken=["C19_history"])
            continue
        res = compare_queue(real_q, parse_items(out), in_gates, rules, ns, nb)
        if res is not None:
            bad += 1
            msg, real, exp = res
            ctx.fail("apply:history:model", f"history apply differs from the Lean model of the rule list: {msg}: got {short(real)}, prescribed {short(exp)}", replay,
                     expected=str(short(exp)), observed=str(short(real)), broken=["C19_history"])
    ctx.ob("C19_history", bad == 0, "correspondence", f"{bad} disagreements" if bad else "")


# -- with_pauli_noise ---------------------------------------------------------------------


def show_queue(c):
    return [(g.__class__.__name__, tuple(g.qubits)) for g in c.queue]


def pauli_suite(ctx, nb):
    from qibo import gates

    rng = ctx.rng
    bad = 0
    built, lines = [], []
    for _ in range(400 if ctx.thorough else 120):
        n = rng.choice([1, 2, 3, 3, 4, 5])
        gs = gen_circuit(rng, n, rng.randint(1, 7), allow_chan=False)
        style = rng.random()
        pos = []
        if style < 0.3:
            strength = rng.choice([0.0, 0.125])
            ops = [("X", strength), ("Z", strength / 2)]
            nmap = f"{ops!r}"
            pos = list(range(n)) if strength > 0 else []
            entries = {q: ops for q in range(n)}
        else:
            entries = {}
            for q in range(n):
                s = rng.choice([0.0, (q + 1) / 32, (q + 1) / 64])
                entries[q] = rng.choice([[("X", s)], [("Y", s / 2), ("Z", s / 2)], [("X", s / 4), ("Y", s / 4), ("Z", s / 2)]])
                if s > 0:
                    pos.append(q)
            if style < 0.4 and n >= 2:
                # a dict with the right size but a key outside the register: that qubit gets no noise
                drop = rng.randrange(n)
                entries[n + 3] = entries.pop(drop)
                pos = [q for q in pos if q != drop]
            nmap = f"{entries!r}"
        src = f"c = Circuit({n}, density_matrix={rng.random() < 0.5})\n" + "".join(f"c.add({g})\n" for g in gs) + f"noise_map = {nmap}\n"
        try:
            ns = run_source(src)
        except Exception:  # noqa: BLE001
            ctx.stat("gen_invalid")
            continue
        built.append((src, ns, list(ns["c"].queue), entries, pos))
        lines.append(" ".join(["PAULI", str(len(ns["c"].queue))] + [gate_tokens(g) for g in ns["c"].queue] + [str(len(pos))] + [str(q) for q in pos]))
    outs = run_driver(lines, driver=DRIVER)
    for (src, ns, in_gates, entries, pos), out in zip(built, outs):
        c = ns["c"]
        items = parse_items(out)
        before = snapshot(c)
        ctx.case(("pauli", src))
        ctx.stat("pauli_inserted_channels", sum(1 for it in items if it[0] == "C"))
        try:
            noisy = c.with_pauli_noise(ns["noise_map"])
        except Exception as e:  # noqa: BLE001
            bad += 1
            ctx.fail("pauli-map:raises", f"with_pauli_noise raises {type(e).__name__}: {e}", PRELUDE + src + "c.with_pauli_noise(noise_map)\n", broken=["C19_corr_pauli_map"])
            continue
        exp = []
        for it in items:
            if it[0] == "G":
                exp.append(desc(in_gates[it[1]], nb))
            else:
                exp.append(desc(gates.PauliNoiseChannel(it[3][0], entries[it[3][0]]), nb))
        real = [desc(g, nb) for g in noisy.queue]
        ok = real == exp
        if ok and snapshot(c) != before:
            ok = False
        if ok:
            again = [desc(g, nb) for g in c.with_pauli_noise(ns["noise_map"]).queue]
            ok = again == real
        if not ok:
            bad += 1
            ctx.fail("pauli-map:queue", f"with_pauli_noise: got {short(real)}, prescribed {short(exp)}",
                     PRELUDE + src + f"n1 = show(c.with_pauli_noise(noise_map)); n2 = show(c.with_pauli_noise(noise_map))\nexpected = {[(d[1], tuple(d[2]) if d[0] == 'gate' else tuple(d[2])) for d in exp]!r}\nprint(n1); print(expected)\nassert n1 == expected and n2 == expected\n",
                     expected=str(short(exp)), observed=str(short(real)), broken=["C19_corr_pauli_map"])
    # circuits that already contain a channel - of EVERY class, unitary mixtures and the others alike - are refused with the
    # documented ValueError (no queue is produced, so nothing can be attached after the existing channel)
    chans = ["gates.PauliNoiseChannel(Q, [('X', 0.125)])", "gates.PauliNoiseChannel(Q, [('Z', 0.0)])", "gates.DepolarizingChannel((Q,), 0.25)",
             "gates.UnitaryChannel((Q,), [(0.25, X), (0.125, Z)])", "gates.KrausChannel((Q,), [0.8 ** 0.5 * I2, 0.2 ** 0.5 * X])",
             "gates.ResetChannel(Q, [0.125, 0.25])", "gates.AmplitudeDampingChannel(Q, 0.25)", "gates.PhaseDampingChannel(Q, 0.25)",
             "gates.ThermalRelaxationChannel(Q, [1.0, 0.5, 0.25, 0.0])", "gates.ThermalRelaxationChannel(Q, [1.0, 1.5, 0.25, 0.25])",
             "gates.ReadoutErrorChannel((Q,), P2(0.125, 0.25))"]
    for ch in chans:
        for rep in range(2 if ctx.thorough else 1):
            n = rng.choice([1, 2, 3])
            gs = gen_circuit(rng, n, rng.randint(1, 4), allow_chan=False, allow_m=False)
            gs.insert(rng.randrange(len(gs) + 1), ch.replace("Q", str(rng.randrange(n))))
            if rng.random() < 0.5:
                gs.append(f"gates.M({rng.randrange(n)})")
            nmap = {q: [("X", 0.125)] for q in range(n)} if rng.random() < 0.6 else [("X", 0.125), ("Z", 0.0625)]
            src = f"c = Circuit({n}, density_matrix={rng.random() < 0.6})\n" + "".join(f"c.add({g})\n" for g in gs) + f"noise_map = {nmap!r}\n"
            ns = run_source(src)
            name = ch.split("(")[0].split(".")[1]
            ctx.case(("pauli-refusal", src))
            ctx.stat("pauli_refusal:" + name)
            try:
                got = show_queue(ns["c"].with_pauli_noise(ns["noise_map"]))
            except ValueError:
                continue
            except Exception as e:  # noqa: BLE001
                got = f"{type(e).__name__}: {e}"
            bad += 1
            ctx.fail("pauli-map:channel-present:" + name, f"with_pauli_noise on a circuit that already contains a {name} does not raise the documented ValueError: {got}",
                     PRELUDE + src + "try:\n    print(show(c.with_pauli_noise(noise_map)))\nexcept ValueError:\n    raise SystemExit(0)\nraise SystemExit(1)\n",
                     expected="ValueError", observed=str(got), broken=["C19_corr_pauli_map"])
    ctx.ob("C19_corr_pauli_map", bad == 0, "correspondence", f"{bad} disagreements" if bad else "")


# -- zero-strength noise -----------------------------------------------------------------


def zero_suite(ctx, nb):
    rng = ctx.rng
    bad = 0
    for _ in range(120 if ctx.thorough else 40):
        n = rng.choice([1, 2, 3, 3])
        gs = gen_circuit(rng, n, rng.randint(1, 6), allow_chan=False, allow_m=False)
        if rng.random() < 0.5:
            gs.append(f"gates.M({_q(rng.sample(range(n), rng.randint(1, n)))})")
        present = sorted({g.split("(")[0].split(".")[1] for g in gs})
        keys = [None, None] + present
        rules = [gen_rule(rng, n, i, keys, zero=True) for i in range(rng.randint(1, 4))]
        readout = False
        for r in rules:
            if r["kind"] == KIND["readout"]:
                # a readout channel with P = identity is a dephasing of the measured qubits: it
                # leaves the outcome probabilities unchanged, so it is keyed on the (final)
                # measurements and the probabilities are compared
                r["key"] = "M"
                readout = True
            elif r["key"] == "M":
                # a channel after a measurement turns it into a mid-circuit (collapsing) one
                r["key"] = None
        src = case_source(n, True, gs, rules)
        ns = run_source(src)
        c, nm = ns["c"], ns["nm"]
        d = 2**n
        a = np.array([[complex(rng.gauss(0, 1), rng.gauss(0, 1)) for _ in range(d)] for _ in range(d)])
        rho = a @ a.conj().T
        rho /= np.trace(rho)
        try:
            noisy = nm.apply(c)
            ref = np.asarray(nb.execute_circuit(ns_copy(ns, src)["c"], initial_state=rho.copy(), nshots=1).state())
            got = np.asarray(nb.execute_circuit(noisy, initial_state=rho.copy(), nshots=1).state())
        except Exception as e:  # noqa: BLE001
            bad += 1
            ctx.fail("zero-noise:raises", f"zero-strength noise model raises {type(e).__name__}: {e}", PRELUDE + src + "nm.apply(c)()\n", broken=["C19_zero_strength"])
            continue
        ctx.case(("zero", src))
        ctx.stat("zero_channels", len(noisy.queue) - len(c.queue))
        if readout:
            got, ref = np.diag(got), np.diag(ref)
        if not np.allclose(got, ref, atol=1e-10):
            bad += 1
            ctx.fail("zero-noise:state", "a noise model whose errors all have strength 0 changes the final " + ("outcome probabilities" if readout else "density matrix"),
                     PRELUDE + src + "d = 2**c.nqubits\npsi = np.arange(1, d + 1) * (1 + 0.5j); psi = psi / np.linalg.norm(psi); rho = np.outer(psi, psi.conj())\n"
                     "ref = Circuit(c.nqubits, density_matrix=True)\n"
                     "[ref.add(g.__class__(*g.init_args, **g.init_kwargs)) for g in c.queue]\n"
                     "a = nm.apply(c)(initial_state=rho.copy()).state(); b = ref(initial_state=rho.copy()).state()\n"
                     + ("a, b = np.diag(a), np.diag(b)\n" if readout else "") + "assert np.allclose(a, b, atol=1e-10)\n",
                     broken=["C19_zero_strength"])
        # zero Pauli map: nothing inserted at all
        zero_map = [("X", 0.0), ("Z", 0.0)]
        c2 = ns_copy(ns, src)["c"]
        if len(c2.with_pauli_noise(zero_map).queue) != len(c2.queue):
            bad += 1
            ctx.fail("zero-noise:pauli-map", "with_pauli_noise with zero probabilities inserts channels",
                     PRELUDE + src + "assert len(c.with_pauli_noise([('X', 0.0)]).queue) == len(c.queue)\n", broken=["C19_zero_strength"])
    ctx.ob("C19_zero_strength", bad == 0, "search", f"{bad} failures" if bad else "")


def ns_copy(ns, src):
    """fresh objects from the same source (so that executions do not share state)."""
    return run_source(src)


# -- trajectories vs density matrix --------------------------------------------------------


class TapeMismatch(Exception):
    """the real sampling step does not offer the index a tape asks for."""


class TapeBackend:
    """the real NumpyBackend whose random draw inside `apply_channel` is forced.

    The hook sits at the sampler (`backend.sample_shots`, the only random call of
    `apply_channel`): the REAL sampler is called first with the probability vector the real
    code built (so an unacceptable vector is rejected as in production), then its answer is
    replaced by the forced index.  What the real code does with the index (index -> gate or
    identity) is therefore exercised as it is.  The weight of a trajectory is the product of
    the entries `probabilities[index]` of the vectors the real code handed to the sampler.
    `free=True`: positions beyond the tape draw index 0 (used to enumerate the real sampling
    tree: the number of choices at each step is read from the real vectors)."""

    def __init__(self):
        from qibo.backends import NumpyBackend

        self.b = NumpyBackend()
        self.real_sample = self.b.sample_shots
        self.tape = None
        self.free = False
        self.weight = 1.0
        self.seen = []
        self.used = []
        self.b.sample_shots = self.sample
        self.in_channel = False
        real_apply_channel = self.b.apply_channel

        def apply_channel(channel, state, nqubits):
            self.in_channel = True
            try:
                return real_apply_channel(channel, state, nqubits)
            finally:
                self.in_channel = False

        self.b.apply_channel = apply_channel

    def sample(self, probabilities, nshots):
        if self.tape is None or nshots != 1 or not self.in_channel:
            return self.real_sample(probabilities, nshots)
        self.real_sample(probabilities, nshots)  # the real draw (validates the vector); its value is replaced
        npr = len(probabilities)
        if self.tape:
            i = self.tape.pop(0)
        elif self.free:
            i = 0
        else:
            raise TapeMismatch("tape exhausted: more channels sample than the tape has entries")
        if i >= npr:
            raise TapeMismatch(f"index {i} is not offered: the sampler gets {npr} probabilities")
        self.seen.append(npr)
        self.used.append(i)
        self.weight *= float(probabilities[i])
        return np.array([i])


def tape_sizes(queue):
    from qibo import gates

    return [len(g.gates) + 1 for g in queue if isinstance(g, gates.UnitaryChannel)]


def run_trajectory(tb, queue, psi, n, tape, free=False):
    tb.tape, tb.weight, tb.seen, tb.used, tb.free = list(tape), 1.0, [], [], free
    try:
        state = tb.b.cast(psi, copy=True)
        for g in queue:
            state = g.apply(tb.b, state, n)
        if tb.tape:
            raise TapeMismatch("tape not consumed: fewer channels sample than the tape has entries")
    finally:
        tb.tape, tb.free = None, False
    return np.asarray(state), tb.weight


def enumerate_real(tb, queue, psi, n, limit=20000):
    """every leaf of the REAL sampling tree of one state-vector shot: [(indices, weight, state)].
    The number of choices at each sampling step is the length of the vector the real code
    hands to the sampler."""
    out = []
    tape = []
    while True:
        st, w = run_trajectory(tb, queue, psi, n, tape, free=True)
        used, sizes = list(tb.used), list(tb.seen)
        out.append((tuple(used), w, st))
        if len(out) > limit:
            raise RuntimeError("too many trajectories")
        k = len(used) - 1
        while k >= 0 and used[k] + 1 >= sizes[k]:
            k -= 1
        if k < 0:
            return out
        tape = used[:k] + [used[k] + 1]


def mixture_rules(rng, n, keys, nrules, dyadic):
    rules = []
    for i in range(nrules):
        r = gen_rule(rng, n, i, keys, kinds=["pauli", "depol", "unitary", "unitary", "pauli"])
        r["conds"] = [c for c in r["conds"] if c[0] != 2]
        rules.append(r)
    return rules


def trajectory_suite(ctx):
    """(c) exact: enumerate ALL trajectories of the real state-vector mode by forcing the
    index sampled in apply_channel, weight by the probabilities the backend handed to the
    sampler, compare with the real density-matrix execution to 1e-10."""
    from qibo import Circuit, gates

    rng = ctx.rng
    tb = TapeBackend()
    bad = 0
    done = 0
    attempts = 0
    target = 60 if ctx.thorough else 22
    # three-qubit (and larger) mixtures: a DepolarizingError attached to a gate on 3 qubits is a mixture of all 63
    # non-identity Pauli strings; one such channel per circuit keeps the exact enumeration at 64 (x small) tapes
    wide = []
    for k in range(8 if ctx.thorough else 4):
        n = rng.choice([3, 3, 4])
        qs = rng.sample(range(n), 3)
        lam = rng.choice([0.25, 0.5, 0.9, 1.0])
        kind = k % 4
        if kind == 0:
            g3, key = f"gates.TOFFOLI({_q(qs)})", "gates.TOFFOLI"
        elif kind == 1:
            g3, key = f"gates.CCZ({_q(qs)})", "gates.CCZ"
        elif kind == 2:
            g3, key = f"gates.Unitary(np.kron(XZ, Y), {_q(qs)})", "gates.Unitary"
        else:
            g3, key = f"gates.RX({qs[0]}, theta=0.75).controlled_by({qs[1]}, {qs[2]})", "gates.RX"
        pre = [f"gates.{rng.choice(['H', 'SX', 'T'])}({q})" for q in range(n)]
        post = [f"gates.{rng.choice(['S', 'X', 'Y'])}({rng.randrange(n)})"]
        extra = f"nm.add(PauliError([('X', 0.125)]), gates.{post[0].split('(')[0].split('.')[1]})\n" if k % 2 else ""
        wide.append(f"c = Circuit({n}, density_matrix=False)\n" + "".join(f"c.add({g})\n" for g in pre + [g3] + post)
                    + f"nm = NoiseModel()\nnm.add(DepolarizingError({lam!r}), {key})\n" + extra + "noisy = nm.apply(c)\n")
    while (wide or done < target) and attempts < 40 * target:
        attempts += 1
        is_wide = bool(wide)
        if is_wide:
            src = wide.pop()
            n = int(src.split("Circuit(")[1].split(",")[0])
        else:
            n = rng.choice([1, 2, 2, 3])
            gs = gen_circuit(rng, n, rng.randint(1, 5), allow_m=False, allow_chan=False)
            mode = rng.random()
            present = sorted({g.split("(")[0].split(".")[1] for g in gs})
            if mode < 0.65:
                rules = mixture_rules(rng, n, [None] + present, rng.randint(1, 2), False)
                src = case_source(n, False, gs, rules) + "noisy = nm.apply(c)\n"
            else:
                nmap = {q: rng.choice([[("X", (q + 1) / 16)], [("Y", 0.125), ("Z", (q + 1) / 32)]]) for q in range(n)}
                src = f"c = Circuit({n}, density_matrix=False)\n" + "".join(f"c.add({g})\n" for g in gs) + f"noisy = c.with_pauli_noise({nmap!r})\n"
        ns = run_source(src)
        queue = list(ns["noisy"].queue)
        sizes = tape_sizes(queue)
        ntapes = int(np.prod(sizes)) if sizes else 1
        if is_wide:  # these come on top of the random cases
            if not any(isinstance(g, gates.DepolarizingChannel) and len(g.target_qubits) >= 3 for g in queue) or ntapes > 1500:
                raise RuntimeError(f"three-qubit depolarizing case not as constructed ({ntapes} tapes): " + src)
            ctx.stat("traj_three_qubit_depolarizing")
        else:
            if not sizes or ntapes > (6000 if ctx.thorough else 1500):
                continue
            done += 1
        d = 2**n
        psi = np.array([complex(rng.gauss(0, 1), rng.gauss(0, 1)) for _ in range(d)])
        psi /= np.linalg.norm(psi)
        mean = np.zeros((d, d), dtype=complex)
        wsum = 0.0
        try:
            for _, w, st in enumerate_real(tb, queue, psi, n):
                mean += w * np.outer(st, st.conj())
                wsum += w
        except Exception as e:  # noqa: BLE001
            bad += 1
            ctx.fail("trajectory-mean:raises", f"state-vector trajectory raises {type(e).__name__}: {e}", PRELUDE + src + TRAJ_REPLAY, broken=["C19_trajectory_exact"])
            continue
        cdm = Circuit(n, density_matrix=True)
        for g in queue:
            cdm.add(g)
        rho = np.asarray(tb.b.execute_circuit(cdm, initial_state=np.outer(psi, psi.conj())).state())
        ctx.case(("traj", src))
        ctx.stat("traj_tapes", ntapes)
        ctx.stat("traj_channels", len(sizes))
        if abs(wsum - 1) > 1e-10 or not np.allclose(mean, rho, atol=1e-10):
            bad += 1
            kinds = sorted({g.__class__.__name__ for g in queue if isinstance(g, gates.UnitaryChannel)})
            ctx.fail("trajectory-mean:" + "+".join(kinds), "probability-weighted sum of all state-vector trajectories differs from the density-matrix result"
                     f" (max diff {np.abs(mean - rho).max():.3e}, total weight {wsum})",
                     PRELUDE + src + TRAJ_REPLAY, broken=["C19_trajectory_exact"])
    ctx.ob("C19_trajectory_exact", bad == 0, "search", f"{bad} failures" if bad else "")


TRAJ_REPLAY = '''from qibo.backends import NumpyBackend
b = NumpyBackend(); real = b.sample_shots; tape = []; used = []; sizes = []; weight = [1.0]
def forced(probabilities, nshots):
    real(probabilities, nshots)
    i = tape.pop(0) if tape else 0
    used.append(i); sizes.append(len(probabilities)); weight[0] *= float(probabilities[i]); return np.array([i])
b.sample_shots = forced
n = noisy.nqubits; d = 2**n
psi = np.arange(1, d + 1) * (1 + 0.5j); psi = psi / np.linalg.norm(psi)
mean = np.zeros((d, d), dtype=complex); t = []
while True:
    tape[:] = list(t); used[:] = []; sizes[:] = []; weight[0] = 1.0; st = psi.copy()
    for g in noisy.queue: st = g.apply(b, st, n)
    mean += weight[0] * np.outer(st, st.conj())
    k = len(used) - 1
    while k >= 0 and used[k] + 1 >= sizes[k]: k -= 1
    if k < 0: break
    t = used[:k] + [used[k] + 1]
cdm = Circuit(n, density_matrix=True)
for g in noisy.queue: cdm.add(g)
rho = NumpyBackend().execute_circuit(cdm, initial_state=np.outer(psi, psi.conj())).state()
print(np.abs(mean - rho).max())
assert np.allclose(mean, rho, atol=1e-10)
'''


# -- exact dyadic correspondence of both execution modes with the Lean model ----------------

INT_GATES = {
    "X": ([[0, 1], [1, 0]], 1), "Z": ([[1, 0], [0, -1]], 1), "Y": ([[0, -1j], [1j, 0]], 1),
    "A": ([[1, 2], [0, 1j]], 1), "B": ([[1, 1], [1, -1]], 1),
    "CX": ([[1, 0, 0, 0], [0, 1, 0, 0], [0, 0, 0, 1], [0, 0, 1, 0]], 2),
    "W": ([[1, 0, 0, 1j], [0, 2, 0, 0], [0, 1, 1, 0], [-1, 0, 0, 1]], 2),
}


def mgate_tokens(mat, targets, controls=()):
    m = np.asarray(mat, dtype=complex).reshape(-1)
    ent = " ".join(f"{int(round(z.real))} {int(round(z.imag))}" for z in m)
    return f"{len(targets)} {len(controls)} {' '.join(map(str, targets))} {' '.join(map(str, controls))} {ent}".replace("  ", " ")


def parse_dg(tokens):
    vals = [int(t) for t in tokens]
    return np.array([complex(vals[3 * k], vals[3 * k + 1]) / 2 ** vals[3 * k + 2] for k in range(len(vals) // 3)])


def exec_suite(ctx):
    """integer gates and unitary-mixture channels with dyadic probabilities through the real
    UnitaryChannel.apply / apply_channel (forced index) and apply_channel_density_matrix,
    against runTape / tapeProb / runQueueDM / trajectoryMean of the Lean model; exact."""
    from qibo import Circuit, gates

    rng = ctx.rng
    tb = TapeBackend()
    lines, meta = [], []
    for _ in range(60 if ctx.thorough else 24):
        n = rng.choice([1, 2, 2, 3])
        items = []  # ("g", name, targets, controls) | ("m", [(pnum, pexp, name, targets)])
        nch = 0
        for _ in range(rng.randint(1, 5)):
            if rng.random() < 0.45 and nch < 3:
                if rng.random() < 0.45:
                    # no identity remainder: the coefficients sum to exactly 1
                    probs = rng.choice([[(1, 0)], [(1, 1), (1, 1)], [(1, 2), (1, 2), (1, 1)], [(1, 2), (3, 2)], [(1, 3), (3, 3), (1, 1)],
                                        [(0, 0), (1, 0)], [(1, 1), (1, 2), (1, 2)]])
                else:
                    probs = [(rng.choice([0, 1, 1, 2, 3]), rng.choice([3, 4])) for _ in range(rng.randint(1, 3))]
                ops = []
                for pn, pe in probs:
                    name = rng.choice([k for k, v in INT_GATES.items() if v[1] <= n and k in ("X", "Z", "Y", "CX", "B")])
                    ts = rng.sample(range(n), INT_GATES[name][1])
                    ops.append((pn, pe, name, ts))
                items.append(("m", ops))
                nch += 1
            else:
                name = rng.choice([k for k, v in INT_GATES.items() if v[1] <= n])
                ts = rng.sample(range(n), INT_GATES[name][1])
                rest = [q for q in range(n) if q not in ts]
                cs = rng.sample(rest, rng.randint(0, len(rest))) if rng.random() < 0.3 else []
                items.append(("g", name, ts, cs))
        if nch == 0:
            continue
        queue = []
        toks = []
        for it in items:
            if it[0] == "g":
                g = gates.Unitary(np.array(INT_GATES[it[1]][0], dtype=complex), *it[2], check_unitary=False)
                if it[3]:
                    g = g.controlled_by(*it[3])
                queue.append(g)
                toks.append("0 " + mgate_tokens(INT_GATES[it[1]][0], it[2], sorted(it[3])))
            else:
                ops = [(pn / 2**pe, gates.Unitary(np.array(INT_GATES[nm][0], dtype=complex), *ts, check_unitary=False)) for pn, pe, nm, ts in it[1]]
                queue.append(gates.UnitaryChannel([], ops))
                toks.append(f"1 {len(ops)} " + " ".join(f"{pn} {pe} " + mgate_tokens(INT_GATES[nm][0], ts) for pn, pe, nm, ts in it[1]))
        d = 2**n
        psi = np.array([complex(rng.randint(-2, 2), rng.randint(-2, 2)) for _ in range(d)])
        if not psi.any():
            psi[0] = 1
        ptoks = " ".join(f"{int(z.real)} {int(z.imag)}" for z in psi)
        body = f"{n} {len(toks)} {' '.join(toks)} {ptoks}"
        sizes = tape_sizes(queue)
        tapes = list(itertools.product(*[range(s) for s in sizes]))
        # trajectories of probability 0 (a zero coefficient, or the identity index of a mixture without
        # remainder) carry no weight: whether the sampler is offered them at all is not observable
        mixes = [it[1] for it in items if it[0] == "m"]
        full = any(sum(pn / 2**pe for pn, pe, _, _ in ops) == 1 for ops in mixes)

        def tape_weight(t, mixes=mixes):
            w = 1.0
            for ops, i in zip(mixes, t):
                w *= ops[i][0] / 2 ** ops[i][1] if i < len(ops) else 1 - sum(pn / 2**pe for pn, pe, _, _ in ops)
            return w

        live = [t for t in tapes if tape_weight(t) != 0]
        picks = [live[0], live[-1]] + [rng.choice(live) for _ in range(3)]
        base = len(lines)
        lines.append("QDM " + body)
        lines.append("QMEAN " + body)
        lines.append(f"TAPES {len(toks)} {' '.join(toks)}")
        for t in picks:
            lines.append(f"QTAPE {body} {len(t)} {' '.join(map(str, t))}")
        meta.append((n, items, queue, psi, tapes, picks, base, live, full))
    outs = run_driver(lines, driver=DRIVER)
    bad = 0
    for n, items, queue, psi, tapes, picks, base, live, full in meta:
        d = 2**n
        descr = [(it[1], it[2], it[3]) if it[0] == "g" else ("mix", [(f"{pn}/2^{pe}", nm, ts) for pn, pe, nm, ts in it[1]]) for it in items]
        ctx.case(("exec", n, repr(descr), repr(psi.tolist())))
        ctx.stat("exec_tapes", len(tapes))
        if full:
            ctx.stat("exec_full_weight_mixture_cases")
        tkey = "trajectory:full-weight-mixture" if full else None
        cdm = Circuit(n, density_matrix=True)
        for g in queue:
            cdm.add(g)
        rho = np.asarray(tb.b.execute_circuit(cdm, initial_state=np.outer(psi, psi.conj())).state()).reshape(-1)
        model_dm = parse_dg(outs[base].split())
        model_mean = parse_dg(outs[base + 1].split())
        model_tapes = [tuple(int(x) for x in t.split(",")) for t in outs[base + 2].split()]
        msgs = []
        if not np.array_equal(rho, model_dm):
            msgs.append(("exec:density-matrix", "density-matrix execution of a unitary-mixture circuit differs from the model", model_dm, rho))
        if model_tapes != [tuple(t) for t in tapes]:
            msgs.append(("exec:tapes", "set of trajectories differs", model_tapes, tapes))
        mean = np.zeros((d, d), dtype=complex)
        try:
            for t in live:
                st, w = run_trajectory(tb, queue, psi.astype(complex), n, t)
                mean += w * np.outer(st, st.conj())
            if not np.array_equal(mean.reshape(-1), model_mean):
                msgs.append((tkey or "exec:trajectory-mean", "weighted sum of trajectory projectors differs from the model", model_mean, mean.reshape(-1)))
            # and the leaves of the REAL sampling tree (choices = entries of the real probability vectors)
            rmean = np.zeros((d, d), dtype=complex)
            for _, w, st in enumerate_real(tb, queue, psi.astype(complex), n):
                rmean += w * np.outer(st, st.conj())
            if not np.array_equal(rmean.reshape(-1), rho):
                msgs.append((tkey or "exec:trajectory-mean", "weighted sum over the real sampling tree differs from the real density-matrix execution", rho, rmean.reshape(-1)))
        except Exception as e:  # noqa: BLE001
            msgs.append((tkey or "exec:trajectory", f"forced state-vector trajectory raises {type(e).__name__}: {e}", None, None))
        if not np.array_equal(model_mean, model_dm):
            msgs.append(("exec:model-inconsistent", "model: trajectory mean != density matrix (contradicts T19_trajectory_mean)", model_mean, model_dm))
        for k, t in enumerate(picks):
            o = outs[base + 3 + k].split("|")
            w_model = parse_dg(o[0].split())[0]
            st_model = parse_dg(o[1].split())
            try:
                st, w = run_trajectory(tb, queue, psi.astype(complex), n, t)
            except Exception as e:  # noqa: BLE001
                msgs.append((tkey or "exec:trajectory", f"trajectory {t} raises {type(e).__name__}: {e}", None, None))
                break
            if w_model != w or not np.array_equal(st_model, st):
                msgs.append((tkey or "exec:trajectory", f"trajectory {t}: probability or state differs from the model", (w_model, st_model.tolist()), (w, st.tolist())))
                break
        for key, what, exp, obs in msgs:
            bad += 1
            ctx.fail(key, what + f" for queue {descr}, psi={psi.tolist()}", exec_replay(n, items, psi), expected=str(exp), observed=str(obs),
                     broken=["C19_corr_exec", "C19_full_weight_mixture"] if key == "trajectory:full-weight-mixture" else ["C19_corr_exec"])
    ctx.ob("C19_corr_exec", bad == 0, "correspondence", f"{bad} disagreements" if bad else "")


def exec_replay(n, items, psi):
    """self-contained replay of an exec_suite case: real sampling tree vs density matrix."""
    lines = [f"INT = {INT_GATES!r}", f"noisy = Circuit({n})"]
    for it in items:
        if it[0] == "g":
            g = f"gates.Unitary(np.array(INT[{it[1]!r}][0], dtype=complex), {_q(it[2])}, check_unitary=False)"
            if it[3]:
                g += f".controlled_by({_q(it[3])})"
            lines.append(f"noisy.add({g})")
        else:
            ops = ", ".join(f"({pn} / 2**{pe}, gates.Unitary(np.array(INT[{nm!r}][0], dtype=complex), {_q(ts)}, check_unitary=False))" for pn, pe, nm, ts in it[1])
            lines.append(f"noisy.add(gates.UnitaryChannel([], [{ops}]))")
    body = "\n".join(lines) + "\n"
    rp = TRAJ_REPLAY.replace("psi = np.arange(1, d + 1) * (1 + 0.5j); psi = psi / np.linalg.norm(psi)", f"psi = np.array({psi.tolist()!r}, dtype=complex)")
    return PRELUDE + body + rp


# -- mixtures without identity remainder ---------------------------------------------------


def full_weight_suite(ctx):
    """unitary mixtures whose coefficients sum to 1 (exactly, or up to rounding): no identity
    remainder.  UnitaryChannel / PauliNoiseChannel / DepolarizingChannel at its maximal
    parameter, on 1-2 qubit targets in any order, inside small circuits; every leaf of the real
    sampling tree (random draw forced at the sampler) weighted by the real probability vectors
    against the real density-matrix execution."""
    from qibo import Circuit, gates

    rng = ctx.rng
    tb = TapeBackend()
    bad = 0
    mats1, mats2 = ["X", "Y", "Z"], ["XX", "ZZ", "XZ", "ZX", "YI"]
    dyadic = [[1.0], [0.5, 0.5], [0.25, 0.25, 0.5], [0.25, 0.75], [0.125, 0.375, 0.5], [0.0, 1.0], [0.5, 0.25, 0.25]]
    rounded = [[0.7, 0.2, 0.1], [0.1, 0.2, 0.3, 0.4], [0.1, 0.1, 0.1, 0.7], [0.3, 0.3, 0.4], [1 / 3, 1 / 3, 1 / 3], [0.6, 0.3, 0.1]]
    for it in range(70 if ctx.thorough else 26):
        n = rng.choice([1, 2, 2, 3])
        chans = []
        for _ in range(rng.choice([1, 1, 2])):
            kind = rng.choice(["unitary", "unitary", "pauli", "pauli", "depol"])
            k = 1 if n == 1 else rng.choice([1, 1, 2])
            qs = rng.sample(range(n), k)
            probs = list(rng.choice(dyadic + rounded))
            if kind == "unitary":
                names = [rng.choice(mats1 if k == 1 else mats2) for _ in probs]
                chans.append(f"gates.UnitaryChannel(({_q(qs)},), [{', '.join(f'({p!r}, {m})' for p, m in zip(probs, names))}])")
            elif kind == "pauli":
                strings = rng.sample(["".join(t) for t in itertools.product("IXYZ", repeat=k)][1:], min(len(probs), 4**k - 1))
                probs = probs[: len(strings)]
                if abs(sum(probs) - 1) > 1e-12:
                    probs[-1] = 1 - sum(probs[:-1])
                chans.append(f"gates.PauliNoiseChannel(({_q(qs)},), {list(zip(strings, probs))!r})")
            else:
                chans.append(f"gates.DepolarizingChannel(({_q(qs)},), {4**k} / {4**k - 1})")
        if rng.random() < 0.35:  # and one ordinary mixture with a remainder
            chans.append(f"gates.PauliNoiseChannel({rng.randrange(n)}, [('X', 0.125), ('Z', 0.25)])")
        gs = gen_circuit(rng, n, rng.randint(1, 4), allow_m=False, allow_chan=False)
        seq = gs + chans
        rng.shuffle(seq)
        seq = [gs[0]] + seq  # the channels act on a non-trivial state
        src = f"noisy = Circuit({n})\n" + "".join(f"noisy.add({g})\n" for g in seq)
        ns = run_source(src)
        queue = list(ns["noisy"].queue)
        d = 2**n
        psi = np.array([complex(rng.gauss(0, 1), rng.gauss(0, 1)) for _ in range(d)])
        psi /= np.linalg.norm(psi)
        ctx.case(("full-weight", src))
        kinds = "+".join(sorted({g.__class__.__name__ for g in queue if isinstance(g, gates.UnitaryChannel)}))
        ctx.stat("full_weight_" + kinds)
        try:
            leaves = enumerate_real(tb, queue, psi, n)
            mean = sum(w * np.outer(st, st.conj()) for _, w, st in leaves)
            wsum = sum(w for _, w, _ in leaves)
            cdm = Circuit(n, density_matrix=True)
            for g in queue:
                cdm.add(g)
            rho = np.asarray(tb.b.execute_circuit(cdm, initial_state=np.outer(psi, psi.conj())).state())
        except Exception as e:  # noqa: BLE001
            bad += 1
            ctx.fail("trajectory:full-weight-mixture", f"a mixture without identity remainder raises {type(e).__name__}: {e}", PRELUDE + src + TRAJ_REPLAY,
                     broken=["C19_full_weight_mixture", "C19_corr_exec"])
            continue
        ctx.stat("full_weight_leaves", len(leaves))
        if abs(wsum - 1) > 1e-10 or not np.allclose(mean, rho, atol=1e-10):
            bad += 1
            ctx.fail("trajectory:full-weight-mixture", "mixture whose coefficients sum to 1: the probability-weighted sum of all state-vector trajectories differs from the "
                     f"density-matrix result (max diff {np.abs(mean - rho).max():.3e}, total weight {wsum}); channels {kinds}",
                     PRELUDE + src + TRAJ_REPLAY, broken=["C19_full_weight_mixture", "C19_corr_exec"])
    ctx.ob("C19_full_weight_mixture", bad == 0, "search", f"{bad} failures" if bad else "")


# -- execute_circuit_repeated -------------------------------------------------------------


def repeated_suite(ctx):
    """execute_circuit_repeated: (i) exact — classical circuits (X / CNOT / SWAP) with bit-flip
    noise, the tape cycling through every trajectory once: the frequencies are then exactly the
    number of trajectories per outcome; (ii) statistical with a fixed seed, loose tolerance,
    against the Born probabilities of the density-matrix execution."""
    from qibo import Circuit, gates

    rng = ctx.rng
    bad = 0
    tb = TapeBackend()
    for _ in range(30 if ctx.thorough else 12):
        n = rng.choice([1, 2, 3])
        gs = []
        for _ in range(rng.randint(1, 4)):
            if n >= 2 and rng.random() < 0.5:
                a, b = rng.sample(range(n), 2)
                gs.append(f"gates.{rng.choice(['CNOT', 'SWAP'])}({a}, {b})")
            else:
                gs.append(f"gates.X({rng.randrange(n)})")
        mq = rng.sample(range(n), rng.randint(1, n))
        if rng.random() < 0.5 or len(mq) == 1:
            gs.append(f"gates.M({_q(mq)})")
        else:
            gs.append(f"gates.M({_q(mq[:1])})")
            gs.append(f"gates.M({_q(mq[1:])})")
        nmap = {q: [("X", (q + 1) / 8)] for q in range(n)}
        src = f"c = Circuit({n})\n" + "".join(f"c.add({g})\n" for g in gs) + f"noisy = c.with_pauli_noise({nmap!r})\n"
        ns = run_source(src)
        noisy = ns["noisy"]
        sizes = tape_sizes(noisy.queue)
        tapes = list(itertools.product(*[range(s) for s in sizes]))
        if len(tapes) > 256 or not sizes:
            continue
        # expected outcome of every trajectory by classical bit propagation
        counts = {}
        for t in tapes:
            bits = [0] * n
            k = 0
            for g in noisy.queue:
                name = g.__class__.__name__
                if name == "X":
                    bits[g.qubits[0]] ^= 1
                elif name == "CNOT":
                    bits[g.qubits[1]] ^= bits[g.qubits[0]]
                elif name == "SWAP":
                    a, b = g.qubits
                    bits[a], bits[b] = bits[b], bits[a]
                elif name == "PauliNoiseChannel":
                    if t[k] == 0:
                        bits[g.qubits[0]] ^= 1
                    k += 1
            out = "".join(str(bits[q]) for m in noisy.measurements for q in m.target_qubits)
            counts[out] = counts.get(out, 0) + 1
        tb.tape, tb.weight, tb.seen = [i for t in tapes for i in t], 1.0, []
        try:
            res = tb.b.execute_circuit(noisy, nshots=len(tapes))
            freq = dict(res.frequencies(binary=True))
        except Exception as e:  # noqa: BLE001
            tb.tape = None
            bad += 1
            ctx.fail("repeated:raises", f"repeated execution raises {type(e).__name__}: {e}", PRELUDE + src + "noisy(nshots=4)\n", broken=["C19_repeated"])
            continue
        left = len(tb.tape)
        tb.tape = None
        ctx.case(("repeated-exact", src))
        ctx.stat("repeated_exact_shots", len(tapes))
        if freq != counts or left:
            bad += 1
            ctx.fail("repeated:forced-tape", f"execute_circuit_repeated with every trajectory forced once gives frequencies {freq}, expected {counts} ({left} tape entries unused)",
                     PRELUDE + src + "import itertools\nfrom qibo.backends import NumpyBackend\nb = NumpyBackend(); real = b.sample_shots\n"
                     "sizes = [len(g.gates) + 1 for g in noisy.queue if isinstance(g, gates.UnitaryChannel)]\n"
                     "tapes = list(itertools.product(*[range(s) for s in sizes])); tape = [i for t in tapes for i in t]\n"
                     "b.sample_shots = lambda p, k: np.array([tape.pop(0)]) if (k == 1 and len(p) == 2 and tape) else real(p, k)\n"
                     f"freq = dict(b.execute_circuit(noisy, nshots=len(tapes)).frequencies(binary=True))\nprint(freq)\nassert freq == {counts!r}\n",
                     expected=str(counts), observed=str(freq), broken=["C19_repeated"])
    # statistical
    for k in range(8 if ctx.thorough else 3):
        n = rng.choice([2, 3])
        gs = gen_circuit(rng, n, rng.randint(2, 5), allow_m=False, allow_chan=False)
        present = sorted({g.split("(")[0].split(".")[1] for g in gs})
        rules = mixture_rules(rng, n, [None] + present, 2, False)
        for r in rules:  # make the noise visible
            if r["kind"] == KIND["depol"]:
                r["params"] = 0.5
                r["err"] = "DepolarizingError(0.5)"
        mq = sorted(rng.sample(range(n), rng.randint(1, n)))
        gs.append(f"gates.M({_q(mq)})")
        src = case_source(n, False, gs, rules) + "noisy = nm.apply(c)\n"
        ns = run_source(src)
        noisy = ns["noisy"]
        if not tape_sizes(noisy.queue):
            continue
        nshots = 3000
        from qibo.backends import NumpyBackend

        b = NumpyBackend()
        b.set_seed(1000 * ctx.seed + k)
        np.random.seed(1000 * ctx.seed + k)
        try:
            freq = dict(b.execute_circuit(noisy, nshots=nshots).frequencies(binary=True))
            cdm = Circuit(n, density_matrix=True)
            for g in noisy.queue:
                if not isinstance(g, gates.M):
                    cdm.add(g)
            rho = np.asarray(b.execute_circuit(cdm).state())
        except Exception as e:  # noqa: BLE001
            bad += 1
            ctx.fail("repeated:raises", f"noisy execution raises {type(e).__name__}: {e}", PRELUDE + src + "noisy(nshots=10)\n", broken=["C19_repeated"])
            continue
        probs = np.real(np.diag(rho)).reshape((2,) * n)
        other = tuple(q for q in range(n) if q not in mq)
        marg = probs.sum(axis=other) if other else probs
        ctx.case(("repeated-stat", src))
        worst = 0.0
        for idx in itertools.product([0, 1], repeat=len(mq)):
            p = float(marg[idx])
            f = freq.get("".join(map(str, idx)), 0) / nshots
            worst = max(worst, abs(f - p))
        if worst > 0.07 or sum(freq.values()) != nshots:
            bad += 1
            ctx.fail("repeated:frequencies", f"frequencies of {nshots} noisy state-vector shots differ from the density-matrix Born probabilities by {worst:.3f}",
                     PRELUDE + src + "# statistical: compare noisy(nshots=3000).frequencies() with the diagonal of the density-matrix run\nraise SystemExit(1)\n",
                     expected=str(np.round(marg, 4).tolist()), observed=str(freq), broken=["C19_repeated"])
    ctx.ob("C19_repeated", bad == 0, "search", f"{bad} failures" if bad else "")


def run(ctx):
    from vlib import qgates

    MODULES, THEOREMS = registry(PROP)
    ctx.theorems = THEOREMS
    build_and_audit(ctx, PROP, MODULES, THEOREMS)
    import sys

    from props import C19_collapse, C19_ibmq

    nb = qgates.np_backend()
    suites = [("apply", lambda: apply_suite(ctx, nb)), ("ibmq", lambda: ibmq_suite(ctx, nb)),
              ("ibmq_model", lambda: C19_ibmq.ibmq_model_suite(ctx, nb, sys.modules[__name__])), ("pauli_map", lambda: pauli_suite(ctx, nb)),
              ("zero_strength", lambda: zero_suite(ctx, nb)), ("exec", lambda: exec_suite(ctx)), ("trajectory", lambda: trajectory_suite(ctx)),
              ("full_weight", lambda: full_weight_suite(ctx)), ("history", lambda: history_suite(ctx, nb)),
              ("repeated", lambda: repeated_suite(ctx)), ("collapse_tree", lambda: C19_collapse.collapse_suite(ctx, sys.modules[__name__]))]
    for name, suite in suites:
        try:
            suite()
        except Exception as e:  # noqa: BLE001 - the real code raised where the suite does not expect it
            import traceback

            tb = traceback.format_exc()
            ctx.log(f"suite {name} aborted:\n{tb[-1500:]}")
            ctx.ob(f"C19_suite_{name}_completed", False, "search", f"{type(e).__name__}: {e}")
    ctx.notes.append(
        "queue correspondence: random circuits (1-5 qubits, <=7 gates incl. controlled_by, multi-register / collapsing / basis "
        "measurements, channels already in the circuit) x random rule lists (all 10 error classes, class keys and None, int/tuple "
        "qubit filters, 0-2 conditions) through the real NoiseModel.apply, IBMQNoiseModel.from_dict and with_pauli_noise vs the Lean "
        "model, exact on class / qubits / coefficients / operator matrices; no-mutation and second-call checks; zero-strength models; "
        "exact dyadic execution of unitary-mixture queues (forced tapes, density matrix, trajectory mean) vs the Lean model; all "
        "trajectories of real noisy circuits vs the density-matrix run to 1e-10; execute_circuit_repeated with a forced tape (exact) "
        "and seeded (statistical); circuits with collapsing measurements before / between / after noise channels: the whole sampling "
        "tree of a shot (measurement outcomes and channel branches forced) vs one repeated execution with all leaves forced and vs the "
        "outcome distribution of the density-matrix run; IBMQNoiseModel.from_dict: the Lean transliteration of the rule generation (fromDict) + attachNoise and the "
        "documented per-gate queue (ibmqSpec, proved equal) vs the real from_dict(...).apply on generated dictionaries in every documented "
        "form (global number / per-qubit dict per entry, key orders, pair keys in both orientations, readout value forms, raising corners)")
    ctx.assumptions.append("qubit order inside channels created by a rule WITH a qubit filter is not compared (it comes from a Python set); "
                           "generated multi-qubit operators of such rules are symmetric under qubit exchange")
    ctx.assumptions.append("the law of large numbers (mean of i.i.d. shots converges to the expectation proved in T19_trajectory_mean) is not formalised; "
                           "it is exercised by the seeded frequency comparison")
    ctx.trusted.append("np.random.choice samples index i with the probability it is given (the sampler is replaced by a tape in the exact checks)")
