"""C07 — gate fusion and light-cone reduction preserve the meaning of a circuit.

Real code driven: `Circuit.fuse(max_qubits)` (hence `_Queue.to_fused/from_fused`,
`FusedGate.from_gate/can_fuse/fuse/append/prepend`), execution of the fused circuit
(`FusedGate.matrix` -> `NumpyBackend.matrix_fused`, `apply_gate`), `Circuit.light_cone`.

Ingredients
  * theorems (lean/QV/Props/C07.lean) about the models QV/Model/TraceEq.lean, Fusion.lean;
  * correspondence: the model of the fusion algorithm / of matrix_fused / of the light-cone
    sweep against the real output, and the Lean decision `~t` on every real fused queue;
  * direct search: the real fused circuit against the real original circuit (exact on
    Gaussian-integer data) and against the Lean simulator; reduced states of light cones.
"""
from __future__ import annotations

import itertools

import numpy as np

from props import C01
from vlib import qgates
from vlib.driver import gi_tokens, parse_gi, run_driver
from vlib.proofs import build_and_audit, registry

PROP = "C07"
DRV = "DriverC07.lean"
BIG = 2**46

INT1 = ["X", "Y", "Z", "S", "SDG"]
INT2 = ["CNOT", "CY", "CZ", "SWAP", "iSWAP", "FSWAP"]
INT3 = ["TOFFOLI", "CCZ"]
PAR1 = ["RX", "RY", "RZ", "U1", "GPI2"]
PAR2 = ["CRX", "CRY", "CU1", "RXX", "RZZ", "RBS", "GIVENS"]
FIX1 = ["H", "T", "SX"]


# ---------------------------------------------------------------------------
# circuit specifications (plain tuples, so that every failing input can be replayed)


def mat_tuple(m):
    return tuple(tuple(complex(x) for x in row) for row in np.asarray(m))


def rand_unitary_int(rng, k):
    """Gaussian-integer UNITARY matrix: permutation with phases 1, -1, i, -i."""
    d = 2**k
    perm = list(range(d))
    rng.shuffle(perm)
    m = np.zeros((d, d), dtype=complex)
    for i, p in enumerate(perm):
        m[i, p] = rng.choice([1, -1, 1j, -1j])
    return m


def rand_dense_int(rng, k):
    d = 2**k
    vals = [1, -1, 1j, -1j, 2, 1 + 1j, -1 + 2j, 0, 0]
    return np.array([[rng.choice(vals) for _ in range(d)] for _ in range(d)], dtype=complex)


def spec_unitary(rng, qs, cs=(), dense=False, unitary=False):
    k = len(qs)
    m = rand_unitary_int(rng, k) if (unitary or not dense) else rand_dense_int(rng, k)
    return ("U", mat_tuple(m), tuple(qs), tuple(cs))


def rand_spec_gate(rng, n, dense=False, unitary_only=False, floats=False):
    """one ordinary gate on a random (non-ascending, non-adjacent allowed) qubit tuple."""
    r = rng.random()
    kmax = min(n, 3)
    if floats and r < 0.5:
        k = rng.choice([1, 1, 2]) if n >= 2 else 1
        qs = rng.sample(range(n), k)
        if k == 1:
            name = rng.choice(PAR1 + FIX1)
            if name in FIX1:
                return ("N", name, tuple(qs), ())
            return ("P", name, tuple(qs), (rng.uniform(-3, 3),), ())
        name = rng.choice(PAR2)
        return ("P", name, tuple(qs), (rng.uniform(-3, 3),), ())
    if r < 0.3:
        k = rng.randint(1, kmax)
        name = rng.choice({1: INT1, 2: INT2, 3: INT3}[k])
        qs = rng.sample(range(n), k)
        rest = [q for q in range(n) if q not in qs]
        cs = ()
        if rest and k == 1 and rng.random() < 0.3:
            cs = tuple(rng.sample(rest, rng.randint(1, min(2, len(rest)))))
        return ("N", name, tuple(qs), cs)
    k = rng.choice([1, 1, 2, 2, 2, 3])
    k = min(k, kmax)
    qs = rng.sample(range(n), k)
    rest = [q for q in range(n) if q not in qs]
    cs = ()
    if rest and rng.random() < 0.35:
        cs = tuple(rng.sample(rest, rng.randint(1, min(2, len(rest)))))
    return spec_unitary(rng, qs, cs, dense=dense, unitary=unitary_only)


def build(n, spec, density=False):
    """real qibo circuit from a spec; returns (circuit, callbacks)."""
    from qibo import Circuit, callbacks, gates

    c = Circuit(n, density_matrix=density)
    cbs = []
    objs = []
    for s in spec:
        kind = s[0]
        if kind == "R":  # the same gate OBJECT as spec item s[1], added again
            objs.append(objs[s[1]])
            c.add(objs[s[1]])
            continue
        if kind == "U":
            g = gates.Unitary(np.array(s[1]), *s[2], check_unitary=False)
            if s[3]:
                g = g.controlled_by(*s[3])
        elif kind == "N":
            g = getattr(gates, s[1])(*s[2])
            if s[3]:
                g = g.controlled_by(*s[3])
        elif kind == "P":
            g = getattr(gates, s[1])(*s[2], *s[3])
            if s[4]:
                g = g.controlled_by(*s[4])
        elif kind == "M":
            g = gates.M(*s[1])
        elif kind == "CB":
            cb = callbacks.Norm()
            cbs.append(cb)
            g = gates.CallbackGate(cb)
        else:  # pragma: no cover
            raise ValueError(kind)
        objs.append(g)
        c.add(g)
    return c, cbs


def code(n, spec, density=False):
    """python source that rebuilds the circuit `c` of a spec (gate objects g0, g1, ...)."""
    lines = ["import numpy as np", "from qibo import Circuit, gates, callbacks", "from qibo.backends import NumpyBackend",
             "nb = NumpyBackend()", f"c = Circuit({n}, density_matrix={density})", "cbs = []"]
    for idx, s in enumerate(spec):
        kind = s[0]
        if kind == "R":
            lines.append(f"g{idx} = g{s[1]}  # the same gate object again")
            lines.append(f"c.add(g{idx})")
            continue
        if kind == "U":
            m = [[complex(x) for x in row] for row in s[1]]
            ctor = f"gates.Unitary(np.array({m}), *{list(s[2])}, check_unitary=False)"
            if s[3]:
                ctor += f".controlled_by(*{list(s[3])})"
        elif kind == "N":
            ctor = f"gates.{s[1]}(*{list(s[2])})"
            if s[3]:
                ctor += f".controlled_by(*{list(s[3])})"
        elif kind == "P":
            ctor = f"gates.{s[1]}(*{list(s[2])}, *{list(s[3])})"
            if s[4]:
                ctor += f".controlled_by(*{list(s[4])})"
        elif kind == "M":
            ctor = f"gates.M(*{list(s[1])})"
        else:
            lines.append("cbs.append(callbacks.Norm())")
            ctor = "gates.CallbackGate(cbs[-1])"
        lines.append(f"g{idx} = {ctor}")
        lines.append(f"c.add(g{idx})")
    return "\n".join(lines) + "\n"


def spec_support(s):
    if s[0] == "R":
        return spec_support(s[2])
    if s[0] == "M":
        return tuple(s[1])
    if s[0] == "CB":
        return ()
    if s[0] == "P":
        return tuple(s[2]) + tuple(s[4])
    return tuple(s[2]) + tuple(s[3])


def short(spec):
    out = []
    for s in spec:
        if s[0] == "R":
            out.append(f"again#{s[1]}")
        elif s[0] == "U":
            out.append(f"U{list(s[2])}" + (f"c{list(s[3])}" if s[3] else ""))
        elif s[0] == "N":
            out.append(f"{s[1]}{list(s[2])}" + (f"c{list(s[3])}" if s[3] else ""))
        elif s[0] == "P":
            out.append(f"{s[1]}{list(s[2])}")
        elif s[0] == "M":
            out.append(f"M{list(s[1])}")
        else:
            out.append("CB")
    return " ".join(out)


def has_reuse(spec):
    return any(s[0] == "R" for s in spec)


def fkey(prefix, what, spec):
    """key of a failure: circuits that add one gate OBJECT several times have their own key."""
    if has_reuse(spec):
        return ("light_cone" if prefix == "cone" else prefix) + ":repeated-object"
    return f"{prefix}:{what}:{key_class(spec)}"


def key_class(spec):
    """stable short key of the input class of a failing circuit."""
    if has_reuse(spec):
        return "repeated-object"
    if any(s[0] in ("M", "CB") for s in spec):
        return "special"
    if any((s[0] == "P" and s[4]) or (s[0] in ("U", "N") and s[3]) for s in spec):
        return "controlled"
    return "plain"


# ---------------------------------------------------------------------------
# what the model sees of the real circuit


def queue_tokens(c):
    from qibo import gates

    t = []
    for g in c.queue:
        kind = 1 if isinstance(g, gates.M) else 2 if isinstance(g, gates.SpecialGate) else 0
        qs = list(g.qubits)
        t.append(f"{kind} {len(qs)} {' '.join(map(str, qs))}")
    return f"{len(c.queue)} " + " ".join(t)


def gate_sig(g):
    from qibo import gates

    if isinstance(g, (gates.M, gates.SpecialGate)):
        return (g.__class__.__name__, tuple(g.target_qubits), ())
    m = np.asarray(g.matrix(qgates.np_backend()))
    return (g.__class__.__name__, tuple(g.target_qubits), tuple(g.control_qubits), m.round(12).tobytes())


def real_groups(c, fused):
    """groups of the fused queue as POSITIONS in the original queue.  A gate object may have
    been added several times: its occurrences are handed out in queue order (two occurrences
    of one object act on the same qubits, so no trace-equivalent reordering can swap them).
    Falls back to signatures if the implementation ever starts copying gates.  None if the
    fused queue holds a gate (or one occurrence too many of a gate) that the original lacks."""
    from qibo import gates

    occ = {}
    for i, g in enumerate(c.queue):
        occ.setdefault(id(g), []).append(i)
    nxt = {k: 0 for k in occ}
    used = set()

    def pos(g):
        i = None
        lst = occ.get(id(g))
        if lst is not None:
            if nxt[id(g)] < len(lst):
                i = lst[nxt[id(g)]]
                nxt[id(g)] += 1
        else:
            sig = gate_sig(g)
            for j, h in enumerate(c.queue):
                if j not in used and gate_sig(h) == sig:
                    i = j
                    break
        if i is not None:
            used.add(i)
        return i

    groups, objs = [], []
    for g in fused.queue:
        if isinstance(g, gates.FusedGate) and id(g) not in occ:
            grp = [pos(m) for m in g.gates]
        else:
            grp = [pos(g)]
        if any(i is None for i in grp):
            return None, None
        groups.append(grp)
        objs.append(g)
    return groups, objs


def int_state(rng, n, lo=-2, hi=2):
    while True:
        psi = np.array([complex(rng.randint(lo, hi), rng.randint(lo, hi)) for _ in range(2**n)])
        if np.any(psi != 0):
            return psi


def lean_gate_tokens(c):
    """tokens of the ordinary gates of a queue (measurements / callbacks do not change the state)."""
    from qibo import gates

    gs = [g for g in c.queue if not isinstance(g, (gates.M, gates.SpecialGate))]
    return len(gs), " ".join(C01.gate_tokens(g) for g in gs)


# ---------------------------------------------------------------------------
# case generation


def supports(n):
    out = []
    for k in range(1, min(n, 3) + 1):
        out += list(itertools.combinations(range(n), k))
    return out


def exhaustive_specs(ctx, n, length, with_special):
    """all sequences of `length` symbols over: a gate on every qubit subset of size <= 3
    (random Gaussian-integer matrix, random qubit order inside the subset, sometimes the last
    qubits as controls), a measurement of one qubit, a callback gate."""
    rng = ctx.rng
    syms = [("G", s) for s in supports(n)]
    if with_special:
        syms += [("M", (q,)) for q in range(min(n, 2))] + [("CB", ())]
    for seq in itertools.product(syms, repeat=length):
        spec = []
        for kind, sup in seq:
            if kind == "G":
                qs = list(sup)
                rng.shuffle(qs)
                ncs = rng.choice([0, 0, 1]) if len(qs) > 1 else 0
                spec.append(spec_unitary(rng, qs[: len(qs) - ncs], qs[len(qs) - ncs:], dense=True))
            elif kind == "M":
                spec.append(("M", sup))
            else:
                spec.append(("CB",))
        # a measured qubit that is used again turns the measurement into a collapse
        # (random outcome): keep non-collapsing measurements only
        yield spec


def is_deterministic(spec):
    measured = set()
    for s in spec:
        if s[0] == "M":
            if measured & set(s[1]):
                return False  # measuring a qubit twice is not a valid circuit
            measured |= set(s[1])
        elif s[0] != "CB" and measured & set(spec_support(s)):
            return False
    return True


def valid_measurements(spec):
    """two measurements of the same qubit with no gate on it in between crash the original
    circuit's own execution (register of a collapsed qubit): leave those out."""
    pending = set()
    for s in spec:
        if s[0] == "M":
            if pending & set(s[1]):
                return False
            pending |= set(s[1])
        elif s[0] != "CB":
            pending -= set(spec_support(s))
    return True


def random_spec(rng, n, depth, special=True, dense=False, unitary_only=False, floats=False):
    spec = []
    measured = set()
    for _ in range(depth):
        r = rng.random()
        if special and r < 0.05:
            free = [q for q in range(n) if q not in measured]
            if free:
                qs = rng.sample(free, rng.randint(1, min(2, len(free))))
                measured |= set(qs)
                spec.append(("M", tuple(qs)))
                continue
        if special and r < 0.10:
            spec.append(("CB",))
            continue
        for _ in range(20):
            s = rand_spec_gate(rng, n, dense=dense, unitary_only=unitary_only, floats=floats)
            if not (measured & set(spec_support(s))):
                spec.append(s)
                break
    return spec


def collapse_spec(rng, n, depth):
    """monomial gates only, measurements in the middle, gates on measured qubits afterwards:
    on a basis state every measurement outcome is certain, so the run is deterministic."""
    spec = []
    measured = False
    for i in range(depth):
        r = rng.random()
        if r < 0.18 and i > 0:
            spec.append(("M", tuple(rng.sample(range(n), rng.randint(1, min(2, n))))))
            measured = True
            continue
        k = rng.randint(1, min(n, 3))
        qs = rng.sample(range(n), k)
        if rng.random() < 0.5:
            spec.append(("N", rng.choice({1: INT1, 2: INT2, 3: INT3}[k]), tuple(qs), ()))
        else:
            ncs = rng.choice([0, 0, 1]) if k > 1 else 0
            spec.append(spec_unitary(rng, qs[: k - ncs], qs[k - ncs:], unitary=True))
    if not measured:
        spec.insert(len(spec) // 2 + 1, ("M", (rng.randrange(n),)))
    # no register may be measured twice by two M gates on the same qubit without a gate in between: fine for qibo
    return spec


def manual_run(circ, psi):
    """apply the queue gate by gate (what execute_circuit does for one shot)."""
    nb = qgates.np_backend()
    state = nb.cast(psi.copy())
    for g in circ.queue:
        state = g.apply(nb, state, circ.nqubits)
    return np.asarray(state)


def reuse_spec(rng, n, depth, unitary_only=False, floats=False, dense=False):
    """circuits in which gate OBJECTS are added 2-3 times (adjacent and distant positions;
    1-, 2-, 3-qubit, controlled and parametrised gates), mixed with fresh gates."""
    spec = []
    uses = {}
    while len(spec) < depth:
        orig = [i for i, s0 in enumerate(spec) if s0[0] not in ("R", "M", "CB") and uses.get(i, 1) < 3]
        r = rng.random()
        if orig and r < 0.45:
            k = orig[-1] if rng.random() < 0.3 else rng.choice(orig)  # adjacent or distant
            spec.append(("R", k, spec[k]))
            uses[k] = uses.get(k, 1) + 1
        else:
            spec.append(rand_spec_gate(rng, n, dense=dense, unitary_only=unitary_only, floats=floats))
    if not has_reuse(spec):
        k = rng.randrange(len(spec))
        spec.append(("R", k, spec[k]))
    return spec


def reuse_patterns(rng, n, unitary_only=False):
    """small systematic family:  A  ent  B  ent  C  with `ent` ONE object on every qubit
    subset and A, B, C fresh gates on every subset (B between the two occurrences)."""
    out = []
    sups = supports(n)
    for e in sups:
        for b in sups:
            for a_, c_ in ((rng.choice(sups), rng.choice(sups)) for _ in range(2)):
                def mk(sup):
                    qs = list(sup)
                    rng.shuffle(qs)
                    return spec_unitary(rng, qs, (), dense=not unitary_only, unitary=unitary_only)
                spec = [mk(a_), mk(e), mk(b)]
                spec.append(("R", 1, spec[1]))
                spec.append(mk(c_))
                if rng.random() < 0.3:
                    spec.append(("R", 1, spec[1]))
                out.append(spec)
    return out


def layered_spec(rng, n, layers):
    """adversarial shape: non-commuting partners separated by gates on other qubits."""
    spec = []
    for _ in range(layers):
        a, b = rng.sample(range(n), 2)
        spec.append(spec_unitary(rng, [a, b]))
        others = [q for q in range(n) if q not in (a, b)]
        rng.shuffle(others)
        for q in others[: rng.randint(0, len(others))]:
            spec.append(spec_unitary(rng, [q]))
        if others and rng.random() < 0.6:
            spec.append(spec_unitary(rng, [rng.choice([a, b]), rng.choice(others)]))
        spec.append(spec_unitary(rng, [rng.choice([a, b])]))
    return spec


# ---------------------------------------------------------------------------
# fusion


class FuseCase:
    __slots__ = ("n", "spec", "mq", "c", "fused", "groups", "objs", "psi", "density", "cbs", "mode")


def fusion_cases(ctx):
    rng = ctx.rng
    cases = []  # (n, spec, [maxq...], semantic?)
    # exhaustive small circuits
    for n, length, special in ((1, 3, True), (2, 3, True), (3, 2, True), (3, 3, False)):
        for spec in exhaustive_specs(ctx, n, length, special):
            if is_deterministic(spec):
                cases.append((n, spec, list(range(1, n + 2)), "exec"))
            elif valid_measurements(spec):
                cases.append((n, spec, list(range(1, n + 1)), "struct"))
    # a seeded sample of the longer exhaustive families (all of them in the thorough tier)
    fams = [(2, 4, True), (3, 4, False), (3, 3, True), (4, 3, False)]
    if ctx.thorough:
        fams += [(2, 5, False), (3, 5, False), (4, 4, False)]
    for n, length, special in fams:
        nsyms = len(supports(n)) + (min(n, 2) + 1 if special else 0)
        total = nsyms**length
        budget = 4000 if ctx.thorough else 700
        p = min(1.0, budget / total)
        for spec in exhaustive_specs(ctx, n, length, special):
            if rng.random() < p and valid_measurements(spec):
                cases.append((n, spec, list(range(1, n + 1)), "exec" if is_deterministic(spec) else "struct"))
    # random deep circuits
    for _ in range(400 if ctx.thorough else 90):
        n = rng.randint(2, 6)
        depth = rng.randint(4, 30)
        spec = random_spec(rng, n, depth, special=rng.random() < 0.5)
        cases.append((n, spec, list(range(1, n + 1)), "exec"))
    for _ in range(500 if ctx.thorough else 160):
        n = rng.randint(3, 6)
        spec = layered_spec(rng, n, rng.randint(2, 6))
        cases.append((n, spec, list(range(1, n + 1)), "exec"))
    # gate objects added several times
    for n in (2, 3):
        pats = reuse_patterns(rng, n)
        if not ctx.thorough and n == 3:
            pats = rng.sample(pats, 40)
        for spec in pats:
            cases.append((n, spec, list(range(1, n + 1)), "exec"))
    for _ in range(300 if ctx.thorough else 90):
        n = rng.randint(1, 5)
        spec = reuse_spec(rng, n, rng.randint(2, 16), dense=rng.random() < 0.3 and n <= 3)
        cases.append((n, spec, list(range(1, n + 1)), "exec"))
    for _ in range(200 if ctx.thorough else 60):
        n = rng.randint(1, 4)
        spec = collapse_spec(rng, n, rng.randint(3, 12))
        if valid_measurements(spec):
            cases.append((n, spec, list(range(1, n + 1)), "manual"))
    return cases


def fusion_suite(ctx):
    from qibo import gates

    nb = qgates.np_backend()
    rng = ctx.rng
    items = []
    lines = []
    struct_bad = teq_bad = sizes_bad = sem_bad = meas_bad = mut_bad = mat_bad = model_bad = 0
    for n, spec, mqs, mode in fusion_cases(ctx):
        try:
            c, cbs = build(n, spec)
        except Exception:  # noqa: BLE001  not a valid circuit
            ctx.stat('spec_rejected_by_qibo')
            continue
        qt = queue_tokens(c)
        before = [(id(g), gate_sig(g)) for g in c.queue]
        meas_before = list(c.measurements)
        for mq in mqs:
            it = FuseCase()
            it.n, it.spec, it.mq, it.c, it.cbs, it.mode = n, spec, mq, c, cbs, mode
            try:
                it.fused = c.fuse(max_qubits=mq)
            except Exception as e:  # noqa: BLE001
                ctx.fail(f"fuse:raises:{type(e).__name__}", f"Circuit.fuse(max_qubits={mq}) raises {e!r} on {short(spec)}",
                         code(n, spec) + f"c.fuse(max_qubits={mq})\n", broken=["C07_search_fuse_semantics"])
                sem_bad += 1
                continue
            it.groups, it.objs = real_groups(c, it.fused)
            items.append(it)
            ctx.case(("fuse", n, mq, short(spec)))
            ctx.stat(f"fuse_n{n}")
            ctx.stat(f"fuse_len{min(len(spec), 10) if len(spec) < 10 else '10+'}")
            # -- the original circuit is not changed by fuse
            after = [(id(g), gate_sig(g)) for g in c.queue]
            if after != before or list(c.measurements) != meas_before:
                mut_bad += 1
                ctx.fail("fuse:mutates-input", f"Circuit.fuse changes the original circuit {short(spec)}",
                         code(n, spec) + "q0 = [(id(g), g.qubits) for g in c.queue]\n" + f"c.fuse(max_qubits={mq})\n"
                         "assert q0 == [(id(g), g.qubits) for g in c.queue]\n", broken=["C07_search_fuse_semantics"])
            lines.append(f"FUSE {n} {mq} {qt}")
            flat = [i for grp in (it.groups or []) for i in grp]
            lines.append(f"TEQ {n} {qt} {len(flat)} {' '.join(map(str, flat))}")
    outs = run_driver(lines, driver=DRV)
    sem_lines, sem_meta = [], []
    nsamples = 0
    for k, it in enumerate(items):
        n, spec, mq, c, fused = it.n, it.spec, it.mq, it.c, it.fused
        mout, teq = outs[2 * k], outs[2 * k + 1]
        grp_s, flags = mout.split(" ; ")
        model = [[int(x) for x in g.split(",")] for g in grp_s.split("|")] if grp_s.strip() else []
        hdr = code(n, spec) + f"f = c.fuse(max_qubits={mq})\n"
        if flags != "sizes=1 perm=1 teq=1":
            # the MODEL's own output fails the checks the theorems speak about
            model_bad += 1
            if model_bad <= 3:
                ctx.log(f"model output fails its own checks: {mout} on {short(spec)} mq={mq}")
        if it.groups is None:
            sem_bad += 1
            ctx.fail("fuse:foreign-gate", f"fused queue of {short(spec)} (max_qubits={mq}) contains a gate that is not a gate of the original circuit",
                     hdr + "ids = {id(g) for g in c.queue}\nfor g in f.queue:\n    for m in (g.gates if isinstance(g, gates.FusedGate) and id(g) not in ids else [g]):\n        assert id(m) in ids, m\n",
                     broken=["C07_corr_fuse_structure"])
            continue
        flat = [i for grp in it.groups for i in grp]
        # -- structure: model == real
        if model != it.groups:
            struct_bad += 1
            if struct_bad <= 3:
                ctx.log(f"fusion structure differs: n={n} mq={mq} {short(spec)} model={model} real={it.groups}")
        # -- flatten(real) is a permutation and ~t the input (Lean decision)
        if sorted(flat) != list(range(len(c.queue))) or teq != "1":
            teq_bad += 1
            ctx.fail(fkey("fuse", "order", spec), f"flattened fused queue of {short(spec)} (max_qubits={mq}) is not a reordering of the original queue that keeps the order of gates sharing a qubit: {it.groups}",
                     hdr + TEQ_PY, expected="trace equivalent to " + str(list(range(len(c.queue)))), observed=str(it.groups),
                     broken=["C07_corr_fuse_traceeq"])
        # -- group sizes / qubit sets
        for grp, g in zip(it.groups, it.objs):
            if len(grp) > 1:
                want = tuple(sorted({q for i in grp for q in c.queue[i].qubits}))
                if tuple(g.target_qubits) != want or len(want) > mq or g.control_qubits != ():
                    sizes_bad += 1
                    ctx.fail(fkey("fuse", "group-qubits", spec), f"fused group {grp} of {short(spec)} (max_qubits={mq}) has qubits {g.target_qubits}, members act on {want}",
                             hdr + f"for g in f.queue:\n    if isinstance(g, gates.FusedGate):\n        want = tuple(sorted({{q for m in g.gates for q in m.qubits}}))\n        assert tuple(g.target_qubits) == want and len(want) <= {mq}, (g.target_qubits, want)\n",
                             expected=str(want), observed=str(tuple(g.target_qubits)), broken=["C07_search_fuse_sizes"])
            ctx.stat(f"group_size_{min(len(grp), 6)}")
        ctx.stat("fused_groups", sum(1 for grp in it.groups if len(grp) > 1))
        # -- measurements and registers kept
        ms_o = [g for g in c.queue if isinstance(g, gates.M)]
        ms_f = [g for g in fused.queue if isinstance(g, gates.M)]
        cb_o = [id(g) for g in c.queue if isinstance(g, gates.CallbackGate)]
        cb_f = [id(g) for g in fused.queue if isinstance(g, gates.CallbackGate)]
        if ([id(g) for g in ms_o] != [id(g) for g in ms_f] or list(map(id, fused.measurements)) != list(map(id, c.measurements))
                or fused.measurement_tuples != c.measurement_tuples or cb_o != cb_f or fused.nqubits != c.nqubits):
            meas_bad += 1
            ctx.fail("fuse:measurements", f"fused circuit of {short(spec)} (max_qubits={mq}) does not keep the measurements / registers / callbacks",
                     hdr + "assert [id(g) for g in c.queue if isinstance(g, gates.M)] == [id(g) for g in f.queue if isinstance(g, gates.M)]\n"
                     "assert f.measurement_tuples == c.measurement_tuples and [id(m) for m in f.measurements] == [id(m) for m in c.measurements]\n"
                     "assert [id(g) for g in c.queue if isinstance(g, gates.CallbackGate)] == [id(g) for g in f.queue if isinstance(g, gates.CallbackGate)]\n",
                     broken=["C07_search_fuse_measurements"])
        # -- semantics, exact
        if it.mode == "struct":
            ctx.stat("fuse_structure_only")
            continue
        if it.mode == "manual":
            # collapsing measurements in the middle: basis state + monomial gates => every
            # outcome is certain; apply the queues gate by gate
            psi = np.zeros(2**n, dtype=complex)
            psi[rng.randrange(2**n)] = 1
            run_py = "def run(circ, psi):\n    s = nb.cast(psi.copy())\n    for g in circ.queue:\n        s = g.apply(nb, s, circ.nqubits)\n    return np.asarray(s)\n"
            try:
                ref = manual_run(c, psi)
            except Exception:  # noqa: BLE001
                ctx.stat("original_not_executable")
                continue
            try:
                out = manual_run(fused, psi)
                ok = np.allclose(out, ref, atol=1e-12)
            except Exception as e:  # noqa: BLE001
                out, ok = repr(e), False
            ctx.stat("fuse_collapse_runs")
            if not ok:
                sem_bad += 1
                ctx.fail("fuse:state:collapse", f"fused circuit (max_qubits={mq}) of {short(spec)} (collapsing measurements in the middle, basis-state input) ends in a different state",
                         hdr + run_py + f"psi = np.array({psi.tolist()})\nref = run(c, psi)\nout = run(f, psi)\nassert np.allclose(out, ref, atol=1e-12), (out, ref)\n",
                         expected=str(ref.tolist()), observed=str(out if isinstance(out, str) else out.tolist()), broken=["C07_search_fuse_semantics"])
            continue
        psi = int_state(rng, n)
        it.psi = psi
        try:
            ncb0 = [len(cb.results) for cb in it.cbs]
            ref = np.asarray(nb.execute_circuit(c, initial_state=psi.copy()).state())
            cb_ref = [list(cb.results[k0:]) for cb, k0 in zip(it.cbs, ncb0)]
            ncb1 = [len(cb.results) for cb in it.cbs]
        except Exception:  # noqa: BLE001  the ORIGINAL circuit is not executable: not a fusion matter
            ctx.stat("original_not_executable")
            continue
        try:
            out = np.asarray(nb.execute_circuit(fused, initial_state=psi.copy()).state())
            cb_out = [list(cb.results[k1:]) for cb, k1 in zip(it.cbs, ncb1)]
        except Exception as e:  # noqa: BLE001
            sem_bad += 1
            ctx.fail(f"fuse:exec-raises:{type(e).__name__}", f"executing the fused circuit of {short(spec)} (max_qubits={mq}) raises {e!r}",
                     hdr + f"psi = np.array({psi.tolist()})\nnb.execute_circuit(c, initial_state=psi.copy())\nnb.execute_circuit(f, initial_state=psi.copy())\n",
                     broken=["C07_search_fuse_semantics"])
            continue
        if np.abs(ref).max(initial=0) > BIG:
            ctx.stat("skipped_large")
            continue
        cb_ok = len(cb_ref) == len(cb_out) and all(len(a) == len(b) and np.allclose(a, b, rtol=1e-12, atol=1e-9) for a, b in zip(cb_ref, cb_out))
        if not np.array_equal(out, ref) or not cb_ok:
            sem_bad += 1
            ctx.fail(fkey("fuse", "state", spec), f"fused circuit (max_qubits={mq}) of {short(spec)} maps an initial state to a different final state" + ("" if cb_ok else " / callback values differ"),
                     hdr + f"psi = np.array({psi.tolist()})\nref = nb.execute_circuit(c, initial_state=psi.copy()).state()\nr0 = [list(cb.results) for cb in cbs]\n"
                     "out = nb.execute_circuit(f, initial_state=psi.copy()).state()\nr1 = [list(cb.results[len(a):]) for cb, a in zip(cbs, r0)]\n"
                     "assert np.array_equal(out, ref), (out, ref)\nassert all(np.allclose(a, b) for a, b in zip(r0, r1)), (r0, r1)\n",
                     expected=str(ref.tolist()), observed=str(out.tolist()),
                     broken=["C07_search_fuse_semantics"] + (["C07_corr_fuse_structure", "C07_corr_fuse_traceeq", "C07_corr_fuse_sim", "C07_corr_matrix_fused", "C07_search_fuse_sizes"] if has_reuse(spec) else []))
        # -- Lean simulator on the ORIGINAL queue, and Lean matrix_fused model on the REAL grouping
        if n <= 5 and len(spec) <= 16 and (len(spec) > 4 or k % (3 if ctx.thorough else 8) == 0):
            ng, gl = lean_gate_tokens(c)
            sem_lines.append(f"SV {n} {ng} {gl} {gi_tokens(psi)}")
            sem_meta.append(("SV", it, out, None))
            parts = []
            okgrp = True
            for grp, g in zip(it.groups, it.objs):
                mem = [c.queue[i] for i in grp if not isinstance(c.queue[i], (gates.M, gates.SpecialGate))]
                if not mem:
                    continue
                Q = list(g.target_qubits) if len(grp) > 1 else sorted(g.qubits)
                if len(Q) > 4:
                    okgrp = False
                    break
                parts.append(f"{len(Q)} {' '.join(map(str, Q))} {len(mem)} " + " ".join(C01.gate_tokens(m) for m in mem))
            if okgrp:
                sem_lines.append(f"SVF {n} {len(parts)} {' '.join(parts)} {gi_tokens(psi)}")
                sem_meta.append(("SVF", it, out, None))
            for grp, g in zip(it.groups, it.objs):
                if len(grp) > 1 and len(g.target_qubits) <= 3:
                    Q = list(g.target_qubits)
                    mem = [c.queue[i] for i in grp]
                    sem_lines.append(f"FMAT {len(Q)} {' '.join(map(str, Q))} {len(mem)} " + " ".join(C01.gate_tokens(m) for m in mem))
                    sem_meta.append(("FMAT", it, np.asarray(g.matrix(nb)).reshape(-1), grp))
        if nsamples < 4 and len(spec) >= 4 and any(len(g) > 1 for g in it.groups):
            nsamples += 1
            ctx.sample({"kind": "fuse", "n": n, "max_qubits": mq, "circuit": short(spec), "fused_groups": it.groups})
    # Lean side of the semantics
    souts = run_driver(sem_lines, driver=DRV) if sem_lines else []
    lean_bad = 0
    for (kind, it, real, grp), o in zip(sem_meta, souts):
        model = parse_gi(o)
        if np.abs(model).max(initial=0) > BIG:
            continue
        ctx.case((kind, it.n, it.mq, short(it.spec), tuple(grp or ())))
        ctx.stat(f"lean_{kind}")
        if not np.array_equal(model, real):
            hdr = code(it.n, it.spec) + f"f = c.fuse(max_qubits={it.mq})\n"
            if kind == "FMAT":
                mat_bad += 1
                ctx.fail(fkey("fuse", "matrix_fused", it.spec), f"matrix of the fused group {grp} of {short(it.spec)} (max_qubits={it.mq}) is not the product of its members",
                         hdr + f"expected = np.array({model.tolist()})\ng = [g for g in f.queue if isinstance(g, gates.FusedGate)]\n"
                         "assert any(np.array_equal(np.asarray(x.matrix(nb)).reshape(-1), expected) for x in g)\n",
                         expected=str(model.tolist()), observed=str(real.tolist()), broken=["C07_corr_matrix_fused"])
            else:
                lean_bad += 1
                ctx.fail(fkey("fuse", "state-vs-model", it.spec), f"fused circuit (max_qubits={it.mq}) of {short(it.spec)}: final state differs from the Lean simulator ({kind})",
                         hdr + f"psi = np.array({it.psi.tolist()})\nout = nb.execute_circuit(f, initial_state=psi.copy()).state()\nexpected = np.array({model.tolist()})\nassert np.array_equal(out, expected), (out, expected)\n",
                         expected=str(model.tolist()), observed=str(real.tolist()), broken=["C07_corr_fuse_sim"])
    ctx.ob("C07_model_selfcheck", model_bad == 0, "correspondence", f"{model_bad} model outputs violate sizes/perm/~t (contradicting T07_fuse_trace / T07_fuse_perm / T07_fuse_groups_ok: driver or model file changed?)" if model_bad else "")
    ctx.ob("C07_corr_fuse_structure", struct_bad == 0, "correspondence", f"{struct_bad} circuits where the model's fused queue differs from Circuit.fuse" if struct_bad else "")
    ctx.ob("C07_corr_fuse_traceeq", teq_bad == 0, "correspondence", f"{teq_bad} real fused queues not ~t the input" if teq_bad else "")
    ctx.ob("C07_corr_fuse_sim", lean_bad == 0, "correspondence", f"{lean_bad} disagreements with the Lean simulator" if lean_bad else "")
    ctx.ob("C07_corr_matrix_fused", mat_bad == 0, "correspondence", f"{mat_bad} fused matrices differ from the model" if mat_bad else "")
    ctx.ob("C07_search_fuse_semantics", sem_bad == 0 and mut_bad == 0, "search", f"{sem_bad + mut_bad} failures" if sem_bad + mut_bad else "")
    ctx.ob("C07_search_fuse_sizes", sizes_bad == 0, "search", f"{sizes_bad} failures" if sizes_bad else "")
    ctx.ob("C07_search_fuse_measurements", meas_bad == 0, "search", f"{meas_bad} failures" if meas_bad else "")
    if struct_bad and not ctx.failures:
        # the model no longer mirrors the code: widen the direct search before giving up
        fusion_deep_search(ctx, 1500)


POS_PY = """occ = {}
for i, g in enumerate(c.queue):
    occ.setdefault(id(g), []).append(i)
def groups(f):
    nxt = {k: 0 for k in occ}
    def pos(g):
        nxt[id(g)] += 1
        return occ[id(g)][nxt[id(g)] - 1]
    return [[pos(m) for m in g.gates] if (isinstance(g, gates.FusedGate) and id(g) not in occ) else [pos(g)] for g in f.queue]
"""
TEQ_PY = POS_PY + """flat = [i for grp in groups(f) for i in grp]
assert sorted(flat) == list(range(len(c.queue))), flat
def sup(g):
    return set(range(c.nqubits)) if isinstance(g, gates.SpecialGate) else set(g.qubits)
for q in range(c.nqubits):
    assert [i for i in flat if q in sup(c.queue[i])] == [i for i in range(len(c.queue)) if q in sup(c.queue[i])], (q, flat)
"""


def fusion_deep_search(ctx, count):
    """plain property search on the real code only (no model): random circuits, exact."""
    nb = qgates.np_backend()
    rng = ctx.rng
    for _ in range(count):
        n = rng.randint(2, 6)
        spec = random_spec(rng, n, rng.randint(3, 30), special=rng.random() < 0.3) if rng.random() < 0.6 else layered_spec(rng, n, rng.randint(2, 7))
        c, _ = build(n, spec)
        psi = int_state(rng, n)
        ref = np.asarray(nb.execute_circuit(c, initial_state=psi.copy()).state())
        if np.abs(ref).max(initial=0) > BIG:
            continue
        for mq in range(1, n + 1):
            f = c.fuse(max_qubits=mq)
            out = np.asarray(nb.execute_circuit(f, initial_state=psi.copy()).state())
            ctx.case(("deep", n, mq, short(spec)))
            if not np.array_equal(out, ref):
                ctx.fail(fkey("fuse", "state", spec), f"fused circuit (max_qubits={mq}) of {short(spec)} maps an initial state to a different final state",
                         code(n, spec) + f"f = c.fuse(max_qubits={mq})\npsi = np.array({psi.tolist()})\nref = nb.execute_circuit(c, initial_state=psi.copy()).state()\n"
                         "out = nb.execute_circuit(f, initial_state=psi.copy()).state()\nassert np.array_equal(out, ref), (out, ref)\n",
                         expected=str(ref.tolist()), observed=str(out.tolist()), broken=["C07_search_fuse_semantics", "C07_corr_fuse_structure"])
                return


def fusion_variants(ctx):
    """second calls, fusing a fused circuit, density matrices, floats, default max_qubits."""
    from qibo import gates

    nb = qgates.np_backend()
    rng = ctx.rng
    bad = 0
    re_lines, re_meta = [], []
    for _ in range(120 if ctx.thorough else 40):
        n = rng.randint(2, 5)
        spec = random_spec(rng, n, rng.randint(3, 14), special=rng.random() < 0.4) if rng.random() < 0.5 else reuse_spec(rng, n, rng.randint(3, 14))
        mq = rng.randint(1, n)
        c, cbs = build(n, spec)
        hdr = code(n, spec)
        f1 = c.fuse(max_qubits=mq)
        f2 = c.fuse(max_qubits=mq)
        g1, _ = real_groups(c, f1)
        g2, _ = real_groups(c, f2)
        ctx.case(("fuse-twice", n, mq, short(spec)))
        if g1 != g2:
            bad += 1
            ctx.fail("fuse:repeated-object" if has_reuse(spec) else "fuse:second-call", f"second call of fuse(max_qubits={mq}) on {short(spec)} gives a different fused queue",
                     hdr + TWICE_PY.replace('{mq}', str(mq)), expected=str(g1), observed=str(g2), broken=["C07_search_fuse_variants"])
        psi = int_state(rng, n)
        ref = np.asarray(nb.execute_circuit(c, initial_state=psi.copy()).state())
        # fusing the fused circuit again (FusedGate in the input queue is a barrier)
        mq2 = rng.randint(1, n)
        ff = f1.fuse(max_qubits=mq2)
        out = np.asarray(nb.execute_circuit(ff, initial_state=psi.copy()).state())
        out1 = np.asarray(nb.execute_circuit(f2, initial_state=psi.copy()).state())
        if np.abs(ref).max(initial=0) <= BIG and (not np.array_equal(out, ref) or not np.array_equal(out1, ref)):
            bad += 1
            ctx.fail("fuse:repeated-object" if has_reuse(spec) else "fuse:refuse", f"c.fuse({mq}).fuse({mq2}) of {short(spec)} changes the final state",
                     hdr + f"psi = np.array({psi.tolist()})\nref = nb.execute_circuit(c, initial_state=psi.copy()).state()\nout = nb.execute_circuit(c.fuse(max_qubits={mq}).fuse(max_qubits={mq2}), initial_state=psi.copy()).state()\nassert np.array_equal(out, ref), (out, ref)\n",
                     expected=str(ref.tolist()), observed=str(out.tolist()), broken=["C07_search_fuse_variants"])
        if [id(g) for g in ff.queue if isinstance(g, gates.M)] != [id(g) for g in c.queue if isinstance(g, gates.M)]:
            bad += 1
            ctx.fail("fuse:refuse-measurements", f"c.fuse({mq}).fuse({mq2}) of {short(spec)} loses measurements", hdr, broken=["C07_search_fuse_variants"])
        # model correspondence on a queue that already contains FusedGates (barriers)
        gq, _ = real_groups(f1, ff)
        flat = [i for grp in (gq or []) for i in grp]
        re_lines.append(f"FUSE {n} {mq2} {queue_tokens(f1)}")
        re_lines.append(f"TEQ {n} {queue_tokens(f1)} {len(flat)} {' '.join(map(str, flat))}")
        re_meta.append((n, spec, mq, mq2, gq))
        # Circuit.unitary of the fused circuit (ordinary gates only)
        if n <= 4 and all(s0[0] not in ("M", "CB") for s0 in spec):
            u0, u1 = np.asarray(c.unitary(nb)), np.asarray(f1.unitary(nb))
            if np.abs(u0).max(initial=0) <= BIG and not np.array_equal(u0, u1):
                bad += 1
                ctx.fail("fuse:unitary", f"c.fuse({mq}).unitary() differs from c.unitary() for {short(spec)}",
                         hdr + f"assert np.array_equal(c.unitary(nb), c.fuse(max_qubits={mq}).unitary(nb))\n", broken=["C07_search_fuse_variants"])
    # one gate object shared between TWO circuits: fusing / reducing one must not disturb the other
    for _ in range(40 if ctx.thorough else 15):
        n = rng.randint(2, 4)
        spec1 = reuse_spec(rng, n, rng.randint(3, 10), unitary_only=True)
        c1, _ = build(n, spec1)
        from qibo import Circuit
        c2 = Circuit(n)
        shared = []
        for k, g in enumerate(c1.queue):
            if rng.random() < 0.5:
                c2.add(g)
                shared.append(k)
            elif rng.random() < 0.5:
                c2.add(gates.Unitary(rand_unitary_int(rng, 1), rng.randrange(n), check_unitary=False))
        if not shared:
            c2.add(c1.queue[0])
        psi = int_state(rng, n)
        ref1 = np.asarray(nb.execute_circuit(c1, initial_state=psi.copy()).state())
        ref2 = np.asarray(nb.execute_circuit(c2, initial_state=psi.copy()).state())
        mq = rng.randint(1, n)
        f1 = c1.fuse(max_qubits=mq)
        lc1, _ = c1.light_cone(rng.randrange(n))
        f2 = c2.fuse(max_qubits=mq)
        o1 = np.asarray(nb.execute_circuit(f1, initial_state=psi.copy()).state())
        o2 = np.asarray(nb.execute_circuit(f2, initial_state=psi.copy()).state())
        o2b = np.asarray(nb.execute_circuit(c2, initial_state=psi.copy()).state())
        ctx.case(("shared-objects", n, mq, short(spec1), tuple(shared)))
        if not (np.array_equal(o1, ref1) and np.array_equal(o2, ref2) and np.array_equal(o2b, ref2)):
            bad += 1
            ctx.fail("fuse:repeated-object", f"two circuits share gate objects of {short(spec1)} (positions {shared}); after fuse({mq}) / light_cone of the first, a final state changes",
                     code(n, spec1) + f"c2 = Circuit({n})\nfor k in {shared}:\n    c2.add(c.queue[k])\npsi = np.array({psi.tolist()})\n"
                     f"r1 = nb.execute_circuit(c, initial_state=psi.copy()).state(); r2 = nb.execute_circuit(c2, initial_state=psi.copy()).state()\n"
                     f"f1 = c.fuse(max_qubits={mq}); c.light_cone(0); f2 = c2.fuse(max_qubits={mq})\n"
                     "assert np.array_equal(nb.execute_circuit(f1, initial_state=psi.copy()).state(), r1)\nassert np.array_equal(nb.execute_circuit(f2, initial_state=psi.copy()).state(), r2)\nassert np.array_equal(nb.execute_circuit(c2, initial_state=psi.copy()).state(), r2)\n",
                     broken=["C07_search_fuse_variants"])
    re_bad = 0
    for (n, spec, mq, mq2, gq), (mo, to) in zip(re_meta, zip(*[iter(run_driver(re_lines, driver=DRV))] * 2) if re_lines else []):
        grp_s, flags = mo.split(" ; ")
        model = [[int(x) for x in g.split(",")] for g in grp_s.split("|")] if grp_s.strip() else []
        ctx.case(("refuse", n, mq, mq2, short(spec)))
        if model != gq or to != "1" or flags != "sizes=1 perm=1 teq=1":
            re_bad += 1
            if re_bad <= 3:
                ctx.log(f"re-fusion differs: n={n} {short(spec)} fuse({mq}).fuse({mq2}) model={model} real={gq} teq={to}")
    ctx.ob("C07_corr_refuse_structure", re_bad == 0, "correspondence", f"{re_bad} re-fused queues differ from the model / are not ~t" if re_bad else "")
    # a collapsing measurement: the fused circuit must still be run once per shot
    for _ in range(6 if ctx.thorough else 3):
        n = rng.randint(1, 3)
        q = rng.randrange(n)
        pre = [("N", "H", (q,), ())] + random_spec(rng, n, rng.randint(0, 3), special=False, unitary_only=True)

        def mk():
            from qibo import Circuit
            cc, _ = build(n, pre)
            r = cc.add(gates.M(q, collapse=True))
            cc.add(gates.M(*range(n)))
            return cc, r
        c0, r0 = mk()
        nb.execute_circuit(c0, nshots=20)
        c1, r1 = mk()
        nb.execute_circuit(c1.fuse(max_qubits=rng.randint(1, n)), nshots=20)
        ctx.case(("collapse-shots", n, short(pre)))
        k0, k1 = len(r0.samples()), len(r1.samples())
        if k0 != k1:
            bad += 1
            ctx.fail("fuse:collapse-shots", f"fused circuit with a collapsing measurement records {k1} shots of it instead of {k0} (all shots come from one trajectory)",
                     "from qibo import Circuit, gates\nfrom qibo.backends import NumpyBackend\nnb = NumpyBackend()\n"
                     "c = Circuit(1); c.add(gates.H(0)); r = c.add(gates.M(0, collapse=True)); c.add(gates.M(0))\n"
                     "nb.execute_circuit(c.fuse(), nshots=20)\nassert len(r.samples()) == 20, len(r.samples())\n",
                     expected=str(k0), observed=str(k1), broken=["C07_search_fuse_variants"])
    # density matrices (exact) — non-Hermitian integer rho so that a missing conjugate shows
    for _ in range(60 if ctx.thorough else 20):
        n = rng.randint(2, 3)
        spec = random_spec(rng, n, rng.randint(2, 8), special=False)
        c, _ = build(n, spec, density=True)
        d = 2**n
        rho = np.array([[complex(rng.randint(-2, 2), rng.randint(-2, 2)) for _ in range(d)] for _ in range(d)])
        ref = np.asarray(nb.execute_circuit(c, initial_state=rho.copy()).state())
        for mq in range(1, n + 1):
            f = c.fuse(max_qubits=mq)
            out = np.asarray(nb.execute_circuit(f, initial_state=rho.copy()).state())
            ctx.case(("fuse-dm", n, mq, short(spec)))
            if np.abs(ref).max(initial=0) <= BIG and not np.array_equal(out, ref):
                bad += 1
                ctx.fail(fkey("fuse", "dm", spec), f"density-matrix execution of the fused circuit (max_qubits={mq}) of {short(spec)} differs",
                         code(n, spec, density=True) + f"rho = np.array({rho.tolist()})\nref = nb.execute_circuit(c, initial_state=rho.copy()).state()\nout = nb.execute_circuit(c.fuse(max_qubits={mq}), initial_state=rho.copy()).state()\nassert np.array_equal(out, ref), (out, ref)\n",
                         expected=str(ref.tolist()), observed=str(out.tolist()), broken=["C07_search_fuse_variants"])
    # real parametrised gates, default max_qubits, zero initial state and measurement probabilities
    for _ in range(80 if ctx.thorough else 25):
        n = rng.randint(2, 5)
        spec = random_spec(rng, n, rng.randint(3, 20), special=False, unitary_only=True, floats=True)
        spec.append(("M", tuple(rng.sample(range(n), rng.randint(1, n)))))
        c, _ = build(n, spec)
        ref = nb.execute_circuit(c, nshots=10)
        for mq in (None,) + tuple(range(1, n + 1)):
            f = c.fuse() if mq is None else c.fuse(max_qubits=mq)
            res = nb.execute_circuit(f, nshots=10)
            ctx.case(("fuse-float", n, mq, short(spec)))
            qs = list(spec[-1][1])
            ok = np.allclose(res.state(), ref.state(), atol=1e-10) and np.allclose(res.probabilities(qs), ref.probabilities(qs), atol=1e-10)
            if mq is None and any(len(g.target_qubits) > 2 for g in f.queue if isinstance(g, gates.FusedGate)):
                ok = False
            if not ok:
                bad += 1
                call = "c.fuse()" if mq is None else f"c.fuse(max_qubits={mq})"
                ctx.fail(fkey("fuse", "float", spec), f"{call} of {short(spec)} changes the final state / measured probabilities",
                         code(n, spec) + f"ref = nb.execute_circuit(c, nshots=10).state()\nout = nb.execute_circuit({call}, nshots=10).state()\nassert np.allclose(out, ref, atol=1e-10), (out, ref)\n",
                         broken=["C07_search_fuse_variants"])
    ctx.ob("C07_search_fuse_variants", bad == 0, "search", f"{bad} failures" if bad else "")


TWICE_PY = POS_PY + "assert groups(c.fuse(max_qubits={mq})) == groups(c.fuse(max_qubits={mq}))\n"


# ---------------------------------------------------------------------------
# histories: fuse, execute, update parameters through every route, execute again

H1 = [("RX", 1), ("RY", 1), ("RZ", 1), ("U1", 1), ("U3", 3), ("GPI2", 1)]
H2 = [("fSim", 2), ("CRX", 1), ("CU1", 1), ("RXX", 1), ("GIVENS", 1)]
HFIX1 = ["H", "X", "T", "S"]
HFIX2 = ["CNOT", "CZ", "SWAP"]


def _rand_unitary(rng, k):
    d = 2**k
    a = np.array([[complex(rng.gauss(0, 1), rng.gauss(0, 1)) for _ in range(d)] for _ in range(d)])
    q, _ = np.linalg.qr(a)
    return q


def _lit(v):
    if isinstance(v, np.ndarray):
        return f"np.array({v.tolist()})"
    return repr(v)


def history_script(rng, n, mq, density, rounds):
    """python source of one history, as a list of (route, [lines]) steps; the same text is
    executed by the check and stored as the replay."""
    slots = []  # (template with V[k] or None, k)
    vals = []

    def new_val(kind):
        if kind == "matrix1":
            return _rand_unitary(rng, 1)
        if kind == "matrix2":
            return _rand_unitary(rng, 2)
        if kind == 1:
            return rng.uniform(-3, 3)
        return tuple(rng.uniform(-3, 3) for _ in range(kind))

    kinds = []
    depth = rng.randint(3, 9)
    while len(slots) < depth or not kinds:
        r = rng.random()
        two = n >= 2 and rng.random() < 0.4
        if r < 0.25:
            name = rng.choice(HFIX2 if two else HFIX1)
            qs = rng.sample(range(n), 2 if two else 1)
            slots.append(f"gates.{name}(*{qs})")
            continue
        if r < 0.40:
            k = 2 if two else 1
            qs = rng.sample(range(n), k)
            kind = f"matrix{k}"
            tmpl = f"gates.Unitary(V[{len(vals)}], *{qs})"
        else:
            name, kind = rng.choice(H2 if two else H1)
            qs = rng.sample(range(n), 2 if two else 1)
            tmpl = f"gates.{name}(*{qs}, V[{len(vals)}])" if kind == 1 else f"gates.{name}(*{qs}, *V[{len(vals)}])"
        rest = [q for q in range(n) if q not in qs]
        if rest and rng.random() < 0.3 and not tmpl.startswith(("gates.CRX", "gates.CU1")):
            tmpl += f".controlled_by(*{rng.sample(rest, rng.randint(1, min(2, len(rest))))})"
        slots.append(tmpl)
        kinds.append(kind)
        vals.append(new_val(kind))
    has_matrix = any(isinstance(k, str) for k in kinds)
    d = 2**n
    if density:
        a = np.array([[complex(rng.gauss(0, 1), rng.gauss(0, 1)) for _ in range(d)] for _ in range(d)])
        init = a @ a.conj().T
        init = init / np.trace(init)
    else:
        init = np.array([complex(rng.gauss(0, 1), rng.gauss(0, 1)) for _ in range(d)])
        init = init / np.linalg.norm(init)
    head = ["import numpy as np", "from qibo import Circuit, gates", "from qibo.backends import NumpyBackend", "nb = NumpyBackend()",
            "def build(V):", f"    c = Circuit({n}, density_matrix={density})"]
    head += [f"    c.add({t})" for t in slots]
    head += ["    return c",
             "def flat(V):", "    return [x for v in V for x in (v if isinstance(v, tuple) else [v])]",
             f"init = np.array({init.tolist()})",
             "def check(circ, what):",
             "    ref = build(V)",
             "    a = nb.execute_circuit(circ, initial_state=init.copy()).state()",
             "    b = nb.execute_circuit(ref, initial_state=init.copy()).state()",
             "    assert np.allclose(a, b, atol=1e-10), (what, 'state', np.abs(a - b).max())",
             "    assert np.allclose(circ.unitary(nb), ref.unitary(nb), atol=1e-10), (what, 'unitary')",
             "V = [" + ", ".join(_lit(v) for v in vals) + "]",
             "c = build(V)",
             "G = [g for g in c.queue if isinstance(g, gates.ParametrizedGate)]",
             f"f = c.fuse(max_qubits={mq})",
             "check(f, 'first execution')"]
    steps = [("initial", head)]
    m = len(vals)
    routes = ["fused-list", "fused-dict", "fused-dict", "orig-list", "orig-dict", "gate-attr", "gate-attr"]
    if not has_matrix:
        routes += ["fused-flat", "orig-flat"]

    def update(route, tag):
        lines = []
        if route.endswith("list") or route.endswith("flat"):
            idx = list(range(m))
        elif route.endswith("dict"):
            idx = sorted(rng.sample(range(m), rng.randint(1, m)))
        else:
            idx = [rng.randrange(m)]
        for k in idx:
            lines.append(f"V[{k}] = {_lit(new_val(kinds[k]))}")
        target = "f" if route.startswith("fused") else "c"
        if route.endswith("list"):
            lines.append(f"{target}.set_parameters(list(V))")
        elif route.endswith("flat"):
            lines.append(f"{target}.set_parameters(flat(V))" if rng.random() < 0.5 else f"{target}.set_parameters(np.array(flat(V)))")
        elif route.endswith("dict"):
            lines.append(f"{target}.set_parameters({{" + ", ".join(f"G[{k}]: V[{k}]" for k in idx) + "})")
        else:
            lines.append(f"G[{idx[0]}].parameters = V[{idx[0]}]")
        lines.append(f"check(f, {tag + ' after ' + route!r})")
        return lines

    for r in range(rounds):
        route = rng.choice(routes)
        steps.append((route, update(route, f"round {r + 1}")))
    mq2, mq3 = rng.randint(1, n), rng.randint(1, n)
    steps.append(("fuse-after-update", [f"f2 = c.fuse(max_qubits={mq2})", "check(f2, 'fused after the updates')"]))
    steps.append(("refuse", [f"ff = f.fuse(max_qubits={mq3})", "check(ff, 're-fused circuit')"]))
    route = rng.choice(routes)
    last = update(route, "final round")
    last += [f"check(f2, 'circuit fused after the first updates, after {route}')", f"check(ff, 're-fused circuit after {route}')",
             f"check(c, 'original circuit after {route}')"]
    steps.append((route, last))
    return steps


def fusion_history(ctx):
    rng = ctx.rng
    bad = 0
    nroutes = {}
    for _ in range(60 if ctx.thorough else 18):
        n = rng.randint(1, 4)
        density = rng.random() < 0.3
        for mq in range(1, n + 1):
            state = rng.getstate()
            steps = history_script(rng, n, mq, density, rng.randint(2, 3))
            if mq < n:
                rng.setstate(state)  # the SAME circuit and history for every max_qubits
            ns = {}
            done = []
            for route, lines in steps:
                done += lines
                ctx.case(("history", n, mq, density, len(done), route, hash("\n".join(lines)) & 0xFFFFFF))
                ctx.stat(f"history_{route}")
                try:
                    exec("\n".join(lines), ns)  # noqa: S102  the text below is the replay
                except Exception as e:  # noqa: BLE001
                    bad += 1
                    ctx.fail(f"fuse:history:{route}", f"history on a fused circuit (n={n}, max_qubits={mq}, density_matrix={density}): after the step '{route}' the fused circuit no longer agrees with a freshly built circuit ({type(e).__name__}: {str(e)[:200]})",
                             "\n".join(done) + "\n", broken=["C07_search_fuse_history"])
                    break
    ctx.ob("C07_search_fuse_history", bad == 0, "search", f"{bad} histories fail" if bad else "")



# ---------------------------------------------------------------------------
# light cone


def reduced(state, n, keep):
    """reduced density matrix of a state vector on the qubits `keep` (in the given order)."""
    keep = list(keep)
    rest = [q for q in range(n) if q not in keep]
    t = np.transpose(np.reshape(state, (2,) * n), keep + rest).reshape(2 ** len(keep), -1)
    return t @ t.conj().T


def reduced_dm(rho, n, keep):
    keep = list(keep)
    rest = [q for q in range(n) if q not in keep]
    t = np.reshape(rho, (2,) * (2 * n))
    t = np.transpose(t, keep + rest + [n + q for q in keep] + [n + q for q in rest])
    t = t.reshape(2 ** len(keep), 2 ** len(rest), 2 ** len(keep), 2 ** len(rest))
    return np.einsum("arbr->ab", t)


def product_state(vs):
    out = np.array([1 + 0j])
    for v in vs:
        out = np.kron(out, np.array(v, dtype=complex))
    return out


def cone_cases(ctx):
    rng = ctx.rng
    cases = []
    # exhaustive: all gate sequences of length <= 3 over all supports on n = 3, every subset S
    for n, length in ((2, 3), (3, 2), (3, 3)):
        for seq in itertools.product(supports(n), repeat=length):
            spec = []
            for sup in seq:
                qs = list(sup)
                rng.shuffle(qs)
                ncs = rng.choice([0, 0, 1]) if len(qs) > 1 else 0
                spec.append(spec_unitary(rng, qs[: len(qs) - ncs], qs[len(qs) - ncs:], unitary=True))
            cases.append((n, spec, "int"))
    if not ctx.thorough:
        cases = [cs for cs in cases if len(cs[1]) < 3 or rng.random() < 0.35]
    for _ in range(200 if ctx.thorough else 50):
        n = rng.randint(2, 6)
        spec = random_spec(rng, n, rng.randint(2, 30), special=False, unitary_only=True)
        if rng.random() < 0.3:
            spec.append(("M", tuple(rng.sample(range(n), rng.randint(1, min(2, n))))))
        cases.append((n, spec, "int"))
    for _ in range(120 if ctx.thorough else 35):
        n = rng.randint(2, 6)
        spec = random_spec(rng, n, rng.randint(2, 24), special=False, unitary_only=True, floats=True)
        cases.append((n, spec, "float"))
    # gate objects added several times
    for n in (2, 3):
        pats = reuse_patterns(rng, n, unitary_only=True)
        if not ctx.thorough and n == 3:
            pats = rng.sample(pats, 30)
        cases += [(n, spec, "int") for spec in pats]
    for _ in range(150 if ctx.thorough else 45):
        n = rng.randint(2, 5)
        cases.append((n, reuse_spec(rng, n, rng.randint(2, 14), unitary_only=True), "int"))
    for _ in range(100 if ctx.thorough else 30):
        n = rng.randint(2, 5)
        cases.append((n, reuse_spec(rng, n, rng.randint(2, 14), unitary_only=True, floats=True), "float"))
    return cases


def all_subsets(n):
    out = []
    for k in range(1, n + 1):
        out += list(itertools.combinations(range(n), k))
    return out


def cone_suite(ctx):
    from qibo import gates

    nb = qgates.np_backend()
    rng = ctx.rng
    lines, meta = [], []
    struct_bad = sem_bad = red_bad = split_bad = 0
    nsamples = 0
    for n, spec, mode in cone_cases(ctx):
        c, _ = build(n, spec)
        qt = queue_tokens(c)
        sigs = [gate_sig(g) for g in c.queue]
        before = [(id(g), s) for g, s in zip(c.queue, sigs)]
        vs = [[complex(rng.randint(-2, 2), rng.randint(-2, 2)) for _ in range(2)] for _ in range(n)]
        vs = [v if any(v) else [1, 1j] for v in vs]
        if mode == "float":
            vs = [[1, 0]] * n
        psi = product_state(vs)
        full = np.asarray(nb.execute_circuit(c, initial_state=psi.copy()).state()) if mode == "int" else np.asarray(nb.execute_circuit(c).state())
        subsets = all_subsets(n)
        if n >= 5 or (len(spec) == 3 and not ctx.thorough):
            subsets = rng.sample(subsets, min(len(subsets), 6))
        for S in subsets:
            Sarg = list(S)
            rng.shuffle(Sarg)
            hdr = code(n, spec) + f"lc, qmap = c.light_cone(*{Sarg})\n"
            try:
                lc, qmap = c.light_cone(*Sarg)
            except Exception as e:  # noqa: BLE001
                sem_bad += 1
                ctx.fail(f"cone:raises:{type(e).__name__}", f"light_cone(*{Sarg}) raises {e!r} on {short(spec)}", hdr, broken=["C07_search_cone_reduced"])
                continue
            ctx.case(("cone", n, S, short(spec)))
            ctx.stat(f"cone_n{n}")
            if [(id(g), gate_sig(g)) for g in c.queue] != before:
                sem_bad += 1
                ctx.fail("cone:mutates-input", f"light_cone changes the original circuit {short(spec)}", hdr, broken=["C07_search_cone_reduced"])
            lines.append(f"CONE {n} {qt} {len(S)} {' '.join(map(str, Sarg))}")
            meta.append((n, spec, mode, c, sigs, S, Sarg, lc, qmap, vs, full, psi))
    outs = run_driver(lines, driver=DRV)
    red_lines, red_meta = [], []
    for (n, spec, mode, c, sigs, S, Sarg, lc, qmap, vs, full, psi), o in zip(meta, outs):
        try:
            hdr = code(n, spec) + f"lc, qmap = c.light_cone(*{Sarg})\n"
            body, flags = o.split(" ; ")
            cs, rs, Qs = [p.strip() for p in body.split("|")]
            cone_ids = [int(x) for x in cs.split(",")] if cs else []
            Q = [int(x) for x in Qs.split(",")] if Qs else []
            if flags != "teq=1 restoff=1 conein=1":
                split_bad += 1
            ctx.stat("cone_gates_dropped", len(c.queue) - len(cone_ids))
            # -- structure: same gates in the same order on re-indexed qubits, same qubit map
            want_map = {q: i for i, q in enumerate(Q)}
            inv = {v: k for k, v in qmap.items()} if isinstance(qmap, dict) else {}
            try:
                real_sigs = []
                for g in lc.queue:
                    sg = gate_sig(g)
                    real_sigs.append((sg[0], tuple(inv[q] for q in sg[1]), tuple(sorted(inv[q] for q in sg[2]))) + tuple(sg[3:]))
                model_sigs = [(s[0], s[1], tuple(sorted(s[2]))) + tuple(s[3:]) for s in (sigs[i] for i in cone_ids)]
                same = qmap == want_map and real_sigs == model_sigs and lc.nqubits == len(Q)
            except KeyError:
                same = False
            if not same:
                struct_bad += 1
                if struct_bad <= 3:
                    ctx.log(f"light cone differs: n={n} S={Sarg} {short(spec)} model cone={cone_ids} Q={Q} real map={qmap} real={[(type(g).__name__, g.qubits) for g in lc.queue]}")
            # -- the property itself: reduced states agree
            Qr = sorted(qmap)
            if not set(S) <= set(Qr):
                sem_bad += 1
                ctx.fail("cone:qubit-map", f"light_cone(*{Sarg}) of {short(spec)}: observed qubits missing from the qubit map {qmap}", hdr + f"assert set({list(S)}) <= set(qmap)\n", broken=["C07_search_cone_reduced"])
                continue
            keep_full = sorted(S)
            keep_cone = [qmap[q] for q in keep_full]
            try:
                if mode == "int":
                    psi_c = product_state([vs[q] for q in Qr])
                    factor = 1
                    for q in range(n):
                        if q not in Qr:
                            factor *= int(round(sum(abs(x) ** 2 for x in vs[q])))
                    cone_state = np.asarray(nb.execute_circuit(lc, initial_state=psi_c.copy()).state())
                else:
                    factor = 1
                    cone_state = np.asarray(nb.execute_circuit(lc).state())
            except Exception as e:  # noqa: BLE001
                sem_bad += 1
                ctx.fail(f"cone:exec-raises:{type(e).__name__}", f"executing light_cone(*{Sarg}) of {short(spec)} raises {e!r}", hdr + "nb.execute_circuit(lc)\n", broken=["C07_search_cone_reduced"])
                continue
            r_full = reduced(full, n, keep_full)
            r_cone = reduced(cone_state, lc.nqubits, keep_cone) * factor
            ok = np.array_equal(r_full, r_cone) if mode == "int" else np.allclose(r_full, r_cone, atol=1e-10)
            if not ok:
                sem_bad += 1
                init = f"vs = {vs}\n" + PROD_PY if mode == "int" else "psi = None; psic = None; factor = 1\n"
                ctx.fail(fkey("cone", "reduced", spec), f"light_cone(*{Sarg}) of {short(spec)}: reduced state on {keep_full} differs from that of the full circuit",
                         hdr + RED_PY + init + f"S = {keep_full}\n" + "full = nb.execute_circuit(c, initial_state=psi).state()\ncone = nb.execute_circuit(lc, initial_state=psic).state()\n"
                         "a = reduced(full, c.nqubits, S)\nb = reduced(cone, lc.nqubits, [qmap[q] for q in S]) * factor\nassert np.allclose(a, b, atol=1e-10), (a, b)\n",
                         expected=str(np.round(r_full, 10).tolist()), observed=str(np.round(r_cone, 10).tolist()),
                     broken=["C07_search_cone_reduced", "C07_corr_cone_structure", "C07_corr_cone_reduced"])
            # -- measurements of the cone keep their registers
            ms = [g for g in c.queue if isinstance(g, gates.M)]
            if ms:
                want = {m.register_name: tuple(qmap[q] for q in m.target_qubits) for m in ms if set(m.qubits) <= set(qmap) and any(id(m) == id(c.queue[i]) for i in cone_ids)}
                got = {m.register_name: tuple(m.target_qubits) for m in lc.queue if isinstance(m, gates.M)}
                if want != got:
                    sem_bad += 1
                    ctx.fail("cone:measurements", f"light_cone(*{Sarg}) of {short(spec)}: measurement registers {got}, expected {want}", hdr, expected=str(want), observed=str(got), broken=["C07_search_cone_reduced"])
            # -- Lean simulator + model partial trace on the FULL circuit vs the real cone
            if mode == "int" and n <= 4 and len(spec) <= 12 and np.abs(r_cone).max(initial=0) < BIG:
                ng, gl = lean_gate_tokens(c)
                T = [q for q in range(n) if q not in S]
                red_lines.append(f"RED {n} {ng} {gl} {len(T)} {' '.join(map(str, T))} {gi_tokens(psi)}")
                red_meta.append((n, spec, Sarg, r_cone.reshape(-1)))
            if nsamples < 3 and len(spec) >= 4 and 0 < len(cone_ids) < len(spec):
                nsamples += 1
                ctx.sample({"kind": "light_cone", "n": n, "qubits": Sarg, "circuit": short(spec), "cone": cone_ids, "qubit_map": {str(k): v for k, v in qmap.items()}})
        except Exception as e:  # noqa: BLE001  the returned cone / map is not what the API promises
            sem_bad += 1
            ctx.fail(f"cone:malformed:{type(e).__name__}", f"light_cone(*{Sarg}) of {short(spec)} returns an unusable circuit / qubit map ({e!r}): map={qmap!r}",
                     code(n, spec) + f"lc, qmap = c.light_cone(*{Sarg})\nassert all(isinstance(v, int) for v in qmap.values()) and sorted(qmap.values()) == list(range(lc.nqubits))\nnb.execute_circuit(lc)\n", broken=["C07_search_cone_reduced"])

    routs = run_driver(red_lines, driver=DRV) if red_lines else []
    for (n, spec, Sarg, real), o in zip(red_meta, routs):
        model = parse_gi(o)
        ctx.case(("red", n, tuple(Sarg), short(spec)))
        ctx.stat("lean_RED")
        if not np.array_equal(model, real):
            red_bad += 1
            ctx.fail(fkey("cone", "reduced-vs-model", spec), f"light_cone(*{Sarg}) of {short(spec)}: reduced state of the cone differs from the Lean model's reduced state of the full circuit",
                     code(n, spec) + f"lc, qmap = c.light_cone(*{Sarg})\n# expected reduced state (Lean simulator + partial trace of the full circuit): {model.tolist()}\n",
                     expected=str(model.tolist()), observed=str(real.tolist()), broken=["C07_corr_cone_reduced"])
    ctx.ob("C07_corr_cone_structure", struct_bad == 0, "correspondence", f"{struct_bad} light cones differ from the model" if struct_bad else "")
    ctx.ob("C07_corr_cone_split", split_bad == 0, "correspondence", f"{split_bad} model outputs fail the split checks" if split_bad else "")
    ctx.ob("C07_corr_cone_reduced", red_bad == 0, "correspondence", f"{red_bad} disagreements" if red_bad else "")
    ctx.ob("C07_search_cone_reduced", sem_bad == 0, "search", f"{sem_bad} failures" if sem_bad else "")
    # density-matrix circuits keep the flag
    try:
        c, _ = build(3, [("N", "X", (0,), ()), ("N", "CNOT", (0, 2), ()), ("N", "Z", (1,), ())], density=True)
        lc, qmap = c.light_cone(2)
        rho = np.asarray(nb.execute_circuit(c).state())
        rc = np.asarray(nb.execute_circuit(lc).state())
        ok = lc.density_matrix and qmap == {0: 0, 2: 1} and np.allclose(reduced_dm(rho, 3, [2]), reduced_dm(rc, 2, [1]))
    except Exception:  # noqa: BLE001
        ok = False
    ctx.ob("C07_search_cone_dm", ok, "search", "" if ok else "density-matrix light cone differs")
    if not ok:
        ctx.fail("cone:dm", "light_cone of a density-matrix circuit", "from qibo import Circuit, gates\nc = Circuit(3, density_matrix=True); c.add([gates.X(0), gates.CNOT(0, 2), gates.Z(1)])\nlc, qm = c.light_cone(2)\nassert lc.density_matrix and qm == {0: 0, 2: 1}\nlc()\n", broken=["C07_search_cone_dm"])


RED_PY = """def reduced(state, n, keep):
    rest = [q for q in range(n) if q not in keep]
    t = np.transpose(np.reshape(state, (2,) * n), list(keep) + rest).reshape(2 ** len(keep), -1)
    return t @ t.conj().T
"""
PROD_PY = """def prod(vv):
    out = np.array([1 + 0j])
    for v in vv:
        out = np.kron(out, np.array(v, dtype=complex))
    return out
psi = prod(vs); Q = sorted(qmap); psic = prod([vs[q] for q in Q])
factor = 1
for q in range(c.nqubits):
    if q not in Q:
        factor *= sum(abs(x) ** 2 for x in vs[q])
"""


def run(ctx):
    MODULES, THEOREMS = registry(PROP)
    ctx.theorems = THEOREMS
    build_and_audit(ctx, PROP, MODULES, THEOREMS)
    import traceback

    from props import C07_barrier, C07obs

    for suite in (fusion_suite, fusion_variants, fusion_history, cone_suite,
                  C07obs.observation_suite, C07obs.flags_suite, C07obs.wide_suite, C07obs.channel_suite, C07obs.derived_suite, C07_barrier.barrier_suite):
        try:
            suite(ctx)
        except Exception as e:  # noqa: BLE001  the real code behaved in a way the harness cannot digest
            ctx.log(traceback.format_exc()[-1500:])
            ctx.ob(f"C07_{suite.__name__}_completed", False, "search", f"{type(e).__name__}: {e}"[:300])
    from props import basis_meas
    basis_meas.run(ctx, PROP, ['light_cone', 'fuse', 'fuse-deepcopy'])
    ctx.notes.append(
        "fusion: every sequence of <=3 gates over all qubit subsets (size<=3, random Gaussian-integer matrices, shuffled qubit order, controlled_by) plus "
        "measurement/callback symbols on n<=3 exhaustively, seeded samples of the length 4-5 families, random n<=6 depth<=30 and layered adversarial circuits, "
        "max_qubits 1..n(+1): model fused queue == real fused queue, Lean decision flatten(real) ~t input, group qubit sets, measurements/callbacks kept, "
        "exact final state real-vs-real, vs Lean simulator, vs Lean matrix_fused model; second calls, re-fusion, density matrices, float gates. "
        "light cone: all sequences <=3 gates on n<=3 x every qubit subset, random n<=6 depth<=30: model cone == real cone and qubit_map, split checks, "
        "exact reduced states on integer product states, float circuits from |0..0> (1e-10), Lean simulator + partial trace vs real cone. "
        "observation points: every sequence of <=2 (quick: sampled 3) entries over {H-like(0), H-like(1), CNOT(0,1), CNOT(1,0), callback, M(0|1|1,0, collapse=True)} on 2 qubits plus random n<=4 circuits "
        "with callbacks, collapsing and deferred measurements anywhere (state vectors and density matrices), 3 shots with forced draws: all observed states / probabilities / outcomes / samples fused vs unfused, "
        "and the Lean run (orun, fusedItems) of shot 0 vs the real events; flags: attributes of the fused circuit object vs input vs Lean model of _shallow_copy; snapshots before/after fuse, light_cone, execution; "
        "wide groups: fused groups on 6 and 7 qubits every run (matrix_fused vs independent product, vs Lean FMAT on 6 qubits, fused execution vs Lean simulator); "
        "noise channels: density-matrix circuits with each of the 9 channel classes at every position, every max_qubits: refusal or (no entry lost, flattened queue ~t input by the Lean decision with the channel as an entry on its qubits, equal final density matrix); "
        "derived operations: fuse().decompose() vs decompose(), measurement-conditioned gates executed before and after fusion with forced outcomes; "
        "barriers: 3-4 qubit circuits of one-/two-qubit gates with 1-3 collapsing measurements / callbacks / already-fused gates in the middle and NO closing entry, max_qubits 2..n, state vectors and density matrices, forced draws: "
        "order of entries sharing a qubit kept, every observation and the final state equal to an independent explicit-matrix simulation")
    ctx.assumptions += [
        "the theorems are about the Lean transliteration QV/Model/Fusion.lean of Circuit.fuse / FusedGate.fuse / matrix_fused / light_cone; it is tied to the code by exact comparison of fused queues, fused matrices, cones and qubit maps on every generated circuit, and the real output is independently certified by the proved decision procedure for ~t",
        "callbacks and collapsing measurements are observation points of the model QV/Model/FusionObs.lean (T07_fuse_observation_trace: same observation trace and final state for every oracle and normalisation; hypotheses: gates are isometries touching at least one qubit, qubits < nqubits); randomness and the float normalisation are parameters of the model; the tie forces the draws of the real backend and compares real-vs-real and real-vs-model up to normalisation (1e-9), with Gaussian-integer gates (monomial unitaries and sqrt(2)-multiples of H-like unitaries)",
        "the circuit object returned by fuse is modelled on the level of the attributes execution consults (T07_fuse_flags / T07_fuse_exec_mode / T07_fuse_execute), tied by exact comparison of the real fused circuit's attributes with the input's and with the model; parametrized_gates / trainable_gates / wire_names are compared real-vs-real only",
        "re-indexing of the light-cone circuit by qubit_map is covered by C05's relabelling theorem (T05_relabel_run) and exercised by the correspondence",
        "Circuit.unitary() of a fused circuit (DESIGN F18) belongs to C01/C06 and is not examined here",
        "noise channels are outside the transliterated model (the unchanged code lets them take part in fusion and refuses at execution): the certificate ~t on the real fused queue treats a channel as an opaque entry on its qubits, its effect on the state is search-level",
        "non-mutation of the input by fuse / light_cone / executing the fused circuit is a snapshot comparison (identity and order of the gate objects, qubits, init_args / init_kwargs, parameters, matrices, collapse flags, register names, bookkeeping lists, flags); in the model the functions are pure",
    ]
