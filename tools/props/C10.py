"""C10 — unrolling yields only native gates and the same operator up to a global phase."""
from __future__ import annotations

import itertools
import math

import numpy as np

from vlib import gen, qgates
from vlib.driver import run_driver
from vlib.proofs import build_and_audit, registry
from vlib.symtrace import S, BranchOnSymbol, Untranslatable, const, evaluate, tree, lean as lean_tree, simplify

PROP = "C10"

FLAGS = ["I", "Z", "RZ", "M", "GPI2", "U3", "CZ", "iSWAP", "CNOT"]  # bit k of the mask
TABLE_NAMES = ["gpi2_dec", "u3_dec", "cz_dec", "iswap_dec", "opt_dec", "cnot_dec_temp"]
NUMERIC_CLASSES = {"Unitary", "FusedGate", "fSim", "GeneralizedfSim"}  # matrix-valued entries

# SPEC: the documented translation tables (docs of NativeGates / decompositions.py at the
# time the property was written).  A class listed here must translate under the named
# kind of native set; a class not in the tables must raise.  New entries added to qibo
# later are accepted as long as they translate correctly.
ONE_Q_COMMON = ["H", "X", "Y", "Z", "S", "SDG", "T", "TDG", "SX", "RX", "RY", "RZ", "GPI2", "U1", "U2", "U3"]
ONE_Q_U3_ONLY = ["PRX"]
TWO_Q_CZ = ["CNOT", "CZ", "SWAP", "iSWAP", "CRX", "CRY", "CRZ", "CU1", "CU2", "CU3", "FSWAP", "RXX", "RYY", "RZZ",
            "TOFFOLI", "fSim"]
TWO_Q_CNOT = ["CNOT", "CZ", "SWAP"]


def modules():
    from qibo import gates
    from qibo.transpiler import decompositions as D
    from qibo.transpiler import unroller as U

    return gates, D, U


# ---------------------------------------------------------------------------
# native sets


def native_sets():
    """all combinations the Unroller supports: {GPI2|U3} x {CZ, iSWAP, CZ+iSWAP, CNOT} + I/Z/RZ/M."""
    _, _, U = modules()
    N = U.NativeGates
    out = []
    for s1 in ("GPI2", "U3"):
        for s2 in (("CZ",), ("iSWAP",), ("CZ", "iSWAP"), ("CNOT",)):
            ns = N.I | N.Z | N.RZ | N.M | N[s1]
            for x in s2:
                ns |= N[x]
            out.append((s1 + "_" + "_".join(s2), ns, s1, s2))
    return out


def mask_of(ns):
    """bit mask in the model's convention, computed from the flag *names* (not the enum values)."""
    _, _, U = modules()
    m = 0
    for k, f in enumerate(FLAGS):
        if getattr(U.NativeGates, f) & ns:
            m |= 1 << k
    return m


def is_native(g, ns):
    _, _, U = modules()
    nm = g.__class__.__name__
    return nm in FLAGS and bool(getattr(U.NativeGates, nm) & ns)


_CIDS = {}


def cid(name):
    """class id of the model: the nine flags, Align, then everything else in sorted order."""
    if not _CIDS:
        for k, f in enumerate(FLAGS):
            _CIDS[f] = k
        _CIDS["Align"] = 9
        import inspect

        import qibo.gates as G

        rest = sorted(n for n, c in inspect.getmembers(G, inspect.isclass) if n not in _CIDS)
        for k, n in enumerate(rest):
            _CIDS[n] = 10 + k
    if name not in _CIDS:
        _CIDS[name] = 10 + len(_CIDS)
    return _CIDS[name]


# ---------------------------------------------------------------------------
# branch exploration for the tracer


def _free(t):
    if t[0] == "par":
        return True
    return any(isinstance(a, tuple) and _free(a) for a in t[1:])


def linear_form(t, k):
    """t as c0 + sum coef_i * par_i (floats) if it is affine in the parameters, else None."""
    try:
        f = lambda v: complex(evaluate(t, v))
        c0 = f([0.0] * k)
        coefs = [f([1.0 if i == j else 0.0 for i in range(k)]) - c0 for j in range(k)]
        for v in ([0.3, -1.7, 2.9, 0.55, -0.8, 1.1][:k], [-2.2, 0.9, 0.1, 3.3, 1.9, -0.4][:k]):
            if abs(f(v) - (c0 + sum(c * x for c, x in zip(coefs, v)))) > 1e-10:
                return None
        if abs(c0.imag) > 1e-13 or any(abs(c.imag) > 1e-13 for c in coefs):
            return None
        return [c.real for c in coefs], c0.real
    except Exception:
        return None


class Plan:
    """branch plan: comparisons between constants are evaluated; an equality test on an
    affine expression of the parameters is answered False (generic value) and remembered
    as the constraint `par_j = c + sum coef_i par_i`, so that the caller can re-run the
    code on that hyperplane."""

    def __init__(self, k):
        self.k = k
        self.asked = set()

    def __call__(self, kind, a, b):
        fa = _free(a)
        fb = b is not None and _free(b)
        if not fa and not fb:
            va = complex(evaluate(a, []))
            if b is None:
                return abs(va) > 1e-13
            vb = complex(evaluate(b, []))
            if kind == "eq":
                return abs(va - vb) <= 1e-13 * max(1.0, abs(va))
            va, vb = va.real, vb.real
            return {"lt": va < vb, "le": va <= vb, "gt": va > vb, "ge": va >= vb}[kind]
        if kind == "eq" and b is not None:
            lin = linear_form(("sub", a, b), self.k)
            if lin is not None:
                coefs, c0 = lin
                js = [i for i, c in enumerate(coefs) if abs(c) > 1e-12]
                if js:
                    j = js[-1]
                    self.asked.add((j, tuple(0.0 if i == j else (-coefs[i] / coefs[j]) + 0.0 for i in range(self.k)),
                                    (-c0 / coefs[j]) + 0.0))
                    return False
                return abs(c0) <= 1e-13  # the parameters cancel: a comparison between constants
        raise BranchOnSymbol(f"{kind} on a non-affine symbolic value")


def explore_branches(k, fn, limit=16, depth=3):
    """run fn(params) for the generic branch and for combinations of the special
    hyperplanes the code tests for.  Returns [(label, params, result|exception)]."""
    seen = set()
    todo = [()]
    out = []
    while todo and len(out) < limit:
        fixed = todo.pop(0)  # tuple of constraints (j, coefs, c), ascending j
        if fixed in seen:
            continue
        seen.add(fixed)
        params = [S.par(i) for i in range(k)]
        for j, coefs, c in fixed:
            v = S(const(c))
            for i, co in enumerate(coefs):
                if abs(co) > 1e-12:
                    v = v + S(const(co)) * params[i]
            params[j] = v
        plan = Plan(k)
        S.plan = plan
        try:
            try:
                res = fn(list(params))
            except (Untranslatable, BranchOnSymbol):
                raise
            except Exception as e:  # the real code raised
                res = e
        finally:
            S.plan = None
        out.append(("".join(_clabel(c) for c in fixed), params, res))
        if len(fixed) < depth:
            for cons in sorted(plan.asked):
                if all(cons[0] != f[0] for f in fixed):
                    todo.append(tuple(sorted(fixed + (cons,))))
    return out


def _clabel(cons):
    j, coefs, c = cons
    s = f"_p{j}eq{_vlabel(c)}"
    for i, co in enumerate(coefs):
        if abs(co) > 1e-12:
            s += ("m" if co < 0 else "p") + f"{abs(co):g}".replace(".", "d") + f"p{i}"
    return s


def _vlabel(v):
    if v == 0:
        return "0"
    r = v / math.pi
    for d in (1, 2, 4):
        if abs(r * d - round(r * d)) < 1e-12:
            n = int(round(r * d))
            return ("m" if n < 0 else "") + f"{abs(n)}pi" + (f"o{d}" if d > 1 else "")
    return repr(v).replace(".", "d").replace("-", "m")


# ---------------------------------------------------------------------------
# (1) kernel obligations regenerated from the real tables and the real translate_gate


def table_classes():
    """class name -> class for every key of the six translation tables (read from the source now)."""
    _, D, _ = modules()
    out = {}
    for t in TABLE_NAMES:
        for cls in getattr(D, t).decompositions:
            out[cls.__name__] = cls
    return out


THOROUGH_PROP = "C10t"  # second generated table: the expensive obligations, thorough tier only


def trace_obligations(ctx):
    gates, D, U = modules()
    infos = qgates.gate_infos()
    tabs = {PROP: gen.Table(PROP)}
    if ctx.thorough:
        tabs[THOROUGH_PROP] = gen.Table(THOROUGH_PROP)
    for _t in tabs.values():
        _t.emit_single = True  # `<name>_single`: the simulator-level reading of each obligation (QV/Proofs/Bridge.lean)
    raised = []  # (label, class, exception) real code raised while tracing a documented input
    nb = qgates.np_backend()
    seen_terms = {}
    aliases = []  # (label, first label with the same Lean term)
    rows = []  # (table index, class name, obligation label, is the generic branch) of the entry obligations of tabs[PROP]
    TRACED.clear()
    SYMROWS.clear()

    def emit(tab, label, name, k, nq, out, ref, ns=None):
        out = as_list(out)
        tab.ob_product(label, k, nq, [qgates.sgate_of(x) for x in out], [qgates.sgate_of(ref)], phase=True, gate=name)
        term = tab.defs[-1][2]
        if term in seen_terms:  # e.g. CZ and CZ+iSWAP natives give the same list: check it once
            tab.defs.pop()
            tab.obs.pop()
            aliases.append((label, seen_terms[term]))
        else:
            seen_terms[term] = label
        if ns is not None:
            ids = [cid(x.__class__.__name__) for x in out]
            plain = all(not x.is_controlled_by for x in out)
            tabs[PROP].ob(label + "_native", f"QV.Unroll.allNative {mask_of(ns)} {ids} && {'true' if plain else 'false'}", gate=name)

    def attempt(label, name, k, fn, expensive=False, depth=3, row=None):
        """fn(params) -> (out, ref, nq, ns)"""
        try:
            for blabel, params, res in explore_branches(k, fn, depth=depth):
                if isinstance(res, Exception):
                    raised.append((label + blabel, name, res))
                    continue
                out, ref, nq, ns = res
                if row is not None:
                    # the traced row (every branch), kept for the instance check of the real rows
                    # (faithful_suite): matrices / qubits of the emitted gates as trees in the parameters
                    TRACED.setdefault(row, []).append((label + blabel, k, params, [(x.__class__.__name__, qgates.sgate_of(x)) for x in as_list(out)]))
                # entry rows are never left to the thorough tier: the concrete tables (C10_sym) need every branch
                costly = expensive or (blabel.count("_p") >= 2 and row is None)
                if costly and not ctx.thorough:
                    ctx.stat("kernel_obligations_left_to_thorough")
                    continue
                emit(tabs[THOROUGH_PROP if costly else PROP], label + blabel, name, k, nq, out, ref, ns)
                if row is not None and not costly:
                    rows.append((row[0], name, label + blabel, blabel == ""))
                    try:
                        SYMROWS.append({"tab": row[0], "name": name, "label": label + blabel, "k": k, "ncons": blabel.count("_p"),
                                        "key": [tree(p_) for p_ in params],
                                        "gates": [(x.__class__.__name__, list(x.qubits), [tree(p_) for p_ in x.parameters],
                                                   bool(x.is_controlled_by)) for x in as_list(out)]})
                    except Untranslatable:
                        ctx.stat("concrete_row_untranslatable_parameters")
        except (Untranslatable, BranchOnSymbol) as e:
            ctx.ob(label, False, "translator", f"{type(e).__name__}: {e}")

    # (a) every entry of every table: product of the entry = the gate, up to a phase
    for tname in TABLE_NAMES:
        table = getattr(D, tname)
        for cls in sorted(table.decompositions, key=lambda c: c.__name__):
            name = cls.__name__
            if name in NUMERIC_CLASSES or name not in infos or not infos[name].generic:
                ctx.stat("numeric_only_entries")
                continue
            info = infos[name]

            def fn(params, info=info, table=table):
                g = info.make(list(range(info.nq)), params)
                ref = info.make(list(range(info.nq)), params)
                return table(g, nb), ref, info.nq, None
            attempt(f"C10_entry_{tname}_{name}", name, info.np, fn, row=(TABLE_NAMES.index(tname), name))

    # (b) the real translate_gate for every native set and every class of the tables
    done1q = set()
    for sname, ns, s1, s2 in native_sets():
        for name, cls in sorted(table_classes().items()):
            if name in NUMERIC_CLASSES or name not in infos or not infos[name].generic:
                continue
            info = infos[name]
            if info.nq == 1:
                if (s1, name) in done1q:
                    continue  # one-qubit results do not depend on the two-qubit natives (the search checks that)
                done1q.add((s1, name))
            # does the real code translate this class under this set at all?
            try:
                U.translate_gate(info.make(list(range(info.nq)), [0.37 + 0.41 * i for i in range(info.np)]), ns)
            except Exception:
                continue  # refusals are examined by the search

            def fn(params, info=info, ns=ns):
                g = info.make(list(range(info.nq)), params)
                ref = info.make(list(range(info.nq)), params)
                return U.translate_gate(g, ns), ref, info.nq, ns
            # long products (CZ-then-retranslate path with GPI2, three qubits) are kernel-checked in the thorough tier
            expensive = s2 == ("iSWAP",) and (info.nq >= 3 or (s1 == "GPI2" and info.np > 0))
            attempt(f"C10_tr_{sname}_{name}", name, info.np, fn, expensive=expensive, depth=3 if info.nq == 1 else 1)

    # the Lean `u3Mat` of the ZYZ theorem (QV/Proofs/ZYZ.lean, as the expression matrix QV.ZYZ.u3Ex) is the
    # matrix of the real gates.U3 for all parameter values (QV.Props.C10.T10_u3Mat_is_traced)
    try:
        S.plan = Plan(3)
        u3trees = qgates.sgate_of(infos["U3"].make([0], [S.par(0), S.par(1), S.par(2)]))[0]
        tabs[PROP].define("m_C10_u3_class", "List (List Ex)", gen.lean_matrix(u3trees))
        tabs[PROP].ob("C10_u3_matrix", "matEqCheck 3 m_C10_u3_class QV.ZYZ.u3Ex && (m_C10_u3_class.length == 2)",
                      supported="(normMat 3 m_C10_u3_class).isSome", gate="U3")
    except (Untranslatable, BranchOnSymbol, KeyError) as e:
        ctx.ob("C10_u3_matrix", False, "translator", f"{type(e).__name__}: {e}")
    finally:
        S.plan = None

    results = {}
    for prop, tab in tabs.items():
        # every proved entry / translate_gate obligation as a `PhaseEq` over the unit circle in the
        # simulator model (the conclusion C10's `TablesOK` asks of a table call, QV/Props/C10b.lean)
        tab.class_table(f"{prop}_entries", "QV.Ob.SingleStmt",
                        [(n, f"{n}_single") for n, _, m in tab.obs if m.get("run") and n.startswith(("C10_entry_", "C10_tr_"))])
        tab.corollary(f"{prop}_entries_phaseEq", f"∀ o ∈ {prop}_entries, QV.Props.C10.EntryPhaseEq o",
                      f"fun o ho => QV.Props.C10.T10_entryPhaseEq_of_single o ({prop}_entries_ok o ho)",
                      needs=[f"{prop}_entries_ok"], imports=["QV.Props.C10b"])
        if prop == PROP:
            end_to_end(tab, rows, dict(aliases), infos)
            concrete_tables(ctx, tab, dict(aliases), infos)
            kak_obligations(ctx, tab)
        status, passed = tab.emit(extra_imports=["QV.Model.Unroller", "QV.Model.ZYZ", "QV.Model.SymTable", "QV.Model.KAK"])
        if prop == PROP:
            ctx.stats["rows_in_generated_unroll_circuit"] = len([c for c in tab.cor_names if c.startswith("C10_row_")])
            ctx.ob("C10_unroll_circuit", "C10_unroll_circuit" in tab.cor_names, "generated-kernel",
                   "" if "C10_unroll_circuit" in tab.cor_names else "the end-to-end corollary was not emitted")
            concrete_report(ctx, tab)
            ctx.ob("C10_kak_reconstruction", "C10_kak_reconstruction" in tab.cor_names, "generated-kernel",
                   "" if "C10_kak_reconstruction" in tab.cor_names else "the reconstruction identity at the traced cnot_decomposition was not emitted")
        ctx.stats[f"{prop}_obligations_with_simulator_reading"] = len([c for c in tab.cor_names if c.endswith("_single")])
        for name, expr, meta in tab.obs:
            ok, sup = status.get(name, (False, False))
            results[name] = (ok, sup)
            ctx.ob(name, ok, "generated-kernel",
                   "" if ok else ("outside the symbolic fragment" if not sup else "stage-1 evaluation is false"))
            ctx.case(("table", name))
    for label, first in aliases:
        ok, sup = results.get(first, (False, False))
        ctx.ob(label, ok, "generated-kernel", f"same Lean term as {first}")
        ctx.case(("table", label))
    ctx.stats["kernel_obligations_shared_term"] = len(aliases)
    ctx.sample({"obligation": "C10_tr_U3_iSWAP_CU3",
                "meaning": "real translate_gate(CU3(0,1,θ,φ,λ), U3|iSWAP|I|Z|RZ|M): ∀ θ φ λ the product of the "
                           "returned gates = phase • CU3(θ,φ,λ); _native: all returned classes are native"})
    return raised


SYMROWS = []  # the traced rows with the PARAMETER EXPRESSIONS of the emitted gates (concrete tables, QV/Model/SymTable.lean)
CONCRETE = {}  # filled by concrete_tables: the rows that went into the generated `C10_sym`
TRACED = {}  # (table index, class name) -> [(label, np, params, [(class name, traced sgate)])], filled by trace_obligations


def end_to_end(tab, rows, alias, infos):
    """END TO END (generated, because tables and classes are read from the source): the traced rows
    `C10_rows`, the traced class matrices `C10_classMats`, the arities `C10_arity`, the per-row facts
    `C10_rows_ok` (from the `_single` corollaries) and `C10_unroll_circuit`
    = QV.Props.C10.T10_unroll_circuit_of_rows instantiated with them (QV/Props/C10c.lean)."""
    canon = lambda lab: alias.get(lab, lab)  # an entry with the same Lean term as an earlier one is checked once
    obnames = {n for n, _, _ in tab.obs}
    rows = [(ti, nm, "C10_row_" + lab[len("C10_entry_"):], canon(lab), gen_) for ti, nm, lab, gen_ in rows if canon(lab) in obnames]
    ar = "(QV.Props.C10.arOf C10_arity)"
    cm = "(QV.Props.C10.cmOf C10_classMats)"
    tab.corollary("C10_arity", "List (Nat × Nat)",
                  "[" + ", ".join(f"({cid(n)}, {i.nq})" for n, i in sorted(infos.items()) if i.generic) + "]", kind="def")
    first = {}
    for ti, nm, rn, lab, gen_ in rows:
        if gen_:
            first.setdefault(nm, lab)
    tab.corollary("C10_classMats", "List (Nat × List (List Ex))",
                  lambda have: "[" + ", ".join(f"({cid(nm)}, (QV.Ob.refGate o_{lab}).mat)" for nm, lab in sorted(first.items()) if lab in have) + "]",
                  kind="def")
    for ti, nm, rn, lab, gen_ in rows:
        tab.corollary(rn, f"QV.Props.C10.RowOK {ar} ({ti}, {cid(nm)}, o_{lab})",
                      f"⟨{lab}_single, by decide +kernel⟩", needs=[f"{lab}_single", "C10_arity"])
    avail = lambda have: [r for r in rows if r[2] in have]
    tab.corollary("C10_rows", "List QV.Props.C10.Row",
                  lambda have: "[" + ", ".join(f"({ti}, {cid(nm)}, o_{lab})" for ti, nm, rn, lab, _ in avail(have)) + "]", kind="def")

    def okproof(have):
        t = "QV.forall_mem_nil _"
        for ti, nm, rn, lab, _ in reversed(avail(have)):
            t = f"QV.forall_mem_cons_of {rn}\n    ({t})"
        return t
    tab.corollary("C10_rows_ok", f"∀ r ∈ C10_rows, QV.Props.C10.RowOK {ar} r", okproof, needs=["C10_rows"])
    # the key gate of every generic row is the class matrix on the template qubits (kernel-decided), so
    # the key-gate half of `Faithful` is automatic for them (QV.Props.C10.T10_hg_generic)
    tab.corollary("C10_rowsGeneric", "List QV.Props.C10.Row",
                  lambda have: "[" + ", ".join(f"({ti}, {cid(nm)}, o_{lab})" for ti, nm, rn, lab, g_ in avail(have) if g_ and first.get(nm) in have) + "]",
                  kind="def")
    tab.corollary("C10_rowsGeneric_ok", f"C10_rowsGeneric.all (QV.Props.C10.rowGeneric {cm}) = true", "by decide +kernel",
                  needs=["C10_rowsGeneric", "C10_classMats"])
    tab.corollary(
        "C10_unroll_circuit",
        "∀ (T : QV.Unroll.Tables) (ρ : Nat → Nat → ℝ),\n"
        f"    QV.Props.C10.Faithful C10_rows {ar} {cm} ρ T →\n"
        "    ∀ (nat : QV.Unroll.Natives), QV.Unroll.Closed T nat → ∀ (fuel : Nat) (gs out : List QV.Unroll.UGate),\n"
        f"    (∀ g ∈ gs, QV.Unroll.passThrough g.cls = true ∨ QV.Unroll.WellPlaced {ar} g) →\n"
        "    QV.Unroll.unroll T nat fuel gs = some out →\n"
        "    (∃ c : ℂ, ‖c‖ = 1 ∧ ∀ (ψ : Lab → ℂ) (x : Lab),\n"
        f"      runCircuit (out.map (QV.Props.C10.semCls {cm} ρ)) ψ x = c * runCircuit (gs.map (QV.Props.C10.semCls {cm} ρ)) ψ x) ∧\n"
        "    (∀ y ∈ out, QV.Unroll.isNative nat y.cls = true ∨ (y ∈ gs ∧ QV.Unroll.passThrough y.cls = true)) ∧\n"
        f"    (∀ y ∈ out, QV.Unroll.passThrough y.cls = true ∨ QV.Unroll.WellPlaced {ar} y)",
        f"fun T ρ hF nat hC fuel gs out hgs h =>\n    QV.Props.C10.T10_unroll_circuit_of_rows C10_rows {ar} {cm} C10_rows_ok T ρ hF nat hC fuel gs out hgs h",
        needs=["C10_rows_ok", "C10_classMats"], imports=["QV.Props.C10c"])


def concrete_tables(ctx, tab, alias, infos):
    """CONCRETE TABLES (generated): `C10_sym : QV.Unroll.SymTables` = the six translation tables as a Lean value of the
    dispatch model's table type (QV/Model/SymTable.lean; `QV.Props.C10.toTables C10_sym ρ : QV.Unroll.Tables`): one row per
    traced branch of every entry, emitted gates with their class, template qubits and PARAMETER EXPRESSIONS (the traced
    `parameters` of the emitted gate objects as trees in the key gate's parameters).  Kernel obligations per row
    (`C10_symrow_k_ok`): every emitted gate's traced matrix = its class matrix at those expressions, the key gate = the
    class matrix on that branch, real parameters, arities.  Corollaries: `C10_sym_check`, `C10_sym_rows_ok`,
    `C10_sym_closed` (the 8 native sets) and `C10_unroll_concrete` = QV.Props.C10.T10_unroll_concrete at `C10_sym`:
    no table hypothesis left."""
    canon = lambda lab: alias.get(lab, lab)
    obnames = {n for n, _, _ in tab.obs}
    CONCRETE.clear()
    CONCRETE.update({"rows": [], "abstract": [], "emitted": False})
    srows = [r for r in SYMROWS if canon(r["label"]) in obnames]
    # class matrix of a class = key gate of its first generic row (as in end_to_end)
    first = {}
    for r in srows:
        if r["ncons"] == 0:
            first.setdefault(r["name"], canon(r["label"]))
    usable = []
    for r in srows:
        why = None
        if r["name"] not in first:
            why = "no generic row for the key class"
        for cname, qs, ps, cb in r["gates"]:
            if cb:
                why = "emits a controlled_by gate"
            elif cname not in first:
                why = f"no traced class matrix for the emitted class {cname}"
            elif cname not in infos or not infos[cname].generic or infos[cname].nq != len(qs):
                why = f"emitted class {cname} has no fixed arity"
        if why:
            CONCRETE["abstract"].append((TABLE_NAMES[r["tab"]], r["name"], r["label"], why))
        else:
            usable.append(r)
    # special branches (more constraints) before the generic row of the same table and class
    order = sorted(range(len(usable)), key=lambda i: (usable[i]["tab"], cid(usable[i]["name"]), -usable[i]["ncons"], i))
    usable = [usable[i] for i in order]
    width = max([len(r["gates"]) for r in usable] + [0]) + 1
    lt = lambda t: lean_tree(simplify(t))
    tab.define("C10_arL", "List (Nat × Nat)",
               "[" + ", ".join(f"({cid(n)}, {i.nq})" for n, i in sorted(infos.items()) if i.generic) + "]")
    tab.define("C10_cmL", "List (Nat × List (List Ex))",
               "[" + ", ".join(f"({cid(nm)}, (o_{lab}.rs.headD default).mat)" for nm, lab in sorted(first.items())) + "]")
    ar, cm = "(QV.Unroll.arOfL C10_arL)", "(QV.Unroll.cmOfL C10_cmL)"
    masks = [mask_of(ns) for _, ns, _, _ in native_sets()]
    tab.define("C10_nativeSets", "List Nat", "[" + ", ".join(map(str, masks)) + "]")
    names = []
    for k, r in enumerate(usable):
        rn = f"C10_symrow_{k}"
        gates = ", ".join("{ cls := %d, qubits := %s, params := [%s] }" % (cid(c), list(qs), ", ".join(lt(p_) for p_ in ps))
                          for c, qs, ps, _ in r["gates"])
        tab.define(rn, "QV.Unroll.SymRow",
                   "{ tab := %d, cls := %d, keyParams := [%s],\n    gates := [%s],\n    ob := o_%s }"
                   % (r["tab"], cid(r["name"]), ", ".join(lt(p_) for p_ in r["key"]), gates, canon(r["label"])))
        tab.ob(rn + "_ok", f"QV.Unroll.symRowCheck {ar} {cm} {width} {rn}", gate=r["name"], row=r["label"])
        tab.ob(rn + "_closed", f"C10_nativeSets.all (fun n => QV.Unroll.rowClosedB n {rn})", gate=r["name"], row=r["label"])
        lab = canon(r["label"])
        tab.corollary(f"C10_crow_{k}", f"QV.Props.C10.RowOK {ar} ({rn}.tab, {rn}.cls, {rn}.ob)",
                      f"⟨{lab}_single, by decide +kernel⟩", needs=[f"{lab}_single", rn + "_ok", rn + "_closed"])
        names.append((k, rn, r))
    avail = lambda have: [(k, rn, r) for k, rn, r in names if f"C10_crow_{k}" in have]
    _, D, U = modules()
    classes = "[" + ", ".join("[" + ", ".join(str(c) for c in sorted(cid(c.__name__) for c in getattr(D, t).decompositions)) + "]"
                              for t in TABLE_NAMES) + "]"

    def symdef(have):
        CONCRETE["rows"] = [r for _, _, r in avail(have)]
        CONCRETE["abstract"] += [(TABLE_NAMES[r["tab"]], r["name"], r["label"], "row obligation not proved")
                                 for k, rn, r in names if f"C10_crow_{k}" not in have]
        return "{ classes := " + classes + ",\n    rows := [" + ", ".join(rn for _, rn, _ in avail(have)) + f"],\n    width := {width} }}"
    tab.corollary("C10_sym", "QV.Unroll.SymTables", symdef, kind="def")

    def chain(prefix, suffix=""):
        def proof(have):
            t = "QV.forall_mem_nil _"
            for k, rn, _ in reversed(avail(have)):
                t = f"QV.forall_mem_cons_of {prefix}{k}{suffix}\n    ({t})"
            return t
        return proof
    tab.corollary("C10_sym_rows_ok", f"∀ row ∈ C10_sym.rows, QV.Props.C10.RowOK {ar} (row.tab, row.cls, row.ob)",
                  chain("C10_crow_"), needs=["C10_sym"], imports=["QV.Props.C10e"])
    tab.corollary("C10_sym_check", f"QV.Unroll.SymTables.check C10_sym {ar} {cm} = true",
                  lambda have: "List.all_eq_true.mpr\n    (" + chain("C10_symrow_", "_ok")(have) + ")", needs=["C10_sym"])
    tab.corollary("C10_sym_closed", "∀ nat ∈ C10_nativeSets, QV.Unroll.SymTables.closedB C10_sym nat = true",
                  lambda have: "QV.Props.C10.closedB_of_rows C10_sym C10_nativeSets\n    (" + chain("C10_symrow_", "_closed")(have) + ")",
                  needs=["C10_sym"], imports=["QV.Props.C10e"])
    tab.corollary(
        "C10_unroll_concrete",
        "∀ (base : Nat → Nat → ℝ) (nat : QV.Unroll.Natives), nat ∈ C10_nativeSets →\n"
        "    ∀ (fuel : Nat) (gs out : List QV.Unroll.UGate),\n"
        f"    (∀ g ∈ gs, QV.Unroll.passThrough g.cls = true ∨ QV.Unroll.WellPlaced {ar} g) →\n"
        "    QV.Unroll.unroll (QV.Props.C10.toTables C10_sym (QV.Props.C10.extend C10_sym base)) nat fuel gs = some out →\n"
        "    (∃ c : ℂ, ‖c‖ = 1 ∧ ∀ (ψ : Lab → ℂ) (x : Lab),\n"
        f"      runCircuit (out.map (QV.Props.C10.semCls {cm} (QV.Props.C10.extend C10_sym base))) ψ x\n"
        f"        = c * runCircuit (gs.map (QV.Props.C10.semCls {cm} (QV.Props.C10.extend C10_sym base))) ψ x) ∧\n"
        "    (∀ y ∈ out, QV.Unroll.isNative nat y.cls = true ∨ (y ∈ gs ∧ QV.Unroll.passThrough y.cls = true)) ∧\n"
        f"    (∀ y ∈ out, QV.Unroll.passThrough y.cls = true ∨ QV.Unroll.WellPlaced {ar} y)",
        "fun base nat hn fuel gs out hgs h =>\n"
        f"    QV.Props.C10.T10_unroll_concrete C10_sym {ar} {cm} C10_sym_check C10_sym_rows_ok base nat\n"
        "      (C10_sym_closed nat hn) fuel gs out hgs h",
        needs=["C10_sym_check", "C10_sym_rows_ok", "C10_sym_closed"], imports=["QV.Props.C10e"])


def concrete_report(ctx, tab):
    """obligations / stats of the generated concrete tables."""
    rows_ = CONCRETE.get("rows", [])
    emitted = "C10_unroll_concrete" in tab.cor_names
    CONCRETE["emitted"] = emitted
    ctx.stats["concrete_rows_in_C10_sym"] = len(rows_)
    ctx.stats["concrete_rows_special_branch"] = len([r for r in rows_ if r["ncons"]])
    ctx.stats["rows_left_abstract"] = len(CONCRETE.get("abstract", []))
    for t in TABLE_NAMES:
        ctx.stats[f"concrete_rows_{t}"] = len([r for r in rows_ if TABLE_NAMES[r["tab"]] == t])
    ctx.ob("C10_unroll_concrete", emitted, "generated-kernel",
           "" if emitted else "the corollary at the concrete tables was not emitted (a row check, a row obligation or the closure under a native set failed)")
    absr = CONCRETE.get("abstract", [])
    ctx.ob("C10_concrete_complete", not absr, "generated-kernel",
           "" if not absr else "traced rows not in the concrete tables: " + "; ".join(f"{t}[{n}] ({lab}): {why}" for t, n, lab, why in absr[:6]))
    ctx.notes.append("concrete tables C10_sym (generated): rows " + ", ".join(
        sorted({f"{TABLE_NAMES[r['tab']]}[{r['name']}]" + (f"x{len([q for q in rows_ if q['tab'] == r['tab'] and q['name'] == r['name']])}" if len([q for q in rows_ if q['tab'] == r['tab'] and q['name'] == r['name']]) > 1 else "") for r in rows_}))
        + "; numeric entries kept outside (entry = none in the concrete tables, covered by the abstract theorem + ZYZ theorem + search): "
        + ", ".join(sorted(NUMERIC_CLASSES)))


def kak_obligations(ctx, tab):
    """ALGEBRAIC SKELETON of the two-qubit synthesis (generated kernel obligations): the real `cnot_decomposition` and
    `cnot_decomposition_light` are run on SYMBOLIC hx, hy, hz (both qubit orders); the product of the emitted gates must be,
    for all real h, a unit scalar times the canonical core `QV.KAK.udEx` = Ud(h) = exp(-i(hx XX + hy YY + hz ZZ))
    (QV/Proofs/KAK.lean: udEx_eq, udMat_eq_exp), `hz = 0` for the light variant.  The only step of
    `two_qubit_decomposition` left unproved is the numerical factorisation U = (u4 ⊗ v4) Ud (u1 ⊗ v1) itself
    (certificate-checked on every input by kak_certificate)."""
    from qibo.transpiler import unitary_decompositions as UD

    gates, _, _ = modules()
    sb = qgates.sym_backend()

    class Proxy:  # the Unitary constructor's numeric unitarity test cannot run on symbolic matrices
        def __getattr__(self, n):
            if n == "Unitary":
                return lambda u, *q, **kw: gates.Unitary(u, *q, check_unitary=False, **kw)
            return getattr(gates, n)
    old = UD.gates
    UD.gates = Proxy()
    try:
        for name, fn, k, mat in (("cnot", UD.cnot_decomposition, 3, "QV.KAK.udEx"),
                                 ("light", UD.cnot_decomposition_light, 2, "(substMat [.par 0, .par 1, .rat 0 1] QV.KAK.udEx)")):
            for q in ((0, 1), (1, 0)):
                label = f"C10_kak_{name}_{q[0]}{q[1]}"
                try:
                    gl = fn(q[0], q[1], *[S.par(i) for i in range(k)], sb)
                    ls = [qgates.sgate_of(x) for x in gl]
                except (Untranslatable, BranchOnSymbol) as e:
                    ctx.ob(label, False, "translator", f"{type(e).__name__}: {e}")
                    continue
                l = "[" + ",\n   ".join(gen.sgate(*g) for g in ls) + "]"
                tab.define(f"o_{label}", "Ob",
                           f"{{ np := {k}, n := 2,\n      ls := {l},\n      rs := [{{ mat := {mat}, targets := {list(q)} }}],\n      mode := .phase }}")
                tab.ob(label, f"Ob.check o_{label}", supported=f"Ob.supported o_{label}", sem=f"QV.Ob.check_sound o_{label} {label}",
                       run=(f"QV.Ob.RunStmt o_{label}", f"QV.Ob.runStmt_of_check o_{label} (by decide +kernel) {label}"), gate="Unitary")
                tab.corollary(f"{label}_single", f"QV.Ob.SingleStmt o_{label}",
                              f"QV.Ob.singleStmt_of_check o_{label} (by decide +kernel) {label}", needs=[label])
                ctx.stat("kak_template_obligations")
    finally:
        UD.gates = old
    tab.corollary(
        "C10_kak_reconstruction",
        "∀ (θ : Nat → ℝ) (u1 v1 u4 v4 : Nat → Nat → ℂ),\n"
        "    QV.Unroll.PhaseEq QV.unitPhases\n"
        "      (QV.Props.C10.dressGeneral (o_C10_kak_cnot_01.ls.map (QV.SGate.toMGate θ)) 0 1 u1 v1 u4 v4)\n"
        "      ([QV.Props.C10.u1q u1 0, QV.Props.C10.u1q v1 1] ++ [o_C10_kak_cnot_01.refGate.toMGate θ] ++\n"
        "        [QV.Props.C10.u1q u4 0, QV.Props.C10.u1q v4 1])",
        "fun θ u1 v1 u4 v4 =>\n"
        "    QV.Props.C10.T10_kak_dressing_ob o_C10_kak_cnot_01 (by decide +kernel) C10_kak_cnot_01_single θ u1 v1 u4 v4",
        needs=["C10_kak_cnot_01_single"], imports=["QV.Props.C10f"])


def extra_generated(ctx):
    """modules and theorem names of the thorough-only generated table."""
    import re

    from vlib import leanrun

    if not ctx.thorough:
        return [], []
    mods = [f"QV.Gen.{THOROUGH_PROP}_Ob", f"QV.Gen.{THOROUGH_PROP}_Sem"]
    names = []
    G = leanrun.LEAN_DIR / "QV" / "Gen"
    for p in sorted(G.glob(f"{THOROUGH_PROP}_Ob[0-9]*.lean")) + [G / f"{THOROUGH_PROP}_Sem.lean"]:
        if p.exists():
            names += [f"QV.Gen.{THOROUGH_PROP}.{n}" for n in re.findall(r"^theorem\s+(\S+)", p.read_text(), re.M)]
    return mods, names


# ---------------------------------------------------------------------------
# numeric helpers (independent of qibo's simulation code)


def apply_local(U, m, qs, n):
    """left-multiply the 2^n x 2^n matrix U by the local matrix m on the ordered qubits qs
    (qubit 0 = most significant)."""
    k = len(qs)
    T = U.reshape([2] * n + [2**n])
    mm = np.asarray(m, dtype=complex).reshape([2] * (2 * k))
    T = np.tensordot(mm, T, axes=(list(range(k, 2 * k)), list(qs)))
    T = np.moveaxis(T, list(range(k)), list(qs))
    return T.reshape(2**n, 2**n)


def full_of(gl, n):
    """operator of a list of real gate objects applied in list order."""
    nb = qgates.np_backend()
    U = np.eye(2**n, dtype=complex)
    for g in gl:
        nm = g.__class__.__name__
        if nm in ("M", "I", "Align"):
            continue
        if g.is_controlled_by:
            U = qgates.gate_full_matrix(g, n) @ U
        else:
            U = apply_local(U, np.asarray(g.matrix(nb)), list(g.qubits), n)
    return U


REPLAY_PRE = (
    "import numpy as np\n"
    "from qibo import gates, Circuit\n"
    "from qibo.backends import NumpyBackend\n"
    "from qibo.transpiler.unroller import NativeGates, Unroller, translate_gate\n"
    "from qibo.transpiler.asserts import assert_decomposition\n"
    "nb = NumpyBackend()\n"
    "def full(gl, n):\n"
    "    U = np.eye(2**n, dtype=complex)\n"
    "    for g in gl:\n"
    "        if g.__class__.__name__ in ('M', 'I', 'Align'): continue\n"
    "        qs = list(g.qubits); k = len(qs)\n"
    "        T = U.reshape([2]*n + [2**n]); m = np.asarray(g.matrix(nb), dtype=complex).reshape([2]*(2*k))\n"
    "        T = np.tensordot(m, T, axes=(list(range(k, 2*k)), qs)); T = np.moveaxis(T, list(range(k)), qs)\n"
    "        U = T.reshape(2**n, 2**n)\n"
    "    return U\n"
    "def phase_equal(a, b, tol):\n"
    "    i = np.argmax(abs(b)); c = a.flat[i] / b.flat[i]\n"
    "    return abs(abs(c) - 1) < 1e-6 and np.allclose(a, c * b, atol=tol)\n"
    "def natives(names):\n"
    "    ns = NativeGates.NONE\n"
    "    for x in names: ns |= getattr(NativeGates, x)\n"
    "    return ns\n"
    "def only_native(gl, ns):\n"
    "    return all(g.__class__.__name__ == 'M' or (hasattr(NativeGates, g.__class__.__name__) and bool(getattr(NativeGates, g.__class__.__name__) & ns) and not g.is_controlled_by) for g in gl)\n"
)


def flag_names(ns):
    _, _, U = modules()
    return [f for f in FLAGS if getattr(U.NativeGates, f) & ns]


def only_native(gl, ns):
    return all(g.__class__.__name__ == "M" or (is_native(g, ns) and not g.is_controlled_by) for g in gl)


def as_list(out):
    return out if isinstance(out, list) else [out]


# ---------------------------------------------------------------------------
# gate constructors for the search and the correspondence

PARAM_GRID = [0.0, math.pi / 2, -math.pi / 2, math.pi, -math.pi, 2 * math.pi, 1e-9, -1e-7, 0.3, -1.1, 2.0,
              math.pi / 3, math.pi / 4, 3 * math.pi / 2, 0.7, -2.6]


def placements(nq, n):
    return list(itertools.permutations(range(n), nq))


def make_code(name, qs, vals):
    return f"gates.{name}(*{list(qs)}, *{[float(v) for v in vals]})"


def gate_code(g):
    """python expression rebuilding a real gate object."""
    name = g.__class__.__name__
    ps = []
    for p_ in g.parameters:
        a = np.asarray(p_)
        ps.append(repr(float(a.real)) if a.ndim == 0 else f"np.array({a.tolist()})")
    if name == "Unitary":
        return f"gates.Unitary({ps[0]}, *{list(g.target_qubits)})" + (f".controlled_by(*{list(g.control_qubits)})" if g.is_controlled_by else "")
    if g.is_controlled_by:
        return f"gates.{name}(*{list(g.target_qubits)}, {', '.join(ps)}).controlled_by(*{list(g.control_qubits)})".replace(", )", ")")
    return f"gates.{name}(*{list(g.qubits)}, {', '.join(ps)})".replace(", )", ")")


def haar(rng, d):
    """seeded Haar unitary (QR of a Ginibre matrix with phase fix)."""
    r = np.random.default_rng(rng.getrandbits(32))
    z = (r.normal(size=(d, d)) + 1j * r.normal(size=(d, d))) / math.sqrt(2)
    q, t = np.linalg.qr(z)
    ph = np.diag(t) / np.abs(np.diag(t))
    return q * ph


def corpus_2q(rng):
    """non-generic two-qubit unitaries (degenerate spectra, local, diagonal, controlled …)."""
    gates, _, _ = modules()
    nb = qgates.np_backend()
    I2 = np.eye(2, dtype=complex)
    X = np.array([[0, 1], [1, 0]], dtype=complex)
    Z = np.diag([1, -1]).astype(complex)
    H = np.array([[1, 1], [1, -1]], dtype=complex) / math.sqrt(2)
    m = lambda g: np.asarray(g.matrix(nb), dtype=complex)
    out = {
        "I": np.eye(4, dtype=complex), "-I": -np.eye(4, dtype=complex), "iI": 1j * np.eye(4, dtype=complex),
        "CNOT": m(gates.CNOT(0, 1)), "CNOT10": apply_local(np.eye(4, dtype=complex), m(gates.CNOT(0, 1)), [1, 0], 2),
        "CZ": m(gates.CZ(0, 1)), "SWAP": m(gates.SWAP(0, 1)), "iSWAP": m(gates.iSWAP(0, 1)),
        "HxH": np.kron(H, H), "ZxX": np.kron(Z, X), "XxI": np.kron(X, I2), "IxH": np.kron(I2, H),
        "RXX": m(gates.RXX(0, 1, 0.7)), "RXXpi": m(gates.RXX(0, 1, math.pi)), "RYY": m(gates.RYY(0, 1, -1.3)),
        "RZZpi2": m(gates.RZZ(0, 1, math.pi / 2)), "RZZ": m(gates.RZZ(0, 1, 0.4)),
        "diag": np.diag(np.exp(1j * np.array([0.1, -0.7, 1.9, 2.5]))),
        "diag_deg": np.diag(np.exp(1j * np.array([0.4, 0.4, -0.4, -0.4]))),
        "SiSWAP": m(gates.SiSWAP(0, 1)), "SiSWAPDG": m(gates.SiSWAPDG(0, 1)), "CRY": m(gates.CRY(0, 1, 0.9)),
        "CRX": m(gates.CRX(0, 1, math.pi)), "fSim": m(gates.fSim(0, 1, 0.5, 1.2)), "fSim_pi2": m(gates.fSim(0, 1, math.pi / 2, 0.0)),
        "CU1": m(gates.CU1(0, 1, 0.8)), "CU1pi2": m(gates.CU1(0, 1, math.pi / 2)), "CY": m(gates.CY(0, 1)),
        "FSWAP": m(gates.FSWAP(0, 1)), "ECR": m(gates.ECR(0, 1)), "SYC": m(gates.SYC(0, 1)), "MS": m(gates.MS(0, 1, 0.3, 0.5)),
        "GIVENS": m(gates.GIVENS(0, 1, 0.6)), "RBS": m(gates.RBS(0, 1, 1.0)), "RXXYY": m(gates.RXXYY(0, 1, 0.8)),
        "CSX": m(gates.CSX(0, 1)), "RZX": m(gates.RZX(0, 1, 0.45)),
    }
    a, b = haar(rng, 2), haar(rng, 2)
    c, d = haar(rng, 2), haar(rng, 2)
    out["local"] = np.kron(a, b)
    out["local_CNOT_local"] = np.kron(a, b) @ out["CNOT"] @ np.kron(c, d)
    out["local_SWAP_local"] = np.kron(a, b) @ out["SWAP"] @ np.kron(c, d)
    out["local_CZ"] = np.kron(a, b) @ out["CZ"]
    out["local_RXX_local"] = np.kron(c, d) @ out["RXX"] @ np.kron(b, a)
    out["phase_iSWAP"] = np.exp(0.77j) * out["iSWAP"]
    for i, eps in enumerate([1e-3, 1e-5, 1e-7]):  # nearly degenerate / nearly local
        out[f"nearlocal{i}"] = np.kron(a, b) @ m(gates.RXX(0, 1, eps)) @ np.kron(c, d)
        out[f"nearCNOT{i}"] = np.kron(c, b) @ out["CNOT"] @ m(gates.RZZ(0, 1, eps)) @ np.kron(a, d)
        out[f"nearhz{i}"] = m(gates.RXX(0, 1, 0.7)) @ m(gates.RYY(0, 1, -0.4)) @ m(gates.RZZ(0, 1, eps))
    out["sqrtSWAP"] = np.array([[1, 0, 0, 0], [0, (1 + 1j) / 2, (1 - 1j) / 2, 0], [0, (1 - 1j) / 2, (1 + 1j) / 2, 0], [0, 0, 0, 1]])
    return out


def corpus_1q(rng):
    gates, _, _ = modules()
    nb = qgates.np_backend()
    m = lambda g: np.asarray(g.matrix(nb), dtype=complex)
    out = {"I": np.eye(2, dtype=complex), "-I": -np.eye(2, dtype=complex), "iI": 1j * np.eye(2, dtype=complex),
           "X": m(gates.X(0)), "Y": m(gates.Y(0)), "Z": m(gates.Z(0)), "H": m(gates.H(0)), "S": m(gates.S(0)),
           "T": m(gates.T(0)), "SX": m(gates.SX(0)), "RZ": m(gates.RZ(0, 0.3)), "RXpi": m(gates.RX(0, math.pi)),
           "RYpi": m(gates.RY(0, math.pi)), "iX": 1j * m(gates.X(0)), "U3": m(gates.U3(0, 0.4, -1.2, 2.2)),
           "phaseH": np.exp(-2.1j) * m(gates.H(0)), "GPI2": m(gates.GPI2(0, 0.7)),
           "tiny": m(gates.RX(0, 1e-9)), "nearX": m(gates.RX(0, math.pi - 1e-9))}
    # near the boundaries of the angle formulas: special angles +- small offsets
    special = [0.0, math.pi / 2, math.pi, -math.pi / 2, -math.pi, 2 * math.pi]
    for i in range(8):
        t, p, l = (rng.choice(special) + rng.choice([0.0, 1e-4, -1e-6, 1e-9, 3e-3]) for _ in range(3))
        out[f"nearU{i}"] = m(gates.U3(0, t, p, l))
        out[f"nearZ{i}"] = np.exp(1j * rng.uniform(-3, 3)) * m(gates.RZ(0, rng.choice([1e-4, -1e-6, 2e-3]))) @ m(gates.RY(0, rng.uniform(0.1, 3))) @ m(gates.RZ(0, rng.choice([1e-4, -1e-5, -2e-3])))
    return out


# ---------------------------------------------------------------------------
# (2) correspondence: the Lean dispatch model over the real tables' shapes


class Shapes:
    """shape of the real tables, discovered by calling the real entries: rows
    (class, tag) -> template [(class, qubits, tag, cb)], tags = parameter values."""

    def __init__(self):
        _, D, _ = modules()
        self.tables = [getattr(D, t) for t in TABLE_NAMES]
        self.tags = {}
        self.rows = [dict() for _ in self.tables]
        self.real_rows = [dict() for _ in self.tables]  # (class, tag) -> (the real key gate, the real template gates)
        self.done = set()

    @staticmethod
    def pkey(g):
        ps = []
        for p in g.parameters:
            a = np.asarray(p)
            if a.ndim == 0:  # exact value: both sides are produced by the same deterministic code
                ps.append((float(a.real) + 0.0).hex())
            else:
                ps.append((a.astype(complex) + 0.0).tobytes())
        return (g.__class__.__name__, tuple(ps))

    def tag(self, g):
        k = self.pkey(g)
        if k not in self.tags:
            self.tags[k] = len(self.tags)
        return self.tags[k]

    def ugate(self, g):
        return (cid(g.__class__.__name__), tuple(g.qubits), self.tag(g), 1 if g.is_controlled_by else 0)

    def close(self, g, depth=0):
        """record the rows of every table for g's class/parameters and for everything reachable."""
        k = self.pkey(g)
        if k in self.done or depth > 6:
            return
        self.done.add(k)
        nb = qgates.np_backend()
        c, t = cid(g.__class__.__name__), self.tag(g)
        for i, table in enumerate(self.tables):
            if g.__class__ not in table.decompositions:
                continue
            try:
                tmpl = list(table._check_instance(g, nb))
            except Exception:
                continue  # producing the entry raises: no row
            self.rows[i][(c, t)] = [self.ugate(x) for x in tmpl]
            self.real_rows[i][(c, t)] = (g, tmpl)
            for x in tmpl:
                self.close(x, depth + 1)

    def tokens(self):
        out = []
        for i, table in enumerate(self.tables):
            cs = sorted(cid(c.__name__) for c in table.decompositions)
            out.append(f"{len(cs)} " + " ".join(map(str, cs)))
            out.append(str(len(self.rows[i])))
            for (c, t), tmpl in sorted(self.rows[i].items()):
                out.append(f"{c} {t} {len(tmpl)} " + " ".join(gate_tokens(u) for u in tmpl))
        return " ".join(out)


def gate_tokens(u):
    c, qs, t, cb = u
    return f"{c} {len(qs)} " + " ".join(map(str, qs)) + f" {t} {cb}"


def show_res(gl, shapes):
    return " ".join(["OK"] + [f"{c}:{','.join(map(str, qs))}:{t}:{cb}" for c, qs, t, cb in (shapes.ugate(g) for g in gl)])


def corr_cases(ctx):
    """(description, builder) pairs; builder() returns a fresh real gate."""
    gates, D, U = modules()
    infos = qgates.gate_infos()
    rng = ctx.rng
    cases = []
    names = sorted(n for n, i in infos.items() if i.generic)
    for name in names:
        info = infos[name]
        n = info.nq + 1
        pls = placements(info.nq, n)
        chosen = pls if ctx.thorough else [pls[0]] + rng.sample(pls[1:], min(2, len(pls) - 1))
        for qs in chosen:
            npar = 3 if ctx.thorough else 2
            for j in range(npar):
                vals = [rng.choice(PARAM_GRID) if j else [0.37, -1.21, 2.05][i % 3] for i in range(info.np)]
                try:
                    info.make(list(qs), vals)
                except Exception:
                    continue
                cases.append((f"{name}{tuple(qs)}{tuple(round(v, 4) for v in vals)}",
                              (lambda info=info, qs=qs, vals=vals: info.make(list(qs), vals)),
                              make_code(name, qs, vals)))
                if not info.np:
                    break
    # special gates
    cases.append(("I(1)", lambda: gates.I(1), "gates.I(1)"))
    cases.append(("Align(0)", lambda: gates.Align(0, 0), "gates.Align(0, 0)"))
    cases.append(("M(0,2)", lambda: gates.M(0, 2), "gates.M(0, 2)"))
    cases.append(("H(1).cb(0)", lambda: gates.H(1).controlled_by(0), "gates.H(1).controlled_by(0)"))
    cases.append(("RXX(0,1).cb(2)", lambda: gates.RXX(0, 1, 0.3).controlled_by(2), "gates.RXX(0, 1, 0.3).controlled_by(2)"))
    cases.append(("RZ(0).cb(1,2)", lambda: gates.RZ(0, 0.3).controlled_by(1, 2), "gates.RZ(0, 0.3).controlled_by(1, 2)"))
    cases.append(("SWAP(1,2).cb(0)", lambda: gates.SWAP(1, 2).controlled_by(0), "gates.SWAP(1, 2).controlled_by(0)"))
    for _ in range(3 if ctx.thorough else 1):
        u1, u2 = haar(rng, 2), haar(rng, 4)
        q = rng.sample(range(3), 2)
        cases.append(("Unitary1q", lambda u1=u1, q=q: gates.Unitary(u1, q[0]), f"gates.Unitary(np.array({u1.tolist()}), {q[0]})"))
        cases.append(("Unitary2q", lambda u2=u2, q=q: gates.Unitary(u2, *q), f"gates.Unitary(np.array({u2.tolist()}), *{q})"))
    cases.append(("Unitary2q_CNOT", lambda: gates.Unitary(np.asarray(gates.CNOT(0, 1).matrix(qgates.np_backend())), 1, 0),
                  "gates.Unitary(gates.CNOT(0, 1).matrix(nb), 1, 0)"))
    cases.append(("fSim(2,0)", lambda: gates.fSim(2, 0, 0.4, 1.1), "gates.fSim(2, 0, 0.4, 1.1)"))
    cases.append(("GeneralizedfSim", lambda: gates.GeneralizedfSim(0, 1, np.asarray(gates.RY(0, 0.6).matrix(qgates.np_backend())), 0.3),
                  "gates.GeneralizedfSim(0, 1, gates.RY(0, 0.6).matrix(nb), 0.3)"))
    return cases


def odd_sets():
    _, _, U = modules()
    N = U.NativeGates
    # sets without a one-qubit or without a two-qubit native (errors) and the default set;
    # mixed sets (GPI2 and U3 together, CNOT next to CZ) are outside the property: which
    # table wins there is the implementation's choice and is not compared
    return [("CZ_only", N.CZ | N.RZ), ("U3_only", N.U3 | N.Z), ("NONE", N.NONE), ("default", N.default())]


def correspondence(ctx):
    gates, D, U = modules()
    sets = [(s, ns) for s, ns, _, _ in native_sets()] + odd_sets()
    shapes = Shapes()
    cases = corr_cases(ctx)
    work = []
    for descr, build, code in cases:
        chosen = sets if ctx.thorough else [sets[i] for i in sorted(ctx.rng.sample(range(len(sets)), 5))]
        for sname, ns in chosen:
            shapes.close(build())
            work.append((descr, build, code, sname, ns))
    # real results first (they may add tags), then one table dump for all lines
    real = []
    for descr, build, code, sname, ns in work:
        g = build()
        try:
            out = as_list(U.translate_gate(g, ns))
            for x in out:
                shapes.close(x)
            real.append(out)
        except RecursionError:
            real.append("ERR")
        except Exception:
            real.append("ERR")
    tabs = shapes.tokens()
    lines = [f"TR {mask_of(ns)} 8 {tabs} {gate_tokens(shapes.ugate(build()))}" for descr, build, code, sname, ns in work]
    # closure of the real tables' shapes for every supported native set
    csets = native_sets()
    lines += [f"CLOSED {mask_of(ns)} {tabs}" for _, ns, _, _ in csets]
    outs = run_driver(lines, driver="DriverC10.lean")
    bad, first = 0, None
    for (descr, build, code, sname, ns), r, m in zip(work, real, outs):
        exp = r if r == "ERR" else show_res(r, shapes)
        ctx.case(("TR", descr, sname))
        ctx.stat("TR_" + ("err" if r == "ERR" else "ok"))
        if len(ctx.samples) < 4 and r != "ERR" and len(r) > 2:
            ctx.sample({"kind": "TR", "gate": descr, "natives": flag_names(ns), "result": [f"{x.__class__.__name__}{tuple(x.qubits)}" for x in r][:12]})
        if exp != m:
            bad += 1
            first = first or f"translate_gate({descr}, {sname}): real {exp[:160]} / model {m[:160]}"
            # is the property itself violated on this input?  (otherwise the broken
            # correspondence obligation stands alone: the model no longer mirrors the code)
            search_one(ctx, build, code, sname, ns, broken=["C10_corr_translate"])
    ctx.ob("C10_corr_translate", bad == 0, "correspondence", f"{bad} disagreements, first: {first}" if bad else "")
    okc = True
    for (sname, ns, _, _), m in zip(csets, outs[len(work):]):
        ctx.case(("CLOSED", sname))
        if m != "true":
            okc = False
        ctx.ob(f"C10_closed_{sname}", m == "true", "correspondence",
               "" if m == "true" else "the real tables are not closed under this native set (a table row contains a non-native class)")
    return shapes


def unroll_correspondence(ctx, shapes):
    """whole circuits through the real Unroller vs the model's `unroll`; real
    assert_decomposition vs the model's `assertDecomposition`."""
    from qibo import Circuit
    from qibo.transpiler.asserts import assert_decomposition

    gates, D, U = modules()
    infos = qgates.gate_infos()
    rng = ctx.rng
    sets = [(s, ns) for s, ns, _, _ in native_sets()]
    work = []
    for _ in range(60 if ctx.thorough else 20):
        n = rng.randint(2, 4)
        recipe = []
        sname, ns, s1, s2 = rng.choice(native_sets())
        pool = ONE_Q_COMMON + (ONE_Q_U3_ONLY if s1 == "U3" else []) + 2 * (TWO_Q_CNOT if s2 == ("CNOT",) else TWO_Q_CZ)
        pool = [x for x in pool if x in infos and infos[x].generic]
        odd = rng.random() < 0.2
        for _ in range(rng.randint(1, 6)):
            name = rng.choice(pool if not odd or rng.random() < 0.7 else ["CY", "RZX", "CCZ", "PRX", "RYY", "TOFFOLI"])
            info = infos[name]
            if info.nq > n:
                continue
            qs = rng.sample(range(n), info.nq)
            vals = [rng.choice(PARAM_GRID) for _ in range(info.np)]
            recipe.append((name, qs, vals))
        if rng.random() < 0.4:
            recipe.insert(rng.randint(0, len(recipe)), ("I", [rng.randrange(n)], []))
        if rng.random() < 0.5:
            recipe.append(("M", sorted(rng.sample(range(n), rng.randint(1, n))), []))
        if not recipe:
            continue
        work.append((n, recipe, sname, ns))

    def build(n, recipe):
        c = Circuit(n)
        for name, qs, vals in recipe:
            c.add(getattr(gates, name)(*qs, *vals))
        return c

    real, areal = [], []
    for n, recipe, sname, ns in work:
        c = build(n, recipe)
        for g in c.queue:
            shapes.close(g)
        try:
            u = U.Unroller(ns)(c)
            for x in u.queue:
                shapes.close(x)
            real.append(list(u.queue))
        except Exception:
            real.append("ERR")
    tabs = shapes.tokens()
    lines = []
    for (n, recipe, sname, ns), r in zip(work, real):
        c = build(n, recipe)
        gl = " ".join(gate_tokens(shapes.ugate(g)) for g in c.queue)
        lines.append(f"UNROLL {mask_of(ns)} 8 {tabs} {len(c.queue)} {gl}")
    # assert_decomposition on unrolled circuits (checked against other sets too) and raw circuits
    awork = []
    for (n, recipe, sname, ns), r in zip(work, real):
        for sname2, ns2 in [(sname, ns), rng.choice(sets)]:
            c = Circuit(n)
            src = r if r != "ERR" else list(build(n, recipe).queue)
            gl = [g for g in src if g.__class__.__name__ != "Align"]
            try:
                for g in gl:
                    c.add(g)
                assert_decomposition(c, ns2)
                a = "true"
            except U.DecompositionError:
                a = "false"
            except Exception:
                continue
            awork.append((gl, ns2, a))
            lines.append(f"ASSERT {mask_of(ns2)} {len(gl)} " + " ".join(gate_tokens(shapes.ugate(g)) for g in gl))
    extra_lists = [
        lambda: [gates.iSWAP(0, 1).controlled_by(2)], lambda: [gates.RZ(0, 0.3).controlled_by(1, 2)], lambda: [gates.GPI2(1, 0.3).controlled_by(0, 2, 3)],
        lambda: [gates.H(0), gates.CZ(0, 1)], lambda: [gates.U3(1, 0.1, 0.2, 0.3), gates.iSWAP(0, 2), gates.M(0, 1, 2)],
        lambda: [gates.TOFFOLI(0, 1, 2)], lambda: [gates.Z(2), gates.CNOT(1, 0)], lambda: [gates.M(0, 1, 2, 3)],
        lambda: [gates.GPI2(0, 0.2), gates.RZ(1, 0.1), gates.I(2)], lambda: [gates.Unitary(np.eye(2), 0)],
    ]
    for mk in extra_lists:
        for sname2, ns2 in (sets if ctx.thorough else rng.sample(sets, 3)):
            c = Circuit(4)
            try:
                gl = mk()
                for g in gl:
                    c.add(g)
                assert_decomposition(c, ns2)
                a = "true"
            except U.DecompositionError:
                a = "false"
            except Exception:
                continue
            awork.append((gl, ns2, a))
            lines.append(f"ASSERT {mask_of(ns2)} {len(gl)} " + " ".join(gate_tokens(shapes.ugate(g)) for g in gl))
    outs = run_driver(lines, driver="DriverC10.lean")
    bad, first = 0, None
    for (n, recipe, sname, ns), r, m in zip(work, real, outs):
        exp = r if r == "ERR" else show_res(r, shapes)
        ctx.case(("UNROLL", n, sname, tuple((a, tuple(b)) for a, b, _ in recipe)))
        ctx.stat("UNROLL_" + ("err" if r == "ERR" else "ok"))
        if exp != m:
            bad += 1
            first = first or f"Unroller({sname}) on {[(a, b) for a, b, _ in recipe]}: real {exp[:160]} / model {m[:160]}"
            circuit_check(ctx, n, recipe, sname, ns, broken=["C10_corr_unroll"])
    ctx.ob("C10_corr_unroll", bad == 0, "correspondence", f"{bad} disagreements, first: {first}" if bad else "")
    bad = 0
    for (gl, ns2, a), m in zip(awork, outs[len(work):]):
        ctx.case(("ASSERT", tuple(g.__class__.__name__ for g in gl), mask_of(ns2)))
        ctx.stat("ASSERT_" + a)
        if a != m:
            bad += 1
            names = [(g.__class__.__name__, list(g.qubits)) for g in gl]
            # spec: accepted iff every non-M gate is native and acts on <= 2 qubits
            spec = all(g.__class__.__name__ == "M" or (len(g.qubits) <= 2 and is_native(g, ns2)) for g in gl)
            if str(spec).lower() != a:
                ctx.fail("assert_decomposition", f"assert_decomposition gives {a} on {names} with natives {flag_names(ns2)}",
                         REPLAY_PRE + f"c = Circuit({max(max(g.qubits) for g in gl) + 1})\n" + "".join(f"c.add({gate_code(g)})\n" for g in gl)
                         + f"ns = natives({flag_names(ns2)})\ntry:\n    assert_decomposition(c, ns); got = True\nexcept Exception:\n    got = False\nassert got == {spec}\n",
                         expected=str(spec), observed=a,
                         broken=["C10_corr_assert"])
    ctx.ob("C10_corr_assert", bad == 0, "correspondence", f"{bad} disagreements" if bad else "")


# ---------------------------------------------------------------------------
# (3) direct search on the real code


KAK_KNOWN_KEY = "kak:raises:NotImplementedError"


def is_magic_basis_refusal(e):
    """the one refusal of the numerical KAK path that is a listed finding: eigenvectors of a
    degenerate U^T U are not made real.  Anything else gets its own key."""
    return type(e) is NotImplementedError and "not real in the magic basis" in str(e)


def supported(name, nq, s1, s2):
    """SPEC: must this class translate under this native set?"""
    if nq == 1:
        return name in ONE_Q_COMMON or (s1 == "U3" and name in ONE_Q_U3_ONLY) or name == "Unitary"
    if s2 == ("CNOT",):
        return name in TWO_Q_CNOT
    return name in TWO_Q_CZ or name in ("Unitary", "GeneralizedfSim")


def search_one(ctx, build, code, sname, ns, must=None, tol=1e-7, broken=None, broken_raise=None):
    """property check of one translate_gate call on the real code.  Returns (key, observed)
    of the failure reported, or (None, None)."""
    gates, D, U = modules()
    g = build()
    name = g.__class__.__name__
    n = max(g.qubits) + 1
    special = name in ("I", "Align", "M")
    broken = broken or [f"C10_search_{sname}"]
    ref_gate = build()
    py = REPLAY_PRE + f"g = {code}\nref = {code}\nns = natives({flag_names(ns)})\nn = {n}\n"
    try:
        out = U.translate_gate(g, ns)
    except Exception as e:
        if must:
            key = f"raises:{name}:{sname}"
            if name in ("Unitary", "fSim", "GeneralizedfSim") and len(g.qubits) == 2 and is_magic_basis_refusal(e):
                key = KAK_KNOWN_KEY
            ctx.fail(key, f"translate_gate({code}, {flag_names(ns)}) raises {type(e).__name__}: {e} but the class is in the translation tables of this native set",
                     py + "out = translate_gate(g, ns)\n", observed=f"{type(e).__name__}: {e}", broken=broken_raise or broken)
            return key, f"{type(e).__name__}"
        ctx.stat("refused")
        return None, None
    if special:
        return None, None
    out = as_list(out)
    if g.is_controlled_by:
        key = "controlled_by:silent"
        ctx.fail(key, f"translate_gate({code}) returns {[x.name for x in out][:6]} instead of raising (controlled_by gates are outside the tables)",
                 py + "try:\n    translate_gate(g, ns)\nexcept Exception:\n    raise SystemExit(0)\nraise SystemExit(1)\n",
                 expected="an exception", observed=str([x.name for x in out][:8]), broken=broken)
        return key, "returned"
    nn = only_native(out, ns)
    try:
        ok = qgates.phase_equal(full_of(out, n), full_of([ref_gate], n), tol)
        same_in = np.allclose(np.asarray(g.matrix(qgates.np_backend())), np.asarray(ref_gate.matrix(qgates.np_backend())))
    except Exception as e:
        ok, same_in = False, True
    if not nn:
        key = f"non_native:{name}:{sname}"
        ctx.fail(key, f"translate_gate({code}, {flag_names(ns)}) returns non-native gates {sorted({x.__class__.__name__ for x in out if not is_native(x, ns)})}",
                 py + "out = translate_gate(g, ns)\nassert only_native(out, ns), [x.name for x in out]\n",
                 expected="only " + ",".join(flag_names(ns)), observed=str([x.__class__.__name__ for x in out][:12]),
                 broken=broken)
        return key, "non-native"
    if not ok:
        key = f"operator:{name}:{sname}"
        ctx.fail(key, f"translate_gate({code}, {flag_names(ns)}): product of the result differs from the gate beyond a global phase",
                 py + f"out = translate_gate(g, ns)\nassert phase_equal(full(out, n), full([ref], n), {max(tol, 1e-6)})\n",
                 observed=str([f"{x.__class__.__name__}{tuple(x.qubits)}" for x in out][:12]), broken=broken)
        return key, "wrong operator"
    if not same_in:
        key = f"mutates_input:{name}:{sname}"
        ctx.fail(key, f"translate_gate({code}) changes its input gate", py + "m0 = g.matrix(nb).copy()\ntranslate_gate(g, ns)\nassert np.allclose(g.matrix(nb), m0)\n",
                 broken=broken)
        return key, "mutated input"
    if must is False:
        ctx.stat("extra_supported")
    return None, None


def gate_search(ctx, raised):
    gates, D, U = modules()
    infos = qgates.gate_infos()
    rng = ctx.rng
    for label, name, e in raised:
        ctx.fail(f"raises:{name}:trace", f"tracing {label}: the real code raised {type(e).__name__}: {e}",
                 REPLAY_PRE + f"# {label}: {type(e).__name__}: {e}\nraise SystemExit(1)\n", observed=f"{type(e).__name__}: {e}",
                 broken=[label])
    names = sorted(n for n, i in infos.items() if i.generic)
    for sname, ns, s1, s2 in native_sets():
        before = len(ctx.failures)
        for name in names:
            info = infos[name]
            must = supported(name, info.nq, s1, s2)
            n = info.nq + 1
            pls = placements(info.nq, n)
            if not ctx.thorough:
                pls = [pls[0]] + rng.sample(pls[1:], min(2 if must else 1, len(pls) - 1))
            grids = []
            if info.np:
                k = (8 if ctx.thorough else 4) if must else 1
                for j in range(k):
                    grids.append([rng.choice(PARAM_GRID) for _ in range(info.np)])
                # boundary combinations of the first tier of the grid (0, ±pi/2, ±pi)
                for v in (PARAM_GRID[:6] if ctx.thorough else rng.sample(PARAM_GRID[:6], 2)):
                    grids.append([v] * info.np)
                grids.append([rng.uniform(-7, 7) for _ in range(info.np)])
            else:
                grids = [[]]
            for qs in pls:
                for vals in grids:
                    try:
                        info.make(list(qs), vals)
                    except Exception:
                        ctx.stat("ctor_reject")
                        continue
                    ctx.case(("search", sname, name, tuple(qs), tuple(round(v, 6) for v in vals)))
                    ctx.stat(f"search_{sname}")
                    search_one(ctx, (lambda info=info, qs=qs, vals=vals: info.make(list(qs), vals)),
                               make_code(name, qs, vals), sname, ns, must=must)
        # gates outside the tables: controlled_by, fused, three-qubit
        outside = [
            (lambda: gates.H(1).controlled_by(0), "gates.H(1).controlled_by(0)"),
            (lambda: gates.RXX(0, 1, 0.3).controlled_by(2), "gates.RXX(0, 1, 0.3).controlled_by(2)"),
            (lambda: gates.SWAP(1, 2).controlled_by(0), "gates.SWAP(1, 2).controlled_by(0)"),
            (lambda: gates.RZ(0, 0.2).controlled_by(1, 2), "gates.RZ(0, 0.2).controlled_by(1, 2)"),
            (lambda: gates.Unitary(np.eye(2), 1).controlled_by(0), "gates.Unitary(np.eye(2), 1).controlled_by(0)"),
            (lambda: gates.Unitary(np.eye(8), 0, 1, 2), "gates.Unitary(np.eye(8), 0, 1, 2)"),
        ]
        for build, code in outside:
            ctx.case(("outside", sname, code))
            search_one(ctx, build, code, sname, ns, must=False)
        # fused gates
        for nq in (1, 2):
            def fbuild(nq=nq):
                f = gates.FusedGate(*range(nq))
                f.append(gates.H(0))
                if nq == 2:
                    f.append(gates.CNOT(0, 1))
                f.append(gates.RX(nq - 1, 0.3))
                return f
            code = (f"gates.FusedGate(*range({nq}))\n" + "g.append(gates.H(0))\n" + ("g.append(gates.CNOT(0, 1))\n" if nq == 2 else "")
                    + f"g.append(gates.RX({nq - 1}, 0.3))\nref = g")
            ctx.case(("fused", sname, nq))
            search_one(ctx, fbuild, code, sname, ns, must=False, tol=1e-6)
        ctx.ob(f"C10_search_{sname}", len(ctx.failures) == before, "search",
               "" if len(ctx.failures) == before else "failing inputs found")


def unitary_search(ctx):
    """arbitrary one- and two-qubit unitaries are always translatable (numerical ZYZ / KAK path)."""
    gates, D, U = modules()
    from qibo.transpiler import unitary_decompositions as UD

    nb = qgates.np_backend()
    rng = ctx.rng
    sets = native_sets()
    before = len(ctx.failures)
    mats2 = list(corpus_2q(rng).items()) + [(f"haar{i}", haar(rng, 4)) for i in range(60 if ctx.thorough else 15)]
    mats1 = list(corpus_1q(rng).items()) + [(f"haar{i}", haar(rng, 2)) for i in range(30 if ctx.thorough else 8)]
    for label, M in mats2:
        q = rng.choice([(0, 1), (1, 0), (2, 0), (0, 2), (1, 2), (2, 1)])
        n = max(q) + 1
        Mc = f"np.array({np.asarray(M).tolist()})"
        ctx.case(("kak", label))
        ctx.stat("unitary2q")
        # the synthesis itself
        try:
            gl = UD.two_qubit_decomposition(q[0], q[1], np.array(M, dtype=complex), backend=nb)
            ok = qgates.phase_equal(full_of(gl, n), apply_local(np.eye(2**n, dtype=complex), M, list(q), n), 1e-6)
            shape = all((x.__class__.__name__ == "CZ" and len(x.qubits) == 2) or len(x.qubits) == 1 for x in gl)
            err = None
        except Exception as e:
            ok, shape, err = False, True, e
        if not ok or not shape:
            ctx.fail((KAK_KNOWN_KEY if is_magic_basis_refusal(err) else f"kak:error:{type(err).__name__}") if err else f"kak:operator:{label.rstrip('0123456789')}", f"two_qubit_decomposition of the unitary '{label}' on qubits {q} " + (f"raises {type(err).__name__}: {err}" if err else "is not the unitary up to a phase"),
                     REPLAY_PRE + f"from qibo.transpiler.unitary_decompositions import two_qubit_decomposition\nM = {Mc}\n"
                     f"gl = two_qubit_decomposition({q[0]}, {q[1]}, M.astype(complex), backend=nb)\n"
                     f"assert phase_equal(full(gl, {n}), full([gates.Unitary(M, *{list(q)})], {n}), 1e-6)\n",
                     observed=str(err) if err else "wrong operator",
                     broken=["C10_search_unitary_translatable" if err else "C10_search_unitary_operator"])
        chosen = [s for s in sets if s[3] != ("CNOT",)]
        if not ctx.thorough:
            chosen = rng.sample(chosen, 2)
        for sname, ns, s1, s2 in chosen:
            ctx.case(("unitary2q", label, sname))
            search_one(ctx, (lambda M=M, q=q: gates.Unitary(np.array(M, dtype=complex), *q)), f"gates.Unitary({Mc}, *{list(q)})",
                       sname, ns, must=True, tol=1e-6, broken=["C10_search_unitary_operator"], broken_raise=["C10_search_unitary_translatable"])
    for label, M in mats1:
        q = rng.choice([0, 1, 2])
        Mc = f"np.array({np.asarray(M).tolist()})"
        ctx.stat("unitary1q")
        try:
            t, p, l = UD.u3_decomposition(np.array(M, dtype=complex), nb)
            ok = qgates.phase_equal(np.asarray(gates.U3(0, t, p, l).matrix(nb)), M, 1e-7)
            err = None
        except Exception as e:
            ok, err = False, e
        if not ok:
            ctx.fail(f"zyz:{label.rstrip('0123456789')}", f"u3_decomposition of '{label}' " + (f"raises {err}" if err else "does not reproduce the unitary up to a phase"),
                     REPLAY_PRE + f"from qibo.transpiler.unitary_decompositions import u3_decomposition\nM = {Mc}\n"
                     "t, p, l = u3_decomposition(M.astype(complex), nb)\nassert phase_equal(gates.U3(0, t, p, l).matrix(nb), M, 1e-7)\n",
                     broken=["C10_search_unitary_translatable" if err else "C10_search_unitary_operator"])
        for sname, ns, s1, s2 in (sets if ctx.thorough else rng.sample(sets, 2)):
            ctx.case(("unitary1q", label, sname))
            search_one(ctx, (lambda M=M, q=q: gates.Unitary(np.array(M, dtype=complex), q)), f"gates.Unitary({Mc}, {q})",
                       sname, ns, must=True, tol=1e-7, broken=["C10_search_unitary_operator"], broken_raise=["C10_search_unitary_translatable"])
    # GeneralizedfSim (matrix-valued table entry)
    for sname, ns, s1, s2 in sets:
        if s2 == ("CNOT",):
            continue
        u = haar(rng, 2)
        phi = rng.choice(PARAM_GRID)
        q = rng.choice([(0, 1), (1, 0), (2, 0)])
        search_one(ctx, (lambda u=u, phi=phi, q=q: gates.GeneralizedfSim(q[0], q[1], np.array(u), phi)),
                   f"gates.GeneralizedfSim({q[0]}, {q[1]}, np.array({u.tolist()}), {phi})", sname, ns, must=True, tol=1e-6,
                   broken=["C10_search_unitary_operator"], broken_raise=["C10_search_unitary_translatable"])
    new = ctx.failures[before:]
    for obn in ("C10_search_unitary_translatable", "C10_search_unitary_operator"):
        hit = [f["key"] for f in new if obn in f["broken"]]
        ctx.ob(obn, not hit, "search", "" if not hit else "failing inputs found: " + ", ".join(hit[:4]))


def kak_certificate(ctx):
    """CERTIFICATE CHECK of the numerical factorisation (the one step of `two_qubit_decomposition` that is not proved):
    for every input on which the real function returns, the real helper functions are re-run along the same control flow
    and (1) the returned factors are checked a posteriori: u4, v4, u1, v1 unitary, U = (u4 ⊗ v4) ud (u1 ⊗ v1), ud = Ud(h)
    for the h of `calculate_h_vector` (residual norms); (2) the emitted gate list is compared, gate by gate (1e-9), with the
    MODEL's dressing of the template (QV.Props.C10.dressGeneral / T10_kak_dressing: the real cnot_decomposition(_light) at
    that h — proved equal to Ud(h) for all h by the kernel obligations C10_kak_* — merged with the factors);
    (3) the reconstruction (u4 ⊗ v4) Ud(h) (u1 ⊗ v1) is compared with U up to a phase (1e-6)."""
    from qibo.transpiler import unitary_decompositions as UD

    gates, D, U = modules()
    nb = qgates.np_backend()
    rng = ctx.rng
    Hm = np.array([[1, 1], [1, -1]], dtype=complex) / math.sqrt(2)
    mats = list(corpus_2q(rng).items()) + [(f"haar{i}", haar(rng, 4)) for i in range(40 if ctx.thorough else 12)]
    fam = weyl_family(rng, ctx.thorough)
    for lab, pat, h in (fam if ctx.thorough else rng.sample(fam, 40)):
        a, b, c, d = (haar(rng, 2) for _ in range(4))
        mats.append((f"bell_{lab}_{pat}", bell_core(*h)))
        mats.append((f"dressed_{lab}_{pat}", np.kron(a, b) @ bell_core(*h) @ np.kron(c, d)))
    bad_f, bad_d, first_f, first_d = 0, 0, None, None
    unit = lambda m: float(np.linalg.norm(np.conj(np.asarray(m)).T @ np.asarray(m) - np.eye(len(m))))
    for label, M in mats:
        M = np.array(M, dtype=complex)
        try:
            gl = UD.two_qubit_decomposition(0, 1, M.copy(), backend=nb)
        except Exception as e:
            ctx.stat("kak_cert_refused" if is_magic_basis_refusal(e) else "kak_cert_raised")  # reported by unitary_search / weyl_search
            continue
        ctx.case(("kak_cert", label))
        try:
            ud_diag = UD.to_bell_diagonal(M.copy(), backend=nb)
            fac = None
            if ud_diag is None:
                fac = [np.asarray(x, dtype=complex) for x in UD.magic_decomposition(M.copy(), backend=nb)]
                ud_diag = UD.to_bell_diagonal(fac[2], backend=nb)
            hx, hy, hz = (float(x) for x in UD.calculate_h_vector(ud_diag, backend=nb))
            core = bell_core(hx, hy, hz)
            zero_h = bool(np.allclose([hx, hy, hz], [0, 0, 0]))
            tpl_ok = True
            if zero_h:
                fac0 = [np.asarray(x, dtype=complex) for x in UD.magic_decomposition(M.copy(), backend=nb)]
                u4, v4, ud, u1, v1 = fac0
                expected = [("Unitary", (0,), u4 @ u1), ("Unitary", (1,), v4 @ v1)]
                recon = np.kron(u4, v4) @ ud @ np.kron(u1, v1)
                res = [unit(u4), unit(v4), unit(u1), unit(v1), float(np.linalg.norm(M - recon))]
                tol = 1e-8
                branch = "local"
            else:
                light = bool(np.allclose(hz, 0))
                tpl = UD.cnot_decomposition_light(0, 1, hx, hy, backend=nb) if light else UD.cnot_decomposition(0, 1, hx, hy, hz, backend=nb)
                tm = [(x.__class__.__name__, tuple(x.qubits), np.asarray(x.matrix(nb), dtype=complex)) for x in tpl]
                # numeric instance of the template identity (kernel-proved for all h by C10_kak_* on the unchanged tree)
                tpl_ok = qgates.phase_equal(full_of(tpl, 2), bell_core(hx, hy, 0.0 if light else hz), 1e-8)
                branch = ("light" if light else "general") + ("_bare" if fac is None else "")
                if fac is None:
                    expected = tm
                    recon = core
                    res = [float(np.linalg.norm(M - core))]
                    tol = 2e-5  # to_bell_diagonal accepts off-diagonal parts up to 1e-6 per entry
                else:
                    u4, v4, ud, u1, v1 = fac
                    if light:
                        expected = [("Unitary", (0,), tm[0][2] @ u1), ("Unitary", (1,), tm[1][2] @ v1)] + tm[2:-2]
                    else:
                        expected = [("Unitary", (0,), u1), ("Unitary", (1,), Hm @ v1)] + tm[1:-2]
                    expected += [("Unitary", (0,), u4 @ tm[-2][2]), ("Unitary", (1,), v4 @ tm[-1][2])]
                    recon = np.kron(u4, v4) @ core @ np.kron(u1, v1)
                    res = [unit(u4), unit(v4), unit(u1), unit(v1), float(np.linalg.norm(M - np.kron(u4, v4) @ ud @ np.kron(u1, v1))),
                           float(np.linalg.norm(ud - core))]
                    tol = 2e-5 if res[-1] > 1e-8 else 1e-8
                    res = [r for r in res]
            ctx.stat("kak_cert_" + branch)
        except Exception as e:
            bad_f += 1
            first_f = first_f or f"{label}: re-running the helper functions raises {type(e).__name__}: {e}"
            continue
        Mc = f"np.array({M.tolist()})"
        replay = (REPLAY_PRE + f"from qibo.transpiler.unitary_decompositions import two_qubit_decomposition\nM = {Mc}\n"
                  "gl = two_qubit_decomposition(0, 1, M.astype(complex), backend=nb)\n"
                  "assert phase_equal(full(gl, 2), full([gates.Unitary(M, 0, 1)], 2), 1e-6)\n")
        prop_ok = qgates.phase_equal(full_of(gl, 2), M, 1e-6)
        okf = all(r <= tol for r in res) and qgates.phase_equal(recon, M, 1e-6)
        if not okf:
            bad_f += 1
            first_f = first_f or f"{label} ({branch}): residuals {[float(f'{r:.2e}') for r in res]}"
            if not prop_ok:
                ctx.fail(f"kak:certificate:{label.rstrip('0123456789')}", f"two_qubit_decomposition of '{label}': the factors returned by the numerical "
                         f"decomposition do not reconstruct the unitary (residuals {[float(f'{r:.2e}') for r in res]}) and the gate list is not the unitary up to a phase",
                         replay, observed=str(res), broken=["C10_cert_kak_factors"])
        same = len(expected) == len(gl) and all(
            en == x.__class__.__name__ and tuple(eq) == tuple(x.qubits) and np.allclose(em, np.asarray(x.matrix(nb)), atol=1e-9)
            for (en, eq, em), x in zip(expected, gl))
        if not same or not tpl_ok:
            bad_d += 1
            first_d = first_d or (f"{label} ({branch}): emitted {[(x.__class__.__name__, x.qubits) for x in gl]}" if tpl_ok else
                                  f"{label} ({branch}): the real template at h = {(hx, hy, hz)} is not Ud(h) up to a phase")
            if not prop_ok:
                ctx.fail(f"kak:dressing:{branch}", f"two_qubit_decomposition of '{label}' ({branch} branch): the gate list is not the template for Ud(h) "
                         "merged with the factors, and is not the unitary up to a phase", replay, observed=str([(x.__class__.__name__, x.qubits) for x in gl]),
                         broken=["C10_cert_kak_dressing"])
    ctx.ob("C10_cert_kak_factors", bad_f == 0, "certificate",
           f"{bad_f} inputs whose factors fail the a-posteriori check, first: {first_f}" if bad_f else "")
    ctx.ob("C10_cert_kak_dressing", bad_d == 0, "certificate",
           f"{bad_d} inputs whose gate list is not the model's dressing of the template, first: {first_d}" if bad_d else "")


# ---------------------------------------------------------------------------
# (3b) the Weyl chamber: Bell-diagonal cores exp(-i(hx XX + hy YY + hz ZZ)) with every
# zero / sign / equal / pi/4-multiple pattern, bare and dressed with local unitaries


def bell_core(hx, hy, hz):
    X = np.array([[0, 1], [1, 0]], dtype=complex)
    Y = np.array([[0, -1j], [1j, 0]], dtype=complex)
    Z = np.diag([1, -1]).astype(complex)
    out = np.eye(4, dtype=complex)
    for h, P in ((hx, X), (hy, Y), (hz, Z)):
        PP = np.kron(P, P)
        out = out @ (math.cos(h) * np.eye(4) - 1j * math.sin(h) * PP)  # XX, YY, ZZ commute
    return out


def weyl_family(rng, thorough):
    """(label, pattern, (hx, hy, hz)) — all 27 sign/zero patterns x magnitude schemes + named corners."""
    q4, q8 = math.pi / 4, math.pi / 8
    schemes = {
        "gen": (0.37, 0.81, 0.23),       # distinct generic magnitudes
        "eq": (0.5, 0.5, 0.5),           # equal magnitudes (equal / opposite-sign coefficients)
        "q4": (q4, q4, q4),              # pi/4 multiples
        "mix": (q4, q8, 0.3),            # pi/4, pi/8 and a generic one
        "small": (1e-3, 0.6, 2e-4),      # nearly vanishing coefficients
    }
    if thorough:
        schemes.update({"q2": (math.pi / 2, q4, 3 * q4), "rnd": tuple(rng.uniform(0.05, 1.5) for _ in range(3)),
                        "eq2": (0.9, 0.9, 0.2)})
    fam = []
    for signs in itertools.product((0, 1, -1), repeat=3):
        pat = "".join("0+-"[s] if s >= 0 else "-" for s in signs)
        for sch, mags in schemes.items():
            for perm in ([(0, 1, 2)] if not thorough else [(0, 1, 2), (1, 2, 0), (2, 0, 1)]):
                h = tuple(signs[i] * mags[perm[i]] for i in range(3))
                fam.append((f"{sch}{''.join(map(str, perm)) if thorough else ''}", pat, h))
    named = {"identity": (0, 0, 0), "cnot": (q4, 0, 0), "iswap": (q4, q4, 0), "swap": (q4, q4, q4), "sqrtswap": (q8, q8, q8),
             "B": (q4, q8, 0), "sqrtiswap": (q8, q8, 0), "swapm": (q4, q4, -q4), "cs": (q8, 0, 0), "dcxclass": (q4, -q4, 0)}
    for nm, h in named.items():
        for perm in set(itertools.permutations(range(3))):  # which axis carries which coefficient (incl. the zero)
            hp = tuple(h[perm[i]] for i in range(3))
            fam.append((nm, "".join("0" if abs(x) < 1e-15 else "+-"[x < 0] for x in hp), hp))
    # de-duplicate
    seen, out = set(), []
    for lab, pat, h in fam:
        k = tuple(round(x, 12) for x in h)
        if (lab, k) not in seen:
            seen.add((lab, k))
            out.append((lab, pat, h))
    return out


def weyl_search(ctx):
    from qibo import Circuit
    from qibo.transpiler import unitary_decompositions as UD

    gates, D, U = modules()
    nb = qgates.np_backend()
    rng = ctx.rng
    before = len(ctx.failures)
    OBO, OBT = "C10_search_weyl_operator", "C10_search_weyl_translatable"
    sets2 = [s for s in native_sets() if s[3] != ("CNOT",)]
    CN = np.asarray(gates.CNOT(0, 1).matrix(nb), dtype=complex)
    CN10 = apply_local(np.eye(4, dtype=complex), CN, [1, 0], 2)
    mats = [("matrix_DCX", "dcx", None, CN10 @ CN), ("matrix_DCX'", "dcx", None, CN @ CN10),
            ("matrix_SWAP", "swap", None, np.asarray(gates.SWAP(0, 1).matrix(nb), dtype=complex)),
            ("matrix_CS", "cs", None, np.diag([1, 1, 1, 1j]).astype(complex)),
            ("matrix_B", "B", None, bell_core(math.pi / 4, math.pi / 8, 0))]
    for lab, pat, h in weyl_family(rng, ctx.thorough):
        mats.append((f"bell_{lab}", pat, h, bell_core(*h)))
    cases = []
    for lab, pat, h, M in mats:
        cases.append((lab, pat, h, "bare", M))
        a, b, c, d = (haar(rng, 2) for _ in range(4))
        cases.append((lab, pat, h, "dressed", np.kron(a, b) @ M @ np.kron(c, d)))
        if ctx.thorough or rng.random() < 0.3:
            cases.append((lab, pat, h, "left", np.exp(1j * rng.uniform(-3, 3)) * np.kron(a, b) @ M))
    for lab, pat, h, dress, M in cases:
        q = rng.choice([(0, 1), (1, 0), (2, 0), (0, 2), (1, 2)])
        n = max(q) + 1
        Mc = f"np.array({np.asarray(M).tolist()})"
        hdesc = "" if h is None else f" = exp(-i({h[0]:.6g} XX + {h[1]:.6g} YY + {h[2]:.6g} ZZ))"
        ctx.case(("weyl", lab, pat, dress))
        ctx.stat(f"weyl_{dress}")
        ref = apply_local(np.eye(2**n, dtype=complex), M, list(q), n)
        try:
            gl = UD.two_qubit_decomposition(q[0], q[1], np.array(M, dtype=complex), backend=nb)
            ok = qgates.phase_equal(full_of(gl, n), ref, 1e-6)
            shape = all((x.__class__.__name__ == "CZ" and len(x.qubits) == 2) or len(x.qubits) == 1 for x in gl)
            err = None
        except Exception as e:
            ok, shape, err = False, True, e
        if err is not None and is_magic_basis_refusal(err):
            ctx.stat("weyl_known_refusal")
            ctx.fail(KAK_KNOWN_KEY, f"two_qubit_decomposition of the {dress} core '{lab}'{hdesc} raises {type(err).__name__}: {err}",
                     REPLAY_PRE + f"from qibo.transpiler.unitary_decompositions import two_qubit_decomposition\nM = {Mc}\n"
                     f"two_qubit_decomposition({q[0]}, {q[1]}, M.astype(complex), backend=nb)\n", observed=str(err), broken=[OBT])
            continue
        if not ok or not shape:
            key = f"kak:error:{type(err).__name__}" if err else (f"kak:weyl:{pat}" if shape else "kak:weyl:shape")
            ctx.fail(key, f"two_qubit_decomposition of the {dress} Bell-diagonal core '{lab}' (pattern {pat}){hdesc} on qubits {q} "
                     + (f"raises {type(err).__name__}: {err}" if err else ("is not the unitary up to a phase" if shape else "contains gates other than CZ and one-qubit gates")),
                     REPLAY_PRE + f"from qibo.transpiler.unitary_decompositions import two_qubit_decomposition\nM = {Mc}\n"
                     f"gl = two_qubit_decomposition({q[0]}, {q[1]}, M.astype(complex), backend=nb)\n"
                     f"assert all(len(g.qubits) == 1 or g.__class__.__name__ == 'CZ' for g in gl)\n"
                     f"assert phase_equal(full(gl, {n}), full([gates.Unitary(M, *{list(q)})], {n}), 1e-6)\n",
                     observed=str(err) if err else "wrong operator", broken=[OBT if err else OBO])
        # the real translate_gate and Unroller for the two-qubit native sets
        chosen = sets2 if ctx.thorough else rng.sample(sets2, 1 if dress == "left" else 2)
        for sname, ns, s1, s2 in chosen:
            ctx.case(("weyl_tr", lab, pat, dress, sname))
            search_one(ctx, (lambda M=M, q=q: gates.Unitary(np.array(M, dtype=complex), *q)), f"gates.Unitary({Mc}, *{list(q)})",
                       sname, ns, must=True, tol=1e-6, broken=[OBO], broken_raise=[OBT])
        sname, ns, s1, s2 = rng.choice(sets2)
        ctx.stat("weyl_unroller")
        code = (REPLAY_PRE + f"ns = natives({flag_names(ns)})\nM = {Mc}\nc = Circuit({n})\nc.add(gates.H({q[1]}))\n"
                f"c.add(gates.Unitary(M, *{list(q)}))\nc.add(gates.RX({q[0]}, 0.4))\nu = Unroller(ns)(c)\n"
                f"assert only_native(u.queue, ns) and phase_equal(full(u.queue, {n}), full(c.queue, {n}), 1e-6)\n")
        try:
            c = Circuit(n)
            c.add(gates.H(q[1]))
            c.add(gates.Unitary(np.array(M, dtype=complex), *q))
            c.add(gates.RX(q[0], 0.4))
            want = full_of(list(c.queue), n)
            u = U.Unroller(ns)(c)
            bad = None if only_native(u.queue, ns) else "non-native gates"
            if bad is None and not qgates.phase_equal(full_of(list(u.queue), n), want, 1e-6):
                bad = "wrong operator"
        except Exception as e:
            if is_magic_basis_refusal(e):
                continue
            bad = f"raises {type(e).__name__}: {e}"
        if bad:
            ctx.fail(f"weyl:unroller:{sname}", f"Unroller({sname}) on H, Unitary({dress} core '{lab}'{hdesc}), RX: {bad}", code,
                     observed=bad, broken=[OBT if bad.startswith("raises") else OBO])
    new = ctx.failures[before:]
    for obn in (OBT, OBO):
        hit = [f["key"] for f in new if obn in f["broken"]]
        ctx.ob(obn, not hit, "search", "" if not hit else "failing inputs found: " + ", ".join(hit[:6]))


# ---------------------------------------------------------------------------
# (3b') perturbation ladders around the special branches of the KAK path


NEARBELL_LADDER = (1e-9, 1e-8, 1e-7, 3e-5, 1e-4, 3e-4, 1e-3, 3e-3, 1e-2, 1e-1)


def nearbell_family(rng, thorough):
    """(label, eps, M): NEARLY Bell-diagonal two-qubit unitaries P(eps) B or B P(eps), B = exp(-i(hx XX+hy YY+hz ZZ)) a
    special core (identity / CNOT / iSWAP / SWAP class, equal, degenerate and generic coefficients) and P(eps) a tiny local
    rotation or a weak controlled rotation / phase of angle eps on a geometric ladder (each rung times a factor in [1, 2]),
    as given and normalised to determinant 1.  The rungs within a decade of 1e-6 are left out: two_qubit_decomposition
    documents an element-wise 1e-6 test for 'already Bell-diagonal', so deviations of that order are by design there."""
    q4, q8 = math.pi / 4, math.pi / 8
    cores = {"identity": (0, 0, 0), "cnot": (q4, 0, 0), "iswap": (q4, q4, 0), "swap": (q4, q4, q4), "sqrtswap": (q8, q8, q8),
             "gen": (0.37, 0.81, 0.23), "xxyy": (0.7, 0.4, 0), "eq2": (0.9, 0.9, 0.2), "oneaxis": (0, 0.6, 0)}
    X = np.array([[0, 1], [1, 0]], dtype=complex)
    Y = np.array([[0, -1j], [1j, 0]], dtype=complex)
    Z = np.diag([1, -1]).astype(complex)

    def rot(P, t):
        return math.cos(t / 2) * np.eye(2) - 1j * math.sin(t / 2) * P

    def ctrl(m):
        out = np.eye(4, dtype=complex)
        out[2:, 2:] = m
        return out

    kinds = {
        "RZxRX": lambda e: np.kron(rot(Z, e), rot(X, e)),
        "RYxI": lambda e: np.kron(rot(Y, e), np.eye(2)),
        "IxRZ": lambda e: np.kron(np.eye(2), rot(Z, e)),
        "CRZ": lambda e: ctrl(rot(Z, e)),
        "CRX": lambda e: ctrl(rot(X, e)),
        "CPhase": lambda e: np.diag([1, 1, 1, np.exp(1j * e)]),
    }
    fam = []
    for cn, h in cores.items():
        B = bell_core(*h)
        for kn, mk in kinds.items():
            for rung in NEARBELL_LADDER:
                combos = [(sd, nm) for sd in "LR" for nm in (False, True)]
                for sd, nm in (combos if thorough else [rng.choice(combos)]):
                    e = rung * rng.uniform(1.0, 2.0)
                    P = mk(e)
                    M = P @ B if sd == "L" else B @ P
                    if nm:
                        M = M / np.linalg.det(M) ** 0.25
                    fam.append((f"{cn}*{kn}" if sd == "R" else f"{kn}*{cn}", cn, kn, rung, e, nm, h, M))
    return fam


def nearbell_search(ctx):
    """arbitrary two-qubit unitaries INCLUDING the ones next to the non-generic branches of the numerical KAK path: the operator
    of the result of two_qubit_decomposition / translate_gate / Unroller equals the explicit input matrix up to a phase (1e-6)."""
    from qibo import Circuit
    from qibo.transpiler import unitary_decompositions as UD

    gates, D, U = modules()
    nb = qgates.np_backend()
    rng = ctx.rng
    before = len(ctx.failures)
    OBO = "C10_search_nearbell_operator"
    tol = 1e-6
    sets2 = [s for s in native_sets() if s[3] != ("CNOT",)]
    worst = 0.0
    for lab, cn, kn, rung, e, nm, h, M in nearbell_family(rng, ctx.thorough):
        q = rng.choice([(0, 1), (1, 0), (2, 0)])
        n = max(q) + 1
        Mc = f"np.array({np.asarray(M).tolist()})"
        desc = (f"'{lab}' (core exp(-i({h[0]:.6g} XX + {h[1]:.6g} YY + {h[2]:.6g} ZZ)), perturbation {kn} of angle {e:.6g}"
                + (", normalised to det 1)" if nm else ")"))
        ctx.case(("nearbell", cn, kn, rung))
        ctx.stat("nearbell_cases")
        ref = apply_local(np.eye(2**n, dtype=complex), M, list(q), n)
        pre = REPLAY_PRE + f"from qibo.transpiler.unitary_decompositions import two_qubit_decomposition\nM = {Mc}\n"

        def dev(A):
            c = np.vdot(ref, A)
            return float(np.max(np.abs(A - (c / abs(c)) * ref))) if abs(c) > 1e-12 else float("inf")

        # (a) the numerical KAK entry point
        try:
            gl = UD.two_qubit_decomposition(q[0], q[1], np.array(M, dtype=complex), backend=nb)
            A = full_of(gl, n)
            d = dev(A)
            worst = max(worst, d)
            bad = None if _peq(A, ref, tol) else f"operator deviates by {d:.3g} up to a global phase"
        except Exception as ex:
            if is_magic_basis_refusal(ex):
                ctx.stat("nearbell_known_refusal")
                continue
            bad = f"raises {type(ex).__name__}: {ex}"
        if bad:
            ctx.fail(f"nearbell:kak:{kn}", f"two_qubit_decomposition of the nearly Bell-diagonal unitary {desc} on qubits {q}: {bad}",
                     pre + f"gl = two_qubit_decomposition({q[0]}, {q[1]}, M.astype(complex), backend=nb)\n"
                     f"assert phase_equal(full(gl, {n}), full([gates.Unitary(M, *{list(q)})], {n}), 1e-6)\n",
                     expected="the input matrix up to a global phase (1e-6)", observed=bad, broken=[OBO])
        # (b) translate_gate under the two-qubit native sets
        for sname, ns, s1, s2 in (sets2 if ctx.thorough else rng.sample(sets2, 1)):
            ctx.case(("nearbell_tr", cn, kn, rung, sname))
            try:
                out = as_list(U.translate_gate(gates.Unitary(np.array(M, dtype=complex), *q), ns))
                bad = None if only_native(out, ns) else "non-native gates"
                if bad is None:
                    A = full_of(out, n)
                    if not _peq(A, ref, tol):
                        bad = f"operator deviates by {dev(A):.3g} up to a global phase"
            except Exception as ex:
                if is_magic_basis_refusal(ex):
                    continue
                bad = f"raises {type(ex).__name__}: {ex}"
            if bad:
                ctx.fail(f"nearbell:translate:{sname}", f"translate_gate(Unitary({desc}, {q}), {flag_names(ns)}): {bad}",
                         pre + f"ns = natives({flag_names(ns)})\nout = translate_gate(gates.Unitary(M, *{list(q)}), ns)\n"
                         f"out = out if isinstance(out, list) else [out]\n"
                         f"assert only_native(out, ns) and phase_equal(full(out, {n}), full([gates.Unitary(M, *{list(q)})], {n}), 1e-6)\n",
                         expected="native gates whose product is the input matrix up to a global phase (1e-6)", observed=bad, broken=[OBO])
        # (c) a circuit through the Unroller
        if ctx.thorough or rng.random() < 0.25:
            sname, ns, s1, s2 = rng.choice(sets2)
            ctx.stat("nearbell_unroller")
            try:
                c = Circuit(n)
                c.add(gates.H(q[1]))
                c.add(gates.Unitary(np.array(M, dtype=complex), *q))
                c.add(gates.RX(q[0], 0.4))
                want = full_of([gates.RX(q[0], 0.4)], n) @ ref @ full_of([gates.H(q[1])], n)
                u = U.Unroller(ns)(c)
                bad = None if only_native(u.queue, ns) else "non-native gates"
                if bad is None and not _peq(full_of(list(u.queue), n), want, tol):
                    bad = "wrong operator"
            except Exception as ex:
                if is_magic_basis_refusal(ex):
                    continue
                bad = f"raises {type(ex).__name__}: {ex}"
            if bad:
                ctx.fail(f"nearbell:unroller:{sname}", f"Unroller({sname}) on H, Unitary({desc}), RX: {bad}",
                         REPLAY_PRE + f"ns = natives({flag_names(ns)})\nM = {Mc}\nc = Circuit({n})\nc.add(gates.H({q[1]}))\n"
                         f"c.add(gates.Unitary(M, *{list(q)}))\nc.add(gates.RX({q[0]}, 0.4))\nu = Unroller(ns)(c)\n"
                         f"assert only_native(u.queue, ns) and phase_equal(full(u.queue, {n}), full(c.queue, {n}), 1e-6)\n",
                         observed=bad, broken=[OBO])
    ctx.stats["nearbell_worst_deviation"] = float(f"{worst:.3g}")
    hit = [f["key"] for f in ctx.failures[before:] if OBO in f["broken"]]
    ctx.ob(OBO, not hit, "search", "" if not hit else "failing inputs found: " + ", ".join(sorted(set(hit))[:6]))


# ---------------------------------------------------------------------------
# (3c) input representations: the same mathematical matrix passed as float64 / int64 / complex64 arrays and nested lists


def _obj_code(tag, data):
    if tag in ("list", "clist"):
        return repr(data)
    return f"np.array({data!r}, dtype=np.{tag})"


def dtype_variants(M):
    """(tag, object handed to qibo, python expression rebuilding it, mathematical matrix as complex128) for every
    representation of M that is exact or an explicit down-cast: complex128 is what every other suite feeds."""
    M = np.asarray(M)
    out = []
    if np.allclose(M.imag, 0, atol=0) if np.iscomplexobj(M) else True:
        R = np.asarray(M.real, dtype=np.float64)
        out.append(("float64", R.copy(), R.tolist()))
        out.append(("list", R.tolist(), R.tolist()))
        if np.array_equal(R, np.round(R)):
            I = R.astype(np.int64)
            out.append(("int64", I.copy(), I.tolist()))
            out.append(("list", I.tolist(), I.tolist()))
    C = np.asarray(M, dtype=np.complex64)
    out.append(("complex64", C.copy(), [[complex(x) for x in r] for r in C.tolist()]))
    Z = np.asarray(M, dtype=np.complex128)
    out.append(("clist", [[complex(x) for x in r] for r in Z.tolist()], [[complex(x) for x in r] for r in Z.tolist()]))
    return [(tag, obj, _obj_code(tag, data), np.array(obj, dtype=np.complex128)) for tag, obj, data in out]


def real_corpus_1q(rng, thorough):
    """real 2x2 orthogonal matrices of every sign pattern of (U00, U10, det): rotations and reflections by angles in all
    four quadrants and on the axes, signed permutation matrices; plus a few complex ones for the complex64 / list forms."""
    rot = lambda a: np.array([[math.cos(a), -math.sin(a)], [math.sin(a), math.cos(a)]])
    refl = lambda a: np.array([[math.cos(a), math.sin(a)], [math.sin(a), -math.cos(a)]])
    out = {}
    angles = [0.4, -0.4, 1.3, -1.3, 2.5, -2.5, 0.05, -3.0, math.pi / 4, -math.pi / 4, 3 * math.pi / 4, -3 * math.pi / 4]
    angles += [rng.uniform(-math.pi, math.pi) for _ in range(8 if thorough else 3)]
    for a in angles:
        out[f"rot({a:+.3f})"] = rot(a)
        out[f"refl({a:+.3f})"] = refl(a)
    for s0 in (1, -1):
        for s1 in (1, -1):
            out[f"diag({s0},{s1})"] = np.array([[s0, 0], [0, s1]], dtype=float)
            out[f"anti({s0},{s1})"] = np.array([[0, s0], [s1, 0]], dtype=float)
    h = np.array([[1.0, 1.0], [1.0, -1.0]]) / math.sqrt(2)
    out.update({"H": h, "-H": -h, "HX": h @ np.array([[0.0, 1.0], [1.0, 0.0]]), "XH": np.array([[0.0, 1.0], [1.0, 0.0]]) @ h})
    for i in range(6 if thorough else 3):
        out[f"haar{i}"] = haar(rng, 2)
    out["S"] = np.diag([1, 1j])
    out["Y"] = np.array([[0, -1j], [1j, 0]])
    return out


def real_corpus_2q(rng, thorough):
    """real orthogonal 4x4 (Haar on O(4), both determinants, products of local rotations with CNOT/SWAP), signed
    permutation matrices; a few complex ones for the complex64 / list forms."""
    out = {}
    r = np.random.default_rng(rng.getrandbits(32))
    for i in range(6 if thorough else 3):
        q, t = np.linalg.qr(r.normal(size=(4, 4)))
        q = q * np.sign(np.diag(t))
        out[f"O4_{i}"] = q
        q2 = q.copy()
        q2[:, 0] *= -1
        out[f"O4m_{i}"] = q2
    rot = lambda a: np.array([[math.cos(a), -math.sin(a)], [math.sin(a), math.cos(a)]])
    CN = np.array([[1, 0, 0, 0], [0, 1, 0, 0], [0, 0, 0, 1], [0, 0, 1, 0]], dtype=float)
    SW = np.array([[1, 0, 0, 0], [0, 0, 1, 0], [0, 1, 0, 0], [0, 0, 0, 1]], dtype=float)
    out["rot_CNOT_rot"] = np.kron(rot(-0.4), rot(2.5)) @ CN @ np.kron(rot(1.1), rot(-2.0))
    out["rot_SWAP"] = np.kron(rot(-0.7), rot(0.3)) @ SW
    out["rotxrot"] = np.kron(rot(-0.4), rot(2.5))
    perms = list(itertools.permutations(range(4)))
    for p_ in (perms if thorough else rng.sample(perms, 5)):
        sg = [rng.choice((1, -1)) for _ in range(4)]
        P = np.zeros((4, 4))
        for i, j in enumerate(p_):
            P[i, j] = sg[i]
        out["sperm" + "".join(map(str, p_)) + "".join("+" if x > 0 else "-" for x in sg)] = P
    out["CNOT"], out["SWAP"], out["CZ"] = CN, SW, np.diag([1.0, 1.0, 1.0, -1.0])
    for i in range(3 if thorough else 2):
        out[f"haar{i}"] = haar(rng, 4)
    return out


def _peq(a, b, tol):
    """a = c * b for a complex c of modulus 1 up to tol (a down-cast input is unitary only to single precision, so the
    modulus of the best scalar is allowed to deviate by tol as well)."""
    a, b = np.asarray(a), np.asarray(b)
    if a.shape != b.shape:
        return False
    c = np.vdot(b, a)
    if abs(c) < 1e-12:
        return False
    c = c / abs(c)
    return bool(np.allclose(a, c * b, atol=tol))


def dtype_search(ctx):
    """arbitrary one- and two-qubit unitary matrices are translatable whatever the REPRESENTATION the caller uses
    (float64 / int64 / complex64 arrays, nested python lists where the constructor accepts them): u3_decomposition,
    two_qubit_decomposition, translate_gate and Unroller under the native sets; every result is compared, as an operator up
    to a global phase, with the MATHEMATICAL matrix (the data converted to complex128 by the harness), and the ZYZ angle
    formulas of the Lean model are compared with the real function on the same representations."""
    import cmath

    from qibo import Circuit
    from qibo.transpiler import unitary_decompositions as UD

    gates, D, U = modules()
    nb = qgates.np_backend()
    rng = ctx.rng
    sets = native_sets()
    sets2 = [s for s in sets if s[3] != ("CNOT",)]
    before = len(ctx.failures)
    OBO, OBT, OBZ = "C10_search_dtype_operator", "C10_search_dtype_translatable", "C10_corr_zyz_dtype"
    bad_z, first_z = 0, None

    def fresh(obj):
        return [list(r) for r in obj] if isinstance(obj, list) else obj.copy()

    # ---- one qubit
    for label, M in sorted(real_corpus_1q(rng, ctx.thorough).items()):
        for tag, obj, oc, Mm in dtype_variants(M):
            tol = 1e-5 if tag == "complex64" else 1e-7
            ctx.case(("dtype1q", label, tag))
            ctx.stat(f"dtype1q_{tag}")
            pre = REPLAY_PRE + f"from qibo.transpiler.unitary_decompositions import u3_decomposition\nM = {oc}\nMm = np.array(M, dtype=complex)\n"
            # (a) the angle function itself
            try:
                real = UD.u3_decomposition(fresh(obj), nb)
                okm = _peq(u3_model(*real), Mm, tol)
                err = None
            except Exception as e:
                real, okm, err = None, False, e
            if not okm:
                ctx.fail(f"zyz:dtype:{tag}" if err is None else f"zyz:dtype:{tag}:raises", f"u3_decomposition of '{label}' passed as {tag} "
                         + (f"raises {type(err).__name__}: {err}" if err else f"returns {real}: U3 at these angles is not the matrix up to a phase"),
                         pre + "t, p, l = u3_decomposition(M, nb)\nassert phase_equal(gates.U3(0, t, p, l).matrix(nb), Mm, 1e-5)\n",
                         observed=str(err or real), broken=[OBT if err else OBO])
            else:
                # tie with the Lean model's formulas (u3Angles) evaluated on the mathematical matrix
                det = complex(np.linalg.det(Mm))
                su = Mm / cmath.exp(cmath.log(det) / 2)
                model = (2 * cmath.phase(complex(abs(su[0, 0]), abs(su[1, 0]))),
                         cmath.phase(su[1, 1]) + cmath.phase(su[1, 0]), cmath.phase(su[1, 1]) - cmath.phase(su[1, 0]))
                if not all(abs(a - b) < 1e-9 for a, b in zip(real, model)):
                    # on a branch cut of sqrt / arg (det = -1, entries on the negative real axis) only the matrices agree
                    if np.allclose(u3_model(*real), u3_model(*model), atol=1e-9) or np.allclose(u3_model(*real), -u3_model(*model), atol=1e-9):
                        ctx.stat("zyz_dtype_branch_cut")
                    else:
                        bad_z += 1
                        first_z = first_z or f"{label} as {tag}: real {real} / model {model}"
            # (b) through gates.Unitary, translate_gate and the Unroller
            q = rng.choice([0, 1, 2])
            try:
                gates.Unitary(fresh(obj), q)
            except Exception:
                ctx.stat(f"dtype_ctor_reject_{tag}")
                continue
            n = q + 1
            ref = apply_local(np.eye(2**n, dtype=complex), Mm, [q], n)
            for sname, ns, s1, s2 in (sets if ctx.thorough else [s for s in sets if s[3] == ("CZ",)] + rng.sample(sets, 1)):
                ctx.case(("dtype1q_tr", label, tag, sname))
                py = pre + f"ns = natives({flag_names(ns)})\nout = translate_gate(gates.Unitary(M, {q}), ns)\nout = out if isinstance(out, list) else [out]\n" \
                    f"assert only_native(out, ns) and phase_equal(full(out, {n}), full([gates.Unitary(Mm, {q})], {n}), 1e-5)\n"
                try:
                    out = as_list(U.translate_gate(gates.Unitary(fresh(obj), q), ns))
                    bad = None if only_native(out, ns) else "non-native gates"
                    if bad is None and not _peq(full_of(out, n), ref, tol):
                        bad = "wrong operator"
                except Exception as e:
                    bad = f"raises {type(e).__name__}: {e}"
                if bad:
                    ctx.fail(f"dtype:{tag}:1q:{sname}", f"translate_gate(Unitary('{label}' passed as {tag}, {q}), {flag_names(ns)}): {bad}", py,
                             observed=bad, broken=[OBT if bad.startswith("raises") else OBO])
            sname, ns, s1, s2 = rng.choice(sets)
            ctx.stat("dtype_unroller")
            try:
                c = Circuit(n)
                c.add(gates.H(q))
                c.add(gates.Unitary(fresh(obj), q))
                c.add(gates.RZ(q, 0.3))
                want = full_of([gates.RZ(q, 0.3)], n) @ ref @ full_of([gates.H(q)], n)
                u = U.Unroller(ns)(c)
                bad = None if only_native(u.queue, ns) else "non-native gates"
                if bad is None and not _peq(full_of(list(u.queue), n), want, tol):
                    bad = "wrong operator"
            except Exception as e:
                bad = f"raises {type(e).__name__}: {e}"
            if bad:
                ctx.fail(f"dtype:{tag}:unroller:{sname}", f"Unroller({sname}) on H, Unitary('{label}' passed as {tag}), RZ: {bad}",
                         pre + f"ns = natives({flag_names(ns)})\nc = Circuit({n})\nc.add(gates.H({q}))\nc.add(gates.Unitary(M, {q}))\nc.add(gates.RZ({q}, 0.3))\n"
                         f"u = Unroller(ns)(c)\nw = Circuit({n})\nw.add(gates.H({q}))\nw.add(gates.Unitary(Mm, {q}))\nw.add(gates.RZ({q}, 0.3))\n"
                         f"assert only_native(u.queue, ns) and phase_equal(full(u.queue, {n}), full(w.queue, {n}), 1e-5)\n",
                         observed=bad, broken=[OBT if bad.startswith("raises") else OBO])
    ctx.ob(OBZ, bad_z == 0, "correspondence",
           f"{bad_z} representations on which the real u3_decomposition and the transliterated formulas differ, first: {first_z}" if bad_z else "")
    # ---- two qubits
    for label, M in sorted(real_corpus_2q(rng, ctx.thorough).items()):
        for tag, obj, oc, Mm in dtype_variants(M):
            tol = 2e-5 if tag == "complex64" else 1e-6
            q = rng.choice([(0, 1), (1, 0), (2, 0), (1, 2)])
            n = max(q) + 1
            ctx.case(("dtype2q", label, tag))
            ctx.stat(f"dtype2q_{tag}")
            ref = apply_local(np.eye(2**n, dtype=complex), Mm, list(q), n)
            pre = REPLAY_PRE + f"from qibo.transpiler.unitary_decompositions import two_qubit_decomposition\nM = {oc}\nMm = np.array(M, dtype=complex)\n"
            try:
                gl = UD.two_qubit_decomposition(q[0], q[1], fresh(obj), backend=nb)
                bad = None if _peq(full_of(gl, n), ref, tol) else "wrong operator"
            except Exception as e:
                if is_magic_basis_refusal(e):
                    ctx.stat("dtype_known_refusal")
                    ctx.fail(KAK_KNOWN_KEY, f"two_qubit_decomposition of '{label}' passed as {tag} raises {type(e).__name__}: {e}",
                             pre + f"two_qubit_decomposition({q[0]}, {q[1]}, M, backend=nb)\n", observed=str(e), broken=[OBT])
                    continue
                bad = f"raises {type(e).__name__}: {e}"
            if bad:
                ctx.fail(f"dtype:{tag}:kak", f"two_qubit_decomposition of '{label}' passed as {tag} on qubits {q}: {bad}",
                         pre + f"gl = two_qubit_decomposition({q[0]}, {q[1]}, M, backend=nb)\n"
                         f"assert phase_equal(full(gl, {n}), full([gates.Unitary(Mm, *{list(q)})], {n}), 2e-5)\n",
                         observed=bad, broken=[OBT if bad.startswith("raises") else OBO])
                continue
            try:
                gates.Unitary(fresh(obj), *q)
            except Exception:
                ctx.stat(f"dtype_ctor_reject_{tag}")
                continue
            for sname, ns, s1, s2 in (sets2 if ctx.thorough else rng.sample(sets2, 2)):
                ctx.case(("dtype2q_tr", label, tag, sname))
                try:
                    out = as_list(U.translate_gate(gates.Unitary(fresh(obj), *q), ns))
                    bad = None if only_native(out, ns) else "non-native gates"
                    if bad is None and not _peq(full_of(out, n), ref, tol):
                        bad = "wrong operator"
                except Exception as e:
                    if is_magic_basis_refusal(e):
                        continue
                    bad = f"raises {type(e).__name__}: {e}"
                if bad:
                    ctx.fail(f"dtype:{tag}:2q:{sname}", f"translate_gate(Unitary('{label}' passed as {tag}, {q}), {flag_names(ns)}): {bad}",
                             pre + f"ns = natives({flag_names(ns)})\nout = translate_gate(gates.Unitary(M, *{list(q)}), ns)\n"
                             f"assert only_native(out, ns) and phase_equal(full(out, {n}), full([gates.Unitary(Mm, *{list(q)})], {n}), 2e-5)\n",
                             observed=bad, broken=[OBT if bad.startswith("raises") else OBO])
    new = ctx.failures[before:]
    for obn in (OBT, OBO):
        hit = [f["key"] for f in new if obn in f["broken"]]
        ctx.ob(obn, not hit, "search", "" if not hit else "failing inputs found: " + ", ".join(hit[:6]))


def circuit_check(ctx, n, recipe, sname, ns, broken=None):
    """property check of one Unroller call; returns the failure key or None."""
    from qibo import Circuit
    from qibo.transpiler.asserts import assert_decomposition

    gates, D, U = modules()

    def build():
        c = Circuit(n)
        for name, qs, vals in recipe:
            c.add(getattr(gates, name)(*qs, *vals))
        return c

    broken = broken or ["C10_search_circuit"]
    code = f"c = Circuit({n})\n" + "".join(f"c.add(gates.{a}(*{list(b)}, *{[float(v) for v in v_]}))\n" for a, b, v_ in recipe)
    py = REPLAY_PRE + code + f"ns = natives({flag_names(ns)})\n"
    c = build()
    U0 = full_of(c.queue, n)
    infos = qgates.gate_infos()
    s1 = "U3" if "U3" in flag_names(ns) else "GPI2"
    s2 = tuple(f for f in ("CZ", "iSWAP", "CNOT") if f in flag_names(ns))
    all_sup = all(a in ("I", "M") or supported(a, len(b), s1, s2) for a, b, _ in recipe)
    try:
        u = U.Unroller(ns)(c)
    except Exception as e:
        if all_sup:
            key = KAK_KNOWN_KEY if is_magic_basis_refusal(e) else f"circuit_raises:{sname}"
            ctx.fail(key, f"Unroller raises {type(e).__name__}: {e} on a circuit of supported gates", py + "Unroller(ns)(c)\n",
                     observed=f"{type(e).__name__}: {e}", broken=broken)
            return key
        return "refused"
    key = None
    if not only_native(u.queue, ns) and not any(g.__class__.__name__ in ("I", "Align") for g in u.queue if not is_native(g, ns)):
        key = f"circuit_non_native:{sname}"
        ctx.fail(key, "Unroller output contains non-native gates", py + "u = Unroller(ns)(c)\nassert only_native(u.queue, ns), [g.name for g in u.queue]\n",
                 observed=str([g.__class__.__name__ for g in u.queue][:20]), broken=broken)
    elif u.nqubits != n or not qgates.phase_equal(full_of(u.queue, n), U0, 1e-6):
        key = f"circuit_operator:{sname}"
        ctx.fail(key, "Unroller output is not the input's operator up to a global phase",
                 py + f"u = Unroller(ns)(c)\nassert u.nqubits == {n} and phase_equal(full(u.queue, {n}), full(c.queue, {n}), 1e-6)\n",
                 broken=broken)
    elif not np.allclose(full_of(c.queue, n), U0, atol=1e-12) or len(c.queue) != len(recipe):
        key = f"circuit_mutated:{sname}"
        ctx.fail(key, "Unroller changes the circuit it is given", py + f"U0 = full(c.queue, {n})\nUnroller(ns)(c)\nassert np.allclose(full(c.queue, {n}), U0)\n",
                 broken=broken)
    else:
        sig = lambda circ: [(g.__class__.__name__, tuple(g.qubits), Shapes.pkey(g)[1]) for g in circ.queue]
        try:
            u2 = U.Unroller(ns)(c)
            same = sig(u2) == sig(u)
        except Exception:
            same = False
        if not same:
            key = f"second_call:{sname}"
            ctx.fail(key, "a second Unroller call on the same circuit gives a different result",
                     py + "sig = lambda q: [(g.name, g.qubits, [np.asarray(p).tolist() for p in g.parameters]) for g in q]\n"
                     "a = sig(Unroller(ns)(c).queue); b = sig(Unroller(ns)(c).queue)\nassert a == b\n", broken=broken)
            return key
        try:
            if all(is_native(g, ns) or g.__class__.__name__ == "M" for g in u.queue):
                assert_decomposition(u, ns)
        except Exception as e:
            key = f"assert_rejects:{sname}"
            ctx.fail(key, f"assert_decomposition rejects an all-native Unroller output: {e}", py + "assert_decomposition(Unroller(ns)(c), ns)\n",
                     observed=str(e), broken=broken)
    return key


def circuit_search(ctx):
    infos = qgates.gate_infos()
    rng = ctx.rng
    before = len(ctx.failures)
    for _ in range(120 if ctx.thorough else 40):
        sname, ns, s1, s2 = rng.choice(native_sets())
        pool1 = ONE_Q_COMMON + (ONE_Q_U3_ONLY if s1 == "U3" else [])
        pool2 = TWO_Q_CNOT if s2 == ("CNOT",) else TWO_Q_CZ
        n = rng.randint(2, 4)
        recipe = []
        for _ in range(rng.randint(2, 14)):
            name = rng.choice(pool1 if rng.random() < 0.6 else pool2)
            info = infos[name]
            if info.nq > n:
                continue
            qs = rng.sample(range(n), info.nq)
            recipe.append((name, qs, [rng.choice(PARAM_GRID) if rng.random() < 0.5 else rng.uniform(-4, 4) for _ in range(info.np)]))
        if rng.random() < 0.3:
            recipe.append(("M", sorted(rng.sample(range(n), rng.randint(1, n))), []))
        if not recipe:
            continue
        ctx.case(("circuit", sname, n, tuple((a, tuple(b)) for a, b, _ in recipe)))
        ctx.stat("circuits")
        circuit_check(ctx, n, recipe, sname, ns)
        # second call on the same objects gives the same answer
    ctx.ob("C10_search_circuit", len(ctx.failures) == before, "search", "" if len(ctx.failures) == before else "failing inputs found")


# ---------------------------------------------------------------------------
# (4) histories: in-place parameter updates, repeated calls, shared gate objects


def _pvalue(vals):
    """the value `gate.parameters = …` / one entry of set_parameters expects."""
    return float(vals[0]) if len(vals) == 1 else tuple(float(v) for v in vals)


def _distinct_vals(rng, k):
    """two parameter tuples whose gates differ beyond a phase (generic, no 2 pi coincidences)."""
    v0 = [rng.choice([0.3, -1.1, 2.0, 0.7, -2.6, 1.234]) + rng.uniform(-0.05, 0.05) for _ in range(k)]
    v1 = [x + rng.choice([0.9, -1.3, 1.7]) for x in v0]
    if k and rng.random() < 0.3:  # update to a boundary value (a different branch of _u3_to_gpi2)
        v1[rng.randrange(k)] = rng.choice([0.0, -math.pi, math.pi / 2])
    return v0, v1


UPDATE_MODES = ["attr", "set_list", "set_dict", "set_flat"]


def _update_code(mode, n, vals):
    pv = _pvalue(vals)
    if mode == "attr":
        return f"g.parameters = {pv!r}\n"
    head = f"c = Circuit({n}); c.add(g)\n"
    if mode == "set_list":
        return head + f"c.set_parameters([{pv!r}])\n"
    if mode == "set_dict":
        return head + f"c.set_parameters({{g: {pv!r}}})\n"
    return head + f"c.set_parameters({[float(v) for v in vals]!r})\n"


def _apply_update(mode, g, n, vals):
    from qibo import Circuit

    pv = _pvalue(vals)
    if mode == "attr":
        g.parameters = pv
        return
    c = Circuit(n)
    c.add(g)
    if mode == "set_list":
        c.set_parameters([pv])
    elif mode == "set_dict":
        c.set_parameters({g: pv})
    else:
        c.set_parameters([float(v) for v in vals])


def history_search(ctx):
    from qibo import Circuit

    gates, D, U = modules()
    infos = qgates.gate_infos()
    rng = ctx.rng
    nb = qgates.np_backend()
    before = len(ctx.failures)
    OB = ["C10_search_history"]
    param_classes = [n for n in sorted(infos) if infos[n].generic and infos[n].np > 0]

    def good(out, ref_gates, n, ns, tol=1e-7):
        """out is all-native (if ns given) and acts as ref_gates up to a phase."""
        out = as_list(out)
        if ns is not None and not only_native(out, ns):
            return "non-native gates"
        if not qgates.phase_equal(full_of(out, n), full_of(ref_gates, n), tol):
            return "operator of the gate's CURRENT parameters not reproduced"
        return None

    # (a) translate, update in place, translate the same object again
    for sname, ns, s1, s2 in native_sets():
        for name in param_classes:
            info = infos[name]
            if not supported(name, info.nq, s1, s2):
                continue
            modes = UPDATE_MODES if ctx.thorough else [UPDATE_MODES[0], rng.choice(UPDATE_MODES[1:])]
            for mode in modes:
                n = info.nq + 1
                qs = rng.sample(range(n), info.nq)
                v0, v1 = _distinct_vals(rng, info.np)
                ctx.case(("history_a", sname, name, mode))
                ctx.stat("history_gate_update")
                code = (REPLAY_PRE + f"ns = natives({flag_names(ns)})\ng = {make_code(name, qs, v0)}\nfirst = translate_gate(g, ns)\n"
                        + _update_code(mode, n, v1) + f"ref = {make_code(name, qs, v1)}\nout = translate_gate(g, ns)\n"
                        f"assert only_native(out, ns) and phase_equal(full(out, {n}), full([ref], {n}), 1e-6)\n")
                try:
                    g = info.make(list(qs), v0)
                    first = as_list(U.translate_gate(g, ns))
                    e0 = good(first, [info.make(list(qs), v0)], n, ns)
                    _apply_update(mode, g, n, v1)
                    out = as_list(U.translate_gate(g, ns))
                    e1 = good(out, [info.make(list(qs), v1)], n, ns)
                except Exception as e:
                    if is_magic_basis_refusal(e):
                        continue
                    e0, e1 = None, f"raises {type(e).__name__}: {e}"
                if e0 is None and e1 is not None:
                    ctx.fail(f"history:gate_update_{mode}", f"translate_gate on {name}{tuple(qs)} after an in-place parameter update ({mode}) "
                             f"{v0} -> {v1} under {sname}: {e1}", code, expected=f"translation of {name} with {v1}", observed=e1, broken=OB)

    # (d) the tables called directly before and after an update
    tables = [(t, getattr(D, t)) for t in TABLE_NAMES + ["standard_decompositions"] if hasattr(D, t)]
    for tname, table in tables:
        for cls in sorted(table.decompositions, key=lambda c: c.__name__):
            name = cls.__name__
            if name not in infos or not infos[name].generic or not infos[name].np or name in NUMERIC_CLASSES - {"fSim"}:
                continue
            info = infos[name]
            n = info.nq
            qs = list(range(n))
            rng.shuffle(qs)
            v0, v1 = _distinct_vals(rng, info.np)
            ctx.case(("history_d", tname, name))
            ctx.stat("history_table_update")
            call = "t(g, nb)" if tname != "standard_decompositions" else "t(g)"
            code = (REPLAY_PRE + f"from qibo.transpiler import decompositions as D\nt = D.{tname}\ng = {make_code(name, qs, v0)}\n"
                    f"first = {call}\ng.parameters = {_pvalue(v1)!r}\nout = {call}\nref = {make_code(name, qs, v1)}\n"
                    f"fresh = {call.replace('(g', '(ref')}\nassert phase_equal(full(out, {n}), full(fresh, {n}), 1e-6)\n")
            try:
                g = info.make(qs, v0)
                first = table(g, nb)
                g.parameters = _pvalue(v1)
                out = table(g, nb)
                fresh = table(info.make(qs, v1), nb)
                err = good(out, fresh, n, None, 1e-6)
            except Exception as e:
                if is_magic_basis_refusal(e):
                    continue
                err = f"raises {type(e).__name__}: {e}"
            if err:
                ctx.fail(f"history:table_update:{tname}", f"{tname}({name}) called again after g.parameters = {v1} differs from the table applied "
                         f"to a fresh {name}: {err}", code, observed=err, broken=OB)

    # (b), (c) circuits: the same Unroller object, updates in between, shared gate objects, aliasing of outputs
    for it in range(40 if ctx.thorough else 14):
        sname, ns, s1, s2 = rng.choice(native_sets())
        pool1 = [x for x in ONE_Q_COMMON + (ONE_Q_U3_ONLY if s1 == "U3" else []) if x in infos]
        pool2 = [x for x in (TWO_Q_CNOT if s2 == ("CNOT",) else TWO_Q_CZ) if x in infos and infos[x].generic and x != "fSim"]
        ppool = [x for x in pool1 + pool2 if infos[x].np]
        n = rng.randint(2, 3)
        recipe = []
        for _ in range(rng.randint(2, 6)):
            name = rng.choice(ppool if rng.random() < 0.7 else pool1 + pool2)
            info = infos[name]
            if info.nq > n:
                continue
            recipe.append((name, rng.sample(range(n), info.nq), _distinct_vals(rng, info.np)))
        if not any(infos[a].np for a, _, _ in recipe):
            continue
        ctx.case(("history_bc", sname, tuple(a for a, _, _ in recipe)))
        ctx.stat("history_circuits")

        def build(which, recipe=recipe, n=n):
            c = Circuit(n)
            for name, qs, (v0, v1) in recipe:
                c.add(infos[name].make(list(qs), v1 if which else v0))
            return c

        bcode = f"c = Circuit({n})\n" + "".join(f"c.add({make_code(a, b, v[0])})\n" for a, b, v in recipe)
        fcode = f"f = Circuit({n})\n" + "".join(f"f.add({make_code(a, b, v[1])})\n" for a, b, v in recipe)
        new_list = [_pvalue(v[1]) for a, b, v in recipe if infos[a].np]
        new_flat = [float(x) for a, b, v in recipe for x in v[1]]
        fmt = rng.choice(["list", "flat", "dict"])
        pre = REPLAY_PRE + f"ns = natives({flag_names(ns)})\nu = Unroller(ns)\n" + bcode + fcode
        try:
            # (b1) same Unroller, same circuit, set_parameters in between
            c = build(0)
            u = U.Unroller(ns)
            r0 = u(c)
            if good(list(r0.queue), list(build(0).queue), n, ns, 1e-6):
                continue  # a first-call failure is the business of the other suites
            if fmt == "list":
                c.set_parameters(new_list)
                upd = f"c.set_parameters({new_list!r})\n"
            elif fmt == "flat":
                c.set_parameters(new_flat)
                upd = f"c.set_parameters({new_flat!r})\n"
            else:
                c.set_parameters({g: _pvalue(v[1]) for g, (a, b, v) in zip(c.queue, recipe) if infos[a].np})
                upd = "c.set_parameters({g: p for g, p in zip([g for g in c.queue if g.parameters], " + repr(new_list) + ")})\n"
            r1 = u(c)
            err = good(list(r1.queue), list(build(1).queue), n, ns, 1e-6)
            if err:
                ctx.fail("history:unroller_twice", f"the same Unroller({sname}) applied to the same circuit after set_parameters ({fmt}): {err}",
                         pre + "u(c)\n" + upd + f"r = u(c)\nassert only_native(r.queue, ns) and phase_equal(full(r.queue, {n}), full(f.queue, {n}), 1e-6)\n",
                         observed=err, broken=OB)
            # a brand-new Unroller on the updated circuit as well
            err = good(list(U.Unroller(ns)(c).queue), list(build(1).queue), n, ns, 1e-6)
            if err:
                ctx.fail("history:new_unroller_after_update", f"a new Unroller({sname}) on a circuit that was unrolled before its set_parameters ({fmt}): {err}",
                         pre + "u(c)\n" + upd + f"r = Unroller(ns)(c)\nassert only_native(r.queue, ns) and phase_equal(full(r.queue, {n}), full(f.queue, {n}), 1e-6)\n",
                         observed=err, broken=OB)
            # (b2) two circuits sharing gate objects, gate updated between the two unrollings
            c1 = build(0)
            u = U.Unroller(ns)
            u(c1)
            c2 = Circuit(n)
            for g, (a, b, v) in zip(list(c1.queue), recipe):
                if infos[a].np:
                    g.parameters = _pvalue(v[1])
                c2.add(g)
            extra = gates.H(0)
            c2.add(extra)
            ref = list(build(1).queue) + [gates.H(0)]
            err = good(list(u(c2).queue), ref, n, ns, 1e-6)
            if err:
                ctx.fail("history:shared_gates", f"Unroller({sname}) on a second circuit sharing (updated) gate objects with an already unrolled one: {err}",
                         pre + "u(c)\nc2 = Circuit(c.nqubits)\nfor g, h in zip(c.queue, f.queue):\n    if g.parameters: g.parameters = h.parameters if len(h.parameters) > 1 else h.parameters[0]\n    c2.add(g)\n"
                         f"r = u(c2)\nassert only_native(r.queue, ns) and phase_equal(full(r.queue, {n}), full(f.queue, {n}), 1e-6)\n",
                         observed=err, broken=OB)
            # (c) second call without update: same result; outputs are not aliased
            c = build(0)
            u = U.Unroller(ns)
            ra = u(c)
            rb = u(c)
            sig = lambda circ: [(g.__class__.__name__, tuple(g.qubits), Shapes.pkey(g)[1]) for g in circ.queue]
            if sig(ra) != sig(rb):
                ctx.fail("history:second_call", f"Unroller({sname}) applied twice to the same unchanged circuit returns different gate lists",
                         pre + "sig = lambda q: [(g.name, g.qubits, [np.asarray(p).tolist() for p in g.parameters]) for g in q]\n"
                         "assert sig(u(c).queue) == sig(u(c).queue)\n", broken=OB)
            # scramble the parameters of the first output, then translate again
            for g in ra.queue:
                k = len(g.parameters)
                if k and g.__class__.__name__ not in ("Unitary", "M"):
                    g.parameters = _pvalue([1.2345 + 0.5 * i for i in range(k)])
            err = good(list(u(c).queue), list(build(0).queue), n, ns, 1e-6) or good(list(rb.queue), list(build(0).queue), n, ns, 1e-6)
            if err:
                ctx.fail("history:alias", f"changing the parameters of the gates of one Unroller({sname}) output changes another / a later output: {err}",
                         pre + "ra = u(c); rb = u(c)\nfor g in ra.queue:\n    k = len(g.parameters)\n"
                         "    if k and g.name not in ('measure',) and g.__class__.__name__ != 'Unitary': g.parameters = tuple(1.2345 + 0.5 * i for i in range(k)) if k > 1 else 1.2345\n"
                         f"r = u(c)\nassert phase_equal(full(r.queue, {n}), full(c.queue, {n}), 1e-6) and phase_equal(full(rb.queue, {n}), full(c.queue, {n}), 1e-6)\n",
                         observed=err, broken=OB)
        except Exception as e:
            if is_magic_basis_refusal(e):
                continue
            ctx.fail("history:raises", f"history suite on Unroller({sname}) raises {type(e).__name__}: {e}", pre + "u(c); u(c)\n",
                     observed=f"{type(e).__name__}: {e}", broken=OB)

    # (c') gate level: two calls on one object, outputs not aliased
    for sname, ns, s1, s2 in native_sets():
        for name in (param_classes if ctx.thorough else rng.sample(param_classes, min(6, len(param_classes)))):
            info = infos[name]
            if not supported(name, info.nq, s1, s2):
                continue
            n = info.nq
            qs = list(range(n))
            v0, _ = _distinct_vals(rng, info.np)
            ctx.case(("history_c", sname, name))
            try:
                g = info.make(qs, v0)
                a = as_list(U.translate_gate(g, ns))
                for x in a:
                    k = len(x.parameters)
                    if k and x.__class__.__name__ != "Unitary":
                        x.parameters = _pvalue([0.4321 + 0.3 * i for i in range(k)])
                b = as_list(U.translate_gate(g, ns))
                err = good(b, [info.make(qs, v0)], n, ns)
            except Exception as e:
                if is_magic_basis_refusal(e):
                    continue
                err = f"raises {type(e).__name__}: {e}"
            if err:
                ctx.fail("history:gate_alias", f"translate_gate({name}, {sname}) called again after the first result's gates were re-parametrised: {err}",
                         REPLAY_PRE + f"ns = natives({flag_names(ns)})\ng = {make_code(name, qs, v0)}\na = translate_gate(g, ns)\nfor x in a:\n    k = len(x.parameters)\n"
                         "    if k: x.parameters = tuple(0.4321 + 0.3 * i for i in range(k)) if k > 1 else 0.4321\n"
                         f"b = translate_gate(g, ns)\nassert only_native(b, ns) and phase_equal(full(b, {n}), full([g], {n}), 1e-6)\n",
                         observed=err, broken=OB)
    new = [f["key"] for f in ctx.failures[before:]]
    ctx.ob("C10_search_history", not new, "search", "" if not new else "failing histories: " + ", ".join(new[:6]))


# ---------------------------------------------------------------------------
# (5) the instance hypothesis of the end-to-end theorem, and the ZYZ formulas


def faithful_suite(ctx, shapes):
    """`Faithful` (QV/Props/C10c.lean) on the real tables: every row the real tables produced during
    the correspondence (numeric parameter values, all placements) is an instance of a TRACED row of the
    same table and class — same classes, same template qubits, same matrices at the key gate's
    parameter values — for one of the traced branches."""
    nb = qgates.np_backend()
    bad, first, n = 0, None, 0
    for i, tname in enumerate(TABLE_NAMES):
        for (c, t), (g, tmpl) in sorted(shapes.real_rows[i].items()):
            name = g.__class__.__name__
            traced = TRACED.get((i, name))
            if not traced:
                ctx.stat("faithful_untraced_class")  # matrix-valued entries (Unitary, fSim, …): numeric search only
                continue
            try:
                vals = [float(np.asarray(p_).real) for p_ in g.parameters]
            except Exception:
                continue
            n += 1
            ctx.case(("faithful", tname, name, t))
            hit = None
            for label, k, params, outs in traced:
                if len(vals) != k or len(outs) != len(tmpl):
                    continue
                # on a special-value branch the constrained parameters must have those values
                try:
                    if any(abs(complex(evaluate(p_.t, vals)) - v) > 1e-12 for p_, v in zip(params, vals)):
                        continue
                    same = True
                    for (cname, (trees, targets, controls, dag)), x in zip(outs, tmpl):
                        if cname != x.__class__.__name__ or list(targets) != list(x.qubits) or controls or x.is_controlled_by:
                            same = False
                            break
                        m = np.array([[complex(evaluate(e, vals)) for e in row] for row in trees])
                        if not np.allclose(m, np.asarray(x.matrix(nb)), atol=1e-9):
                            same = False
                            break
                except Exception:
                    same = False
                if same:
                    hit = label
                    break
            if hit is None:
                bad += 1
                first = first or f"{tname}[{name}{tuple(vals)}] = {[x.__class__.__name__ for x in tmpl]}"
                nq = len(g.qubits)
                try:
                    ok = qgates.phase_equal(full_of(list(tmpl), nq), full_of([g], nq), 1e-7)
                except Exception:
                    ok = False
                if not ok:
                    code = make_code(name, list(g.qubits), vals)
                    ctx.fail(f"operator:{name}:{tname}", f"the entry of {tname} for {code} is not the gate up to a global phase",
                             REPLAY_PRE + f"from qibo.transpiler import decompositions as D\ng = {code}\nref = {code}\n"
                             f"out = D.{tname}._check_instance(g, nb)\nassert phase_equal(full(out, {nq}), full([ref], {nq}), 1e-6)\n",
                             observed=str([x.__class__.__name__ for x in tmpl]), broken=["C10_corr_faithful"])
            else:
                ctx.stat("faithful_" + ("generic" if hit.split(name, 1)[-1] == "" else "special_branch"))
    ctx.stats["faithful_rows_checked"] = n
    ctx.ob("C10_corr_faithful", bad == 0, "correspondence",
           f"{bad} real table rows are not instances of a traced row, first: {first}" if bad else "")


def concrete_suite(ctx, shapes):
    """the generated concrete tables `C10_sym` (the Lean value the corollary C10_unroll_concrete is about) against the real
    tables: for every real row produced during the correspondence, the model's row selection (first row of that table and
    class whose branch condition holds at the key gate's parameter values — Python twin of QV.Props.C10.entryOf) gives the
    same classes, the same template qubits and PARAMETER VALUES equal to the row's parameter expressions evaluated at the
    key gate's parameters (1e-9)."""
    rows_ = CONCRETE.get("rows", [])
    by = {}
    for r in rows_:
        by.setdefault((r["tab"], r["name"]), []).append(r)
    bad, first, n, sel = 0, None, 0, 0
    for i, tname in enumerate(TABLE_NAMES):
        for (c, t), (g, tmpl) in sorted(shapes.real_rows[i].items()):
            name = g.__class__.__name__
            cands = by.get((i, name))
            if not cands:
                ctx.stat("concrete_untraced_class")
                continue
            try:
                vals = [float(np.asarray(p_).real) for p_ in g.parameters]
            except Exception:
                continue
            n += 1
            ctx.case(("concrete", tname, name, t))
            row = None
            for r in cands:  # special branches first, exact comparison as in the code (`l != 0.0`, `t != -np.pi`)
                if len(vals) == r["k"] and all(complex(evaluate(e, vals)) == v for e, v in zip(r["key"], vals)):
                    row = r
                    break
            why = None
            if row is None:
                why = "no row of the concrete tables applies"
            else:
                if row["ncons"]:
                    sel += 1
                if len(row["gates"]) != len(tmpl):
                    why = f"{len(tmpl)} gates, the concrete row {row['label']} has {len(row['gates'])}"
                else:
                    for (cname, qs, ps, cb), x in zip(row["gates"], tmpl):
                        xp = [float(np.asarray(p_).real) for p_ in x.parameters]
                        if cname != x.__class__.__name__ or list(qs) != list(x.qubits) or x.is_controlled_by or len(ps) != len(xp):
                            why = f"emitted {x.__class__.__name__}{tuple(x.qubits)}, the concrete row {row['label']} has {cname}{tuple(qs)}"
                            break
                        if any(abs(complex(evaluate(e, vals)) - v) > 1e-9 for e, v in zip(ps, xp)):
                            why = f"parameters {xp} of the emitted {cname} differ from the row's expressions at {vals}"
                            break
            if why:
                bad += 1
                first = first or f"{tname}[{name}{tuple(vals)}]: {why}"
                nq = len(g.qubits)
                try:
                    ok = qgates.phase_equal(full_of(list(tmpl), nq), full_of([g], nq), 1e-7)
                except Exception:
                    ok = False
                if not ok:
                    code = make_code(name, list(g.qubits), vals)
                    ctx.fail(f"operator:{name}:{tname}", f"the entry of {tname} for {code} is not the gate up to a global phase",
                             REPLAY_PRE + f"from qibo.transpiler import decompositions as D\ng = {code}\nref = {code}\n"
                             f"out = D.{tname}._check_instance(g, nb)\nassert phase_equal(full(out, {nq}), full([ref], {nq}), 1e-6)\n",
                             observed=str([x.__class__.__name__ for x in tmpl]), broken=["C10_corr_concrete"])
    ctx.stats["concrete_rows_compared"] = n
    ctx.stats["concrete_special_branch_selected"] = sel
    ctx.ob("C10_corr_concrete", bad == 0 and (n > 0 or not rows_), "correspondence",
           f"{bad} real table rows differ from the generated concrete tables, first: {first}" if bad else "")


def zyz_model(u):
    """Python twin of `QV.ZYZ.u3Angles` (QV/Proofs/ZYZ.lean), written with cmath only:
    npSqrt z = z ^ (1/2) = exp(log z / 2), arctan2 y x = arg (x + y i), numpy.angle = arg."""
    import cmath

    det = u[0][0] * u[1][1] - u[0][1] * u[1][0]
    s = cmath.exp(cmath.log(det) / 2)
    su = [[u[i][j] / s for j in range(2)] for i in range(2)]
    theta = 2 * cmath.phase(complex(abs(su[0][0]), abs(su[1][0])))
    plus = cmath.phase(su[1][1])
    minus = cmath.phase(su[1][0])
    return theta, plus + minus, plus - minus


def u3_model(theta, phi, lam):
    """Python twin of `QV.ZYZ.u3Mat`."""
    import cmath

    cost, sint = math.cos(theta / 2), math.sin(theta / 2)
    eplus = cmath.exp(1j * (phi + lam) / 2)
    eminus = cmath.exp(1j * (phi - lam) / 2)
    return np.array([[eplus.conjugate() * cost, -eminus.conjugate() * sint], [eminus * sint, eplus * cost]])


def zyz_corpus(rng, thorough):
    X = np.array([[0, 1], [1, 0]], dtype=complex)
    Y = np.array([[0, -1j], [1j, 0]], dtype=complex)
    Z = np.diag([1, -1]).astype(complex)
    H = np.array([[1, 1], [1, -1]], dtype=complex) / math.sqrt(2)
    out = dict(corpus_1q(rng))
    out.update({"X": X, "Y": Y, "Z": Z, "H": H, "-X": -X, "iY": 1j * Y, "XZ": X @ Z, "S": np.diag([1, 1j]), "-Z": -Z,
                "I": np.eye(2, dtype=complex), "-iI": -1j * np.eye(2, dtype=complex)})
    for i in range(8 if thorough else 4):
        a, b, c = (rng.uniform(-math.pi, math.pi) for _ in range(3))
        out[f"antidiag{i}"] = np.array([[0, np.exp(1j * a)], [np.exp(1j * b), 0]])  # a = 0, det != 1
        out[f"diag{i}"] = np.diag([np.exp(1j * a), np.exp(1j * b)])  # b = 0
        out[f"phaseH{i}"] = np.exp(1j * c) * H
        out[f"realrot{i}"] = np.array([[math.cos(a), -math.sin(a)], [math.sin(a), math.cos(a)]], dtype=complex)
    for i in range(40 if thorough else 12):
        out[f"haar{i}"] = haar(rng, 2)
    return out


def zyz_suite(ctx):
    """the transliterated angle formulas (`u3Angles`, `u3Mat` of QV/Proofs/ZYZ.lean, about which
    T10_u3_decomposition is proved) against the real `u3_decomposition` / `gates.U3`."""
    import cmath

    gates, D, U = modules()
    from qibo.transpiler import unitary_decompositions as UD

    nb = qgates.np_backend()
    rng = ctx.rng
    bad_a, bad_m, first = 0, 0, None
    # (a) the matrix of gates.U3 = u3Mat (numeric twin of the kernel obligation C10_u3_matrix)
    for _ in range(20):
        t, p_, l = (rng.choice(PARAM_GRID) if rng.random() < 0.5 else rng.uniform(-7, 7) for _ in range(3))
        if not np.allclose(np.asarray(gates.U3(0, t, p_, l).matrix(nb)), u3_model(t, p_, l), atol=1e-12):
            bad_m += 1
            first = first or f"gates.U3(0, {t}, {p_}, {l}).matrix differs from the model's u3Mat"
    ctx.ob("C10_corr_u3_matrix", bad_m == 0, "correspondence", first or "")
    # (b) the angles
    first = None
    for label, M in sorted(zyz_corpus(rng, ctx.thorough).items()):
        M = np.array(M, dtype=complex)
        ctx.case(("zyz", label))
        ctx.stat("zyz_matrices")
        Mc = f"np.array({M.tolist()})"
        try:
            real = UD.u3_decomposition(M.copy(), nb)
        except Exception as e:
            ctx.fail(f"zyz:raises:{type(e).__name__}", f"u3_decomposition of '{label}' raises {type(e).__name__}: {e}",
                     REPLAY_PRE + f"from qibo.transpiler.unitary_decompositions import u3_decomposition\nM = {Mc}\nu3_decomposition(M, nb)\n",
                     observed=str(e), broken=["C10_corr_zyz_angles"])
            bad_a += 1
            continue
        # same determinant as the real code (numpy.linalg.det): on the branch cut of the square root
        # (det = -1: X, Y, H) the sign of a rounding-level imaginary part decides the branch
        det = complex(np.linalg.det(M))
        s = cmath.exp(cmath.log(det) / 2)
        su = M / s
        model = (2 * cmath.phase(complex(abs(su[0, 0]), abs(su[1, 0]))),
                 cmath.phase(su[1, 1]) + cmath.phase(su[1, 0]), cmath.phase(su[1, 1]) - cmath.phase(su[1, 0]))
        same = all(abs(a - b) < 1e-9 for a, b in zip(real, model))
        # the theorem's conclusion on the model's side, with the entry-formula determinant as well
        thm = all(np.allclose(u3_model(*ang), M / cmath.exp(cmath.log(d_) / 2), atol=1e-9)
                  for ang, d_ in ((model, det), (zyz_model(M.tolist()), M[0, 0] * M[1, 1] - M[0, 1] * M[1, 0])))
        if not thm:
            raise RuntimeError(f"harness: the Python twin of u3Angles does not satisfy T10_u3_decomposition on {label}")
        if not same:
            # an angle may sit on the cut of arg (entry on the negative real axis up to rounding): the
            # matrices are then compared instead
            if np.allclose(u3_model(*real), u3_model(*model), atol=1e-9) and all(abs(((a - b + math.pi) % (2 * math.pi)) - math.pi) < 1e-9 for a, b in zip(real, model)):
                ctx.stat("zyz_angle_on_branch_cut")
                continue
            bad_a += 1
            first = first or f"{label}: real {tuple(round(x, 9) for x in real)} / model {tuple(round(x, 9) for x in model)}"
            ok = qgates.phase_equal(np.asarray(gates.U3(0, *real).matrix(nb)), M, 1e-7)
            if not ok:
                ctx.fail(f"zyz:{label.rstrip('0123456789')}", f"u3_decomposition of '{label}' does not reproduce the unitary up to a phase",
                         REPLAY_PRE + f"from qibo.transpiler.unitary_decompositions import u3_decomposition\nM = {Mc}\n"
                         "t, p, l = u3_decomposition(M.astype(complex), nb)\nassert phase_equal(gates.U3(0, t, p, l).matrix(nb), M, 1e-7)\n",
                         expected=str(model), observed=str(real), broken=["C10_corr_zyz_angles"])
    ctx.ob("C10_corr_zyz_angles", bad_a == 0, "correspondence",
           f"{bad_a} matrices on which the real u3_decomposition and the transliterated formulas differ, first: {first}" if bad_a else "")


def selfcheck(ctx):
    """the harness's own embedding against vlib's reference (guards the spec side)."""
    rng = ctx.rng
    for _ in range(5):
        n = 3
        qs = rng.sample(range(n), 2)
        m = haar(rng, 4)
        a = apply_local(np.eye(8, dtype=complex), m, qs, n)
        b = qgates.embed(n, qs, m)
        if not np.allclose(a, b):
            raise RuntimeError("apply_local disagrees with vlib.qgates.embed")


def run(ctx):
    import time

    MODULES, THEOREMS = registry(PROP)
    ctx.theorems = THEOREMS
    t = [time.time()]

    def lap(name):
        t.append(time.time())
        ctx.stats["seconds_" + name] = round(t[-1] - t[-2], 1)

    selfcheck(ctx)
    raised = trace_obligations(ctx)
    lap("trace_and_stage1")
    xmods, xnames = extra_generated(ctx)
    build_and_audit(ctx, PROP, MODULES + xmods, THEOREMS, gen_obs=True, extra_audit=xnames)
    lap("kernel_and_audit")
    shapes = correspondence(ctx)
    unroll_correspondence(ctx, shapes)
    faithful_suite(ctx, shapes)
    concrete_suite(ctx, shapes)
    zyz_suite(ctx)
    lap("correspondence")
    gate_search(ctx, raised)
    lap("gate_search")
    unitary_search(ctx)
    weyl_search(ctx)
    nearbell_search(ctx)
    kak_certificate(ctx)
    dtype_search(ctx)
    circuit_search(ctx)
    lap("unitary_circuit_search")
    history_search(ctx)
    lap("history_search")
    ctx.trusted.append("LAPACK eig/qr/svd inside two_qubit_decomposition are oracles: their results are checked numerically (1e-6) on the "
                       "seeded corpus, not proved; u3_decomposition's angle formulas are proved correct for every 2x2 unitary "
                       "(T10_u3_decomposition) about a transliteration over R/C (numpy.angle = Complex.arg, arctan2 y x = arg(x+iy), "
                       "numpy.sqrt = principal root) that is compared with the real function to 1e-9 on every run (zyz_suite)")
    ctx.notes.append("two-qubit synthesis: PROVED = magic/Bell basis unitary and diagonalising a XX + b YY + c ZZ, exp(-i(hx XX+hy YY+hz ZZ)) = "
                     "B diag(e^{-i lambda_k}) B^dagger (Mathlib matrix exponential), calculate_h_vector inverts lambda(h), the real "
                     "cnot_decomposition / cnot_decomposition_light traced on symbolic h = unit scalar * Ud(h) for ALL h (kernel obligations "
                     "C10_kak_*), reconstruction identity for the dressed gate list (T10_kak_dressing, generated C10_kak_reconstruction); "
                     "CERTIFICATE-CHECKED per input (kak_certificate) = the numerical factorisation U = (u4 x v4) Ud(h) (u1 x v1) returned by "
                     "magic_decomposition (LAPACK eig/qr, Schmidt), its unitarity, and that the emitted list is the model's dressing of the template")
    ctx.notes.append("end to end: generated C10_unroll_circuit (QV/Gen/C10_Sem.lean) = T10_unroll_circuit_of_rows instantiated with the "
                     "traced rows / class matrices / arities of the current source; its instance hypothesis `Faithful` is compared with "
                     "the real tables on every run (faithful_suite: every real row produced during the correspondence is an instance of a "
                     "traced row at the key gate's parameter values, matrices to 1e-9)")
    ctx.notes.append("kernel obligations for all parameter values: every entry of the six translation tables and the real translate_gate "
                     "under the 8 native sets (all branches of _u3_to_gpi2); dispatch model vs real translate_gate/Unroller/"
                     "assert_decomposition on the real tables' shapes; numeric search over class x native set x placement x "
                     "boundary parameters, Haar + non-generic unitaries through the ZYZ/KAK path, the Weyl chamber (Bell-diagonal cores "
                     "exp(-i(hx XX+hy YY+hz ZZ)) in all 27 zero/sign patterns x magnitude schemes + named corners, bare and dressed with "
                     "local unitaries, through two_qubit_decomposition / translate_gate / Unroller), NEARLY Bell-diagonal unitaries (special cores "
                     "times a tiny local rotation / weak CRZ, CRX, CPhase on an angle ladder 1e-9 .. 1e-1, nearbell_search), random circuits; histories: "
                     "in-place parameter updates (attribute, set_parameters list/dict/flat) between translations of the same objects, "
                     "one Unroller reused, circuits sharing gate objects, re-parametrised outputs, tables called before/after an update")
