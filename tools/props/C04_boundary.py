"""C04 — boundary parameter regimes of every built-in channel (part of tools/props/C04.py).

The fast-path theorems of lean/QV/Props/C04*.lean quantify over ALL parameter values; this
suite makes the tie with the real code reach the corners of the admissible parameter region,
where a coefficient becomes exactly 0 or 1 and an implementation is tempted to take a shortcut:

  * thermal relaxation: T1 = inf / 1e20 / 1e16 x gate time (pure dephasing, exp(-t/T1) == 1),
    T2 = T1, T2 = 2 T1 (edge of the admissible region), T1 = T2 = inf, time = 0,
    excited_population in {0, 1};
  * reset: p_0, p_1 in {0, 1}, p_0 + p_1 = 1, one of them 0;
  * depolarizing on k = 1, 2 (3) qubits: lam in {0, 1, 4^k / (4^k - 1)};
  * amplitude / phase damping: gamma in {0, 1};
  * Pauli noise: zero weight, full weight, probabilities summing to one, identity string;
  * readout error with 0/1 transition matrices; unitary mixtures with p in {0, 1}.

Every instance, at every position of the register, is executed on a random complex
NON-Hermitian matrix and compared with an INDEPENDENT closed form written here from the
documentation, AND with the Kraus map of the channel's own operators, AND with the generic
backend path, AND with the action of the channel's own `to_liouville` / `to_choi` (row and
column order); the execution is done (a) through a circuit holding only the channel, (b)
through a circuit in which gates precede the channel (the channel then acts on an array the
simulator owns), (c) by calling `apply_density_matrix` directly.  In all three the input array
must come back unchanged, and a second application must give the same result.
"""
from __future__ import annotations

import itertools
import math

import numpy as np

INF = float("inf")


def pexpr(x):
    """python source of a parameter (repr(inf) is not evaluable)."""
    if isinstance(x, float) and math.isinf(x):
        return "np.inf"
    return repr(x)


def _local4(n, q, M, rho):
    """apply the 4x4 matrix M (index = 2 * row bit + column bit of qubit q) to the (row, column) bits
    of qubit q of the 2^n x 2^n matrix rho."""
    import numpy as np

    t = np.asarray(rho, dtype=complex).reshape((2,) * (2 * n))
    t = np.moveaxis(t, (q, q + n), (0, 1))
    shp = t.shape
    t = (np.asarray(M, dtype=complex) @ t.reshape(4, -1)).reshape(shp)
    t = np.moveaxis(t, (0, 1), (q, q + n))
    return t.reshape(2**n, 2**n)


def thermal_params(ps):
    t1, t2, tm = ps[:3]
    eta = ps[3] if len(ps) == 4 else 0.0
    preset = 1 - math.exp(-tm / t1)
    return t1, t2, tm, preset * (1 - eta), preset * eta


def closed_form(kind, n, rho, P):
    """the documented map, from the user's parameters only."""
    if kind == "AD":
        q, g = P
        s = math.sqrt(1 - g)
        M = np.zeros((4, 4))
        M[0, 0], M[0, 3], M[1, 1], M[2, 2], M[3, 3] = 1, g, s, s, 1 - g
        return _local4(n, q, M, rho)
    if kind == "PD":
        q, g = P
        s = math.sqrt(1 - g)
        return _local4(n, q, np.diag([1, s, s, 1]), rho)
    if kind == "RESET":
        q, p0, p1 = P
        c0 = 1 - p0 - p1
        M = np.diag([c0 + p0, c0, c0, c0 + p1]).astype(float)
        M[0, 3], M[3, 0] = p0, p1
        return _local4(n, q, M, rho)
    if kind == "THERMAL":
        q, ps = P
        t1, t2, tm, p0, p1 = thermal_params(ps)
        if t1 < t2:
            e = math.exp(-tm / t2)
            M = np.diag([1 - p1, e, e, 1 - p0]).astype(float)
            M[0, 3], M[3, 0] = p0, p1
            return _local4(n, q, M, rho)
        pz = (math.exp(-tm / t1) - math.exp(-tm / t2)) / 2
        c0 = 1 - pz - p0 - p1
        M = np.diag([c0 + pz + p0, c0 - pz, c0 - pz, c0 + pz + p1]).astype(float)
        M[0, 3], M[3, 0] = p0, p1
        return _local4(n, q, M, rho)
    raise ValueError(kind)


def boundary_instances(ctx):
    """(cls, label, expr, n, spec) — spec(rho) is the documented map."""
    from props import C04 as P4

    nmax = 3 if ctx.thorough else 2
    out = []
    thermal = [("T1=inf", (INF, 2.0, 1.0)), ("T1=inf,eta=1", (INF, 0.7, 0.4, 1.0)), ("T1=inf,eta=0", (INF, 1.5, 0.3, 0.0)),
               ("T1=1e20", (1e20, 0.7, 0.4, 0.3)), ("T1=1e16t", (1e16, 0.8, 1.0, 0.6)), ("T1=T2=inf", (INF, INF, 1.0, 0.5)),
               ("T2=T1", (1.0, 1.0, 0.3, 0.4)), ("T2=2T1", (1.0, 2.0, 0.5, 0.0)), ("T2=2T1,eta=1", (0.6, 1.2, 0.9, 1.0)),
               ("time=0,T=inf", (INF, INF, 0.0, 1.0)),
               ("time=0,hi", (0.7, 0.4, 0.0, 0.5)), ("time=0,lo", (0.5, 0.8, 0.0, 0.2)),
               ("eta=0,hi", (1.0, 0.5, 0.3, 0.0)), ("eta=1,hi", (1.0, 0.5, 0.3, 1.0)), ("eta=0,lo", (0.5, 0.8, 0.3, 0.0)), ("eta=1,lo", (0.5, 0.8, 0.3, 1.0))]
    for n in range(1, nmax + 2):
        # the largest register only for the thermal / reset corners (the partial-trace based paths)
        small = n <= nmax
        for q in range(n):
            for lab, ps in thermal:
                expr = f"gates.ThermalRelaxationChannel({q}, [{', '.join(pexpr(x) for x in ps)}])"
                out.append(("ThermalRelaxationChannel", lab, expr, n, (lambda rho, q=q, ps=ps, n=n: closed_form("THERMAL", n, rho, (q, ps)))))
            for p0, p1 in [(0.0, 0.0), (1.0, 0.0), (0.0, 1.0), (0.5, 0.5), (0.25, 0.75), (0.0, 0.3), (0.3, 0.0)]:
                expr = f"gates.ResetChannel({q}, [{p0!r}, {p1!r}])"
                out.append(("ResetChannel", f"p=({p0:g},{p1:g})", expr, n, (lambda rho, q=q, p0=p0, p1=p1, n=n: closed_form("RESET", n, rho, (q, p0, p1)))))
            if not small:
                continue
            for g in (0.0, 1.0):
                out.append(("AmplitudeDampingChannel", f"gamma={g:g}", f"gates.AmplitudeDampingChannel({q}, {g!r})", n,
                            (lambda rho, q=q, g=g, n=n: closed_form("AD", n, rho, (q, g)))))
                out.append(("PhaseDampingChannel", f"gamma={g:g}", f"gates.PhaseDampingChannel({q}, {g!r})", n,
                            (lambda rho, q=q, g=g, n=n: closed_form("PD", n, rho, (q, g)))))
        if not small:
            continue
        for k in range(1, min(n, 3 if ctx.thorough else 2) + 1):
            strs = ["".join(s) for s in itertools.product("IXYZ", repeat=k)]
            for qs in itertools.permutations(range(n), k):
                ops = {s: P4._pauli_string_op(n, qs, s) for s in strs}

                def twirl(rho, ops=ops):
                    return sum(o @ rho @ o.conj().T for o in ops.values()) / len(ops)
                for lam, lab in ((0.0, "lam=0"), (1.0, "lam=1"), (4**k / (4**k - 1), "lam=max")):
                    out.append(("DepolarizingChannel", f"{lab},k={k}", f"gates.DepolarizingChannel({qs!r}, {lam!r})", n,
                                (lambda rho, lam=lam, twirl=twirl: (1 - lam) * rho + lam * twirl(rho))))
                a, b = strs[1 % len(strs)], strs[-1]
                plists = [("zero", [(a, 0.0)]), ("full", [(a, 1.0)]), ("sum=1", [(a, 0.5), (b, 0.5)]), ("identity", [(strs[0], 1.0)]),
                          ("zeros", [(a, 0.0), (b, 0.0)]), ("mixed", [(a, 0.0), (b, 1.0)])]
                for lab, pl in plists:
                    expr = f"gates.PauliNoiseChannel({qs!r}, [{', '.join(f'({s!r}, {p!r})' for s, p in pl)}])"
                    out.append(("PauliNoiseChannel", f"{lab},k={k}", expr, n,
                                (lambda rho, pl=pl, ops=ops: (1 - sum(p for _, p in pl)) * rho + sum(p * ops[s] @ rho @ ops[s].conj().T for s, p in pl))))
                # readout error with 0/1 transition matrices: identity and a cyclic shift
                d = 2**k
                for lab, Pm in (("identity", np.eye(d)), ("shift", np.roll(np.eye(d), 1, axis=1))):
                    def ro(rho, Pm=Pm, qs=qs, n=n, d=d):
                        acc = 0
                        for j in range(d):
                            for kk in range(d):
                                if Pm[kk, j]:
                                    m = np.zeros((d, d))
                                    m[j, kk] = math.sqrt(Pm[kk, j])
                                    K = P4._embed(n, list(qs), m)
                                    acc = acc + K @ rho @ K.conj().T
                        return acc
                    out.append(("ReadoutErrorChannel", f"{lab},k={k}", f"gates.ReadoutErrorChannel({qs!r}, {P4.arr_expr(Pm)})", n, ro))
                # unitary mixtures with probability 0 / 1
                U = ops[b]
                for p in (0.0, 1.0):
                    expr = f"gates.UnitaryChannel([{qs!r}], [({p!r}, {P4.arr_expr(np.asarray(P4._pauli_string_op(k, range(k), b)))})])"
                    out.append(("UnitaryChannel", f"p={p:g},k={k}", expr, n, (lambda rho, p=p, U=U: (1 - p) * rho + p * U @ rho @ U.conj().T)))
    return out


def boundary_suite(ctx):
    from qibo import Circuit, gates

    from props import C04 as P4
    from vlib import qgates

    nb = qgates.np_backend()
    rng = ctx.rng
    name = "C04_search_boundary"
    TOL = P4.TOL
    bad = 0
    aliased = 0
    insts = boundary_instances(ctx)

    seen = set()

    def fail(cls, lab, kind, what, expr, n, rho, body, expected=None, observed=None):
        nonlocal bad
        bad += 1
        if (cls, lab, kind) in seen:  # one replay per (class, corner, comparison); the count keeps all
            return
        seen.add((cls, lab, kind))
        ctx.fail(f"boundary:{cls}:{lab}:{kind}", f"{expr} on {n} qubits: {what}", P4.replay(expr, n, rho, P4.SUPER_HELPERS + "\n" + body),
                 expected=None if expected is None else str(np.round(expected, 9).tolist())[:800],
                 observed=None if observed is None else str(np.round(observed, 9).tolist())[:800], broken=[name])

    for cls, lab, expr, n, spec in insts:
        rho = P4.cplx_rho(rng, n)
        ctx.case(("boundary", expr, n))
        ctx.stat(f"boundary_{cls}")
        try:
            ref = np.asarray(spec(rho))
            exp_src = f"expected = np.array({np.round(ref, 13).tolist()})\n"
            # (a) circuit holding only the channel; the caller's array must stay untouched
            r0 = np.array(rho, dtype=complex)
            c = Circuit(n, density_matrix=True)
            c.add(P4.mk(expr))
            ex = np.asarray(nb.execute_circuit(c, initial_state=r0).state())
            mut_a = not np.array_equal(r0, rho)
            # (b) gates first: the channel acts on an array the simulator owns
            r1 = np.array(rho, dtype=complex)
            c2 = Circuit(n, density_matrix=True)
            qh = rng.randrange(n)
            c2.add(gates.H(qh))
            c2.add(gates.H(qh))
            c2.add(P4.mk(expr))
            ex_b = np.asarray(nb.execute_circuit(c2, initial_state=r1).state())
            mut_b = not np.array_equal(r1, rho)
            # (c) the channel's own apply_density_matrix, twice on the same object
            ch = P4.mk(expr)
            r2 = np.array(rho, dtype=complex)
            d1 = ch.apply_density_matrix(nb, r2, n)
            if np.shares_memory(np.asarray(d1), r2):
                aliased += 1
            d1 = np.array(np.asarray(d1)).reshape(2**n, 2**n)
            mut_c = not np.array_equal(r2, rho)
            d2 = np.asarray(ch.apply_density_matrix(nb, np.array(rho, dtype=complex), n)).reshape(2**n, 2**n)
            km = P4._kraus_map(P4.mk(expr), rho, n, nb)
            gen = np.asarray(nb.apply_channel_density_matrix(P4.mk(expr), np.array(rho, dtype=complex), n)).reshape(2**n, 2**n)
        except Exception as e:  # noqa: BLE001 - a documented boundary value is refused / crashes
            P4.report_raise(ctx, expr, n, "execution", e, name)
            bad += 1
            continue
        checks = [
            ("exec", ex, "out = _execute(ch, rho, n, nb)\n", "density-matrix execution differs from the documented closed form"),
            ("exec-after-gates", ex_b, "c = Circuit(n, density_matrix=True); c.add(gates.H(0)); c.add(gates.H(0)); c.add(ch)\n"
             "out = np.asarray(nb.execute_circuit(c, initial_state=np.array(rho, dtype=complex)).state())\n",
             "execution inside a circuit (gates precede the channel) differs from the documented closed form"),
            ("direct", d1, "out = np.array(ch.apply_density_matrix(nb, np.array(rho, dtype=complex), n)).reshape(2**n, 2**n)\n",
             "apply_density_matrix differs from the documented closed form"),
            ("generic", gen, "out = np.asarray(nb.apply_channel_density_matrix(ch, np.array(rho, dtype=complex), n)).reshape(2**n, 2**n)\n",
             "the generic path apply_channel_density_matrix differs from the documented closed form"),
            ("kraus", km, "out = _kraus_map(ch, rho, n, nb)\n", "the Kraus map of the channel's own operators differs from the documented closed form"),
        ]
        for kind, got, src, what in checks:
            if got.shape != ref.shape or not np.allclose(got, ref, atol=TOL):
                fail(cls, lab, kind, what, expr, n, rho, exp_src + src + "assert np.allclose(out, expected, atol=1e-9), np.abs(out - expected).max()", ref, got)
        if not np.allclose(d2, d1, atol=TOL):
            fail(cls, lab, "repeat", "a second apply_density_matrix on the same channel object differs from the first", expr, n, rho,
                 "a = np.array(ch.apply_density_matrix(nb, np.array(rho, dtype=complex), n))\nb = np.array(ch.apply_density_matrix(nb, np.array(rho, dtype=complex), n))\nassert np.allclose(a, b, atol=1e-9)", d1, d2)
        if abs(np.trace(ex) - np.trace(rho)) > TOL:
            fail(cls, lab, "trace", "execution changes the trace", expr, n, rho,
                 "out = _execute(ch, rho, n, nb)\nassert abs(np.trace(out) - np.trace(rho)) < 1e-9, (np.trace(out), np.trace(rho))", np.trace(rho), np.trace(ex))
        if mut_a or mut_b or mut_c:
            which = "/".join(w for w, m in (("circuit", mut_a), ("circuit with gates", mut_b), ("apply_density_matrix", mut_c)) if m)
            fail(cls, lab, "mutates-input", f"the caller's state array is modified by the execution ({which})", expr, n, rho,
                 "r = np.array(rho, dtype=complex)\nch.apply_density_matrix(nb, r, n)\nassert np.array_equal(r, rho), 'apply_density_matrix modified its input'\n"
                 "c = Circuit(n, density_matrix=True); c.add(mk())\nnb.execute_circuit(c, initial_state=r)\nassert np.array_equal(r, rho), 'execution modified initial_state'")
        # the channel's own superoperator views act as the executed / documented map
        for order in ("row", "column"):
            for view in ("to_liouville", "to_choi"):
                call = f"{view}(nqubits=n, order={order!r})"
                try:
                    M = np.asarray(getattr(P4.mk(expr), view)(nqubits=n, order=order))
                    got = (M @ P4._vec(rho, n, order)) if view == "to_liouville" else P4._choi_action(M, rho, n, order)
                    want = P4._vec(ref, n, order) if view == "to_liouville" else ref
                    ok = got.shape == want.shape and np.allclose(got, want, atol=TOL)
                except Exception as e:  # noqa: BLE001
                    ok, got, want = False, np.zeros(1), np.zeros(1)
                    what_e = f" (raised {type(e).__name__}: {e})"
                else:
                    what_e = ""
                if not ok:
                    src = (f"out = np.asarray(ch.{call}) @ _vec(rho, n, {order!r})\nexpected = _vec(expected, n, {order!r})\n" if view == "to_liouville"
                           else f"out = _choi_action(np.asarray(ch.{call}), rho, n, {order!r})\n")
                    fail(cls, lab, view, f"{call} does not act as the documented closed form{what_e}", expr, n, rho,
                         exp_src + src + "assert np.allclose(out, expected, atol=1e-9), np.abs(out - expected).max()", want, got)
    ctx.stat("boundary_result_shares_memory_with_input", aliased)
    ctx.ob(name, bad == 0, "search", f"{bad} failures" if bad else f"{len(insts)} boundary instances")
    ctx.notes.append(
        f"boundary suite: {len(insts)} instances — thermal relaxation with T1 = inf / 1e20 / 1e16 t (exp(-t/T1) == 1), T2 = T1, T2 = 2 T1, T1 = T2 = inf, time = 0, "
        "excited_population 0 / 1; reset with p in {0, 1}, p_0 + p_1 = 1; depolarizing lam in {0, 1, 4^k/(4^k-1)}; damping gamma in {0, 1}; Pauli noise with zero / full weight; "
        "0/1 readout matrices; unitary mixtures with p in {0, 1} — on every position / ordered tuple: execution (bare circuit, after gates, apply_density_matrix) == documented closed form "
        "written in the harness == own Kraus map == generic path == action of to_liouville / to_choi (row, column); trace; input array unchanged; second application identical. "
        f"(results sharing memory with the input: {aliased} — recorded, not a failure: aliasing alone does not change the map)")
