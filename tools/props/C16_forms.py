"""C16, part 5 — three families of inputs that the earlier searches did not reach.

  * `forms_search`   Hamiltonian forms with SEVERAL DIFFERENT Paulis on one qubit inside one term
                     (`-0.5j*X(1)*Y(1)*X(2)`, `c*Z(0)*X(0)*Y(2) + conj(c)*Y(2)*X(0)*Z(0)`, …: valid
                     Hermitian forms) through EVERY route: `.matrix`, `.terms`, `h @ state`,
                     `h @ rho`, `.expectation`, `.exp(dt)`, `.circuit(dt)`, and `StateEvolution` with
                     the rk4 / rk45 / Trotter solvers — each compared with the explicit matrix (ordered
                     matrix product of the written factors) resp. with expm of it within the PROVED
                     bounds of Props/C16c–d.
  * `shared_adiabatic_search`  object-sharing histories: one `SymbolicHamiltonian` object used by two
                     `AdiabaticEvolution` / `SymbolicAdiabaticHamiltonian` objects in DIFFERENT roles
                     (HA→HB and HB→HC; forward and reverse anneal), both built before either runs, run
                     in both orders; each compared with a model built from fresh objects and with the
                     product of frozen exponentials within the proved bound.
  * `large_search`   size scaling: Trotter step / Trotter evolution of Hamiltonians on 9–11 qubits
                     whose groups touch qubit ids ≥ 8 (adjacent, non-adjacent, written descending),
                     applied to random product states, against `scipy.sparse.linalg.expm_multiply`
                     of the sparse Hamiltonian (no dense 2^n × 2^n matrix): exact for a single group,
                     the proved bound 2 r₃(dt L) and the third-order ratio under dt halving otherwise.

The measuring code is kept as source text (`*_SRC`): the same text runs in-process and in the replay
snippets.
"""
from __future__ import annotations

import numpy as np

C = None  # the C16 module

COMMON_SRC = (
    "import math, scipy.sparse as sp, scipy.sparse.linalg as spla\n"
    "def exp_rem(N, x):\n"
    "    return sum(x ** i / math.factorial(i) for i in range(N, N + 30)) if x < 1.0 else math.exp(x) - sum(x ** i / math.factorial(i) for i in range(N))\n"
    "rk45_loc = lambda x: exp_rem(7, x) + (1 / 720 - 1 / 2080) * x ** 6\n"
    "spec = lambda M: float(np.linalg.norm(np.asarray(M), 2))\n"
    "SYM = {'X': X, 'Y': Y, 'Z': Z}\n"
    "def form_of(prods, const=0):\n"
    "    # prods: [(coefficient, [(qubit, 'X'|'Y'|'Z'), ...] in WRITTEN order)]\n"
    "    f = const\n"
    "    for c, facs in prods:\n"
    "        t = c\n"
    "        for q, p in facs: t = t * SYM[p](q)\n"
    "        f = f + t\n"
    "    return f\n"
    "def matrix_of(prods, n, const=0):\n"
    "    # the SPEC: ordered matrix product of the written factors\n"
    "    H = const * np.eye(2 ** n, dtype=complex)\n"
    "    for c, facs in prods:\n"
    "        M = np.eye(2 ** n, dtype=complex) * c\n"
    "        for q, p in facs: M = M @ E(P[p], [q], n)\n"
    "        H = H + M\n"
    "    return H\n"
    "def vdist(a, b):\n"
    "    # 2-norm distance up to a global phase\n"
    "    a = np.asarray(a).ravel(); b = np.asarray(b).ravel(); k = np.vdot(b, a); ph = k / abs(k) if abs(k) > 1e-14 else 1.0\n"
    "    return float(np.linalg.norm(a - ph * b))\n"
)

FORMS_SRC = (
    "def measure_forms(prods, const, n, psi, dt, k):\n"
    "    Hm = matrix_of(prods, n, const); H0 = matrix_of(prods, n, 0)\n"
    "    assert np.abs(Hm - Hm.conj().T).max() < 1e-12\n"
    "    h = SymbolicHamiltonian(form_of(prods, const), nqubits=n)\n"
    "    rho = np.outer(psi, psi.conj())\n"
    "    out = {}\n"
    "    out['matrix'] = float(np.abs(np.asarray(h.matrix) - Hm).max())\n"
    "    out['terms'] = float(np.abs(sum(E(np.asarray(t.matrix), list(t.target_qubits), n) for t in h.terms) + h.constant * np.eye(2 ** n) - Hm).max())\n"
    "    out['matmul'] = float(np.abs(np.asarray(h @ psi.copy()) - Hm @ psi).max())\n"
    "    out['matmul-dm'] = float(np.abs(np.asarray(h @ rho.copy()) - Hm @ rho).max())\n"
    "    out['expectation'] = float(abs(h.expectation(psi.copy()) - np.vdot(psi, Hm @ psi).real))\n"
    "    out['exp'] = float(np.abs(np.asarray(h.exp(dt)) - sla.expm(-1j * dt * Hm)).max())\n"
    "    L = sum(abs(c) for c, _ in prods); nh = spec(Hm)\n"
    "    U = np.asarray(h.circuit(dt).unitary()); E0 = sla.expm(-1j * dt * H0)\n"
    "    out['circuit'] = (min(spec(U - E0), spec(U - np.exp(-1j * dt * const) * E0)), 2 * exp_rem(3, dt * L))\n"
    "    ref = sla.expm(-1j * k * dt * Hm) @ psi\n"
    "    for solver, e in (('rk4', exp_rem(5, dt * nh)), ('rk45', rk45_loc(dt * nh))):\n"
    "        o = models.StateEvolution(SymbolicHamiltonian(form_of(prods, const), nqubits=n), dt, solver=solver)(final_time=k * dt, initial_state=psi.copy())\n"
    "        out[solver] = (float(np.linalg.norm(np.asarray(o) - ref)), 2 * ((1 + e) ** k - 1))\n"
    "    s = solvers.get_solver('rk4', dt, h)\n"
    "    z = -1j * dt * Hm; P4 = sum(np.linalg.matrix_power(z, i) / math.factorial(i) for i in range(5))\n"
    "    out['rk-step'] = float(np.abs(np.asarray(s(psi.copy())) - P4 @ psi).max())\n"
    "    o = models.StateEvolution(h, dt)(final_time=k * dt, initial_state=psi.copy())\n"
    "    out['trotter-evolution'] = (vdist(o, ref), k * 2 * exp_rem(3, dt * L))\n"
    "    return out\n"
    "def forms_bad(out):\n"
    "    return [r for r, v in out.items() if (v[0] > v[1] + 1e-9 if isinstance(v, tuple) else v > 1e-9)]\n"
)


def _herm(c, facs):
    """c·A + conj(c)·A† for the written product A."""
    return [(c, list(facs)), (complex(c).conjugate(), list(reversed(facs)))]


def _rand_sameq_prods(rng, n):
    paulis = "XYZ"
    prods = []
    # one or two products with two or three DIFFERENT Paulis on the same qubit
    for _ in range(rng.randint(1, 2)):
        q = rng.randrange(n)
        a, b = rng.sample(paulis, 2)
        facs = [(q, a), (q, b)]
        if rng.random() < 0.4:
            facs.append((q, rng.choice([p for p in paulis if p != b])))
        others = [r for r in range(n) if r != q]
        rng.shuffle(others)
        for r in others[: rng.randint(0, min(2, len(others)))]:
            facs.insert(rng.randint(0, len(facs)), (r, rng.choice(paulis)))
        c = complex(round(rng.uniform(-0.6, 0.6), 3), round(rng.uniform(-0.6, 0.6), 3)) or 0.5j
        prods += _herm(c, facs)
    # ordinary terms around them (several groups, non-commuting)
    for _ in range(rng.randint(1, 3)):
        qs = sorted(rng.sample(range(n), rng.randint(1, min(2, n))))
        prods.append((round(rng.uniform(-1, 1), 3) or 0.5, [(q, rng.choice(paulis)) for q in qs]))
    return prods


FIXED_FORMS = [
    # the anneal-style forms: -i X1 Y1 X2 = Z1 X2 ; (i/2)[X2, Y2] = -Z2
    (3, [(1.0, [(0, "Z"), (1, "Z")]), (0.7, [(0, "X")]), (-0.5j, [(1, "X"), (1, "Y"), (2, "X")]), (0.15j, [(2, "X"), (2, "Y")]), (-0.15j, [(2, "Y"), (2, "X")])], 0),
    (2, _herm(0.4 - 0.3j, [(0, "Z"), (0, "X"), (1, "Y")]) + [(0.8, [(1, "X")])], 0.7),
    (2, _herm(0.5j, [(1, "Y"), (0, "X"), (1, "Z")]) + [(-0.6, [(0, "Z"), (1, "Z")])], 0),
    (1, _herm(0.3 + 0.2j, [(0, "X"), (0, "Y"), (0, "Z")]) + [(0.5, [(0, "X")])] + _herm(-0.4j, [(0, "Z"), (0, "X")]), -1.3),
]


def forms_search(ctx):
    rng = ctx.rng
    env = dict(C.Q)
    exec(COMMON_SRC + FORMS_SRC, env)  # noqa: S102 - own text
    ok = True
    cases = list(FIXED_FORMS)
    for _ in range(8 if ctx.thorough else 4):
        n = rng.randint(2, 3)
        cases.append((n, _rand_sameq_prods(rng, n), rng.choice([0, 0, 0.7, -1.3])))
    for n, prods, const in cases:
        psi = C.rstate(rng, n)
        nh = float(np.linalg.norm(env["matrix_of"](prods, n, const), 2)) or 1.0
        dt = round(0.2 / nh, 4)
        k = 5
        ctx.case(("forms", repr(prods), const))
        ctx.stat("forms:same-qubit-products")
        src = C.PRE + COMMON_SRC + FORMS_SRC + (
            f"prods = {prods!r}; const = {const!r}; n = {n}; dt = {dt!r}; k = {k}\npsi = {C.arr_src(psi)}\n"
            "print('form', form_of(prods, const))\nout = measure_forms(prods, const, n, psi, dt, k)\nprint(out)\nprint('routes off:', forms_bad(out))\n"
            "sys.exit(1 if forms_bad(out) else 0)\n")
        try:
            out = env["measure_forms"](prods, const, n, psi, dt, k)
            bad = env["forms_bad"](out)
        except Exception as ex:  # noqa: BLE001
            ok = False
            C.fail(ctx, "forms:raises", f"a form with several Paulis on one qubit raises {type(ex).__name__}: {ex}", src, broken=["C16_search_forms"])
            continue
        for route in bad:
            ok = False
            v = out[route]
            C.fail(ctx, f"forms:{route}",
                   f"SymbolicHamiltonian({env['form_of'](prods, const)}, nqubits={n}) — a Hermitian form with different Paulis on one qubit inside a term — route {route!r}: "
                   + (f"error {v[0]:.3e} against expm of the explicit matrix exceeds the proved bound {v[1]:.3e}" if isinstance(v, tuple) else f"differs from the explicit matrix (ordered product of the written factors) by {v:.3e}"),
                   src, expected="agreement with the explicit matrix", observed=v, broken=["C16_search_forms"])
    ctx.ob("C16_search_forms", ok, "search", "" if ok else "see failing inputs")


# ---------------------------------------------------------------------------

SHARED_SRC = (
    "SCHED = {'lin': lambda x: x, 'sq': lambda x: x ** 2}\n"
    "def ham(poly, n):\n"
    "    return SymbolicHamiltonian(form_of(poly), nqubits=n)\n"
    "def frozen(pa, pb, sname, n, dt, k, psi):\n"
    "    # product of frozen exponentials and the proved distance bound of the Trotter product from it\n"
    "    A, B = matrix_of(pa, n), matrix_of(pb, n); La, Lb = sum(abs(c) for c, _ in pa), sum(abs(c) for c, _ in pb)\n"
    "    s = SCHED[sname]; T = k * dt; t = 0.0; bound = 0.0; ref = psi.copy()\n"
    "    for _ in range(k):\n"
    "        sj = s(t / T) if t != 0 else 0\n"
    "        ref = sla.expm(-1j * dt * ((1 - sj) * A + sj * B)) @ ref\n"
    "        bound += 2 * exp_rem(3, dt * (abs(1 - sj) * La + abs(sj) * Lb)); t = t + dt\n"
    "    return ref, bound\n"
    "def measure_shared(polys, n, models_spec, order, dt, k, psi, tprobe):\n"
    "    # polys: name -> product list; models_spec: [(name0, name1, schedule)], all models are BUILT first from\n"
    "    # shared SymbolicHamiltonian objects, then run in the given order\n"
    "    objs = {name: ham(p, n) for name, p in polys.items()}\n"
    "    evs = [models.AdiabaticEvolution(objs[a], objs[b], SCHED[s], dt) for a, b, s in models_spec]\n"
    "    ahs = []\n"
    "    for a, b, s in models_spec:\n"
    "        ah = AdiabaticHamiltonian(objs[a], objs[b]); ah.schedule = SCHED[s]; ah.total_time = k * dt; ahs.append(ah)\n"
    "    res = {}\n"
    "    for i in order:\n"
    "        a, b, s = models_spec[i]\n"
    "        out = np.asarray(evs[i](final_time=k * dt, initial_state=psi.copy()))\n"
    "        fresh = np.asarray(models.AdiabaticEvolution(ham(polys[a], n), ham(polys[b], n), SCHED[s], dt)(final_time=k * dt, initial_state=psi.copy()))\n"
    "        ref, bound = frozen(polys[a], polys[b], s, n, dt, k, psi)\n"
    "        U = np.asarray(ahs[i].circuit(dt, t=tprobe).unitary())\n"
    "        fh = AdiabaticHamiltonian(ham(polys[a], n), ham(polys[b], n)); fh.schedule = SCHED[s]; fh.total_time = k * dt\n"
    "        Uf = np.asarray(fh.circuit(dt, t=tprobe).unitary())\n"
    "        Hm = np.asarray(ahs[i](tprobe).matrix); st = SCHED[s](tprobe / (k * dt))\n"
    "        res[i] = {'vs-fresh': float(np.abs(out - fresh).max()), 'vs-frozen': (vdist(out, ref), bound),\n"
    "                  'circuit-vs-fresh': float(np.abs(U - Uf).max()),\n"
    "                  'matrix': float(np.abs(Hm - ((1 - st) * matrix_of(polys[a], n) + st * matrix_of(polys[b], n))).max())}\n"
    "    return res\n"
    "def shared_bad(res):\n"
    "    return [(i, r) for i, d in res.items() for r, v in d.items() if (v[0] > v[1] + 1e-9 if isinstance(v, tuple) else v > 1e-9)]\n"
)


def _chain(rng, n, paulis="XYZ"):
    prods = []
    for i in range(n - 1):
        if rng.random() < 0.85:
            prods.append((round(rng.uniform(-1, 1), 3) or 0.5, [(i, rng.choice(paulis)), (i + 1, rng.choice(paulis))]))
    for i in range(n):
        if rng.random() < 0.6:
            prods.append((round(rng.uniform(-1, 1), 3) or 0.5, [(i, rng.choice(paulis))]))
    return prods or [(0.5, [(0, "Z")])]


def shared_adiabatic_search(ctx):
    rng = ctx.rng
    env = dict(C.Q)
    exec(COMMON_SRC + SHARED_SRC, env)  # noqa: S102 - own text
    ok = True
    scenarios = [
        ("chain", [("A", "B", "lin"), ("B", "C", "sq")], [0, 1]),
        ("chain-second-first", [("A", "B", "lin"), ("B", "C", "sq")], [1, 0]),
        ("forward-reverse", [("A", "B", "sq"), ("B", "A", "lin")], [0, 1]),
        ("same-role", [("A", "B", "lin"), ("A", "C", "sq")], [0, 1]),
        ("three-stage", [("A", "B", "lin"), ("B", "C", "lin"), ("C", "A", "sq")], [2, 0, 1]),
    ]
    for rep in range(2 if ctx.thorough else 1):
        for name, spec, order in scenarios:
            n = rng.randint(2, 3)
            polys = {"A": [(round(-rng.uniform(0.5, 1.0), 3), [(i, "X")]) for i in range(n)], "B": _chain(rng, n, "ZY"), "C": _chain(rng, n)}
            psi = C.rstate(rng, n)
            Lmax = max(sum(abs(c) for c, _ in p) for p in polys.values())
            dt = round(0.1 / Lmax, 4)
            k = 6
            tprobe = 2 * dt
            ctx.case(("shared-adiabatic", name, rep))
            ctx.stat(f"adiabatic:shared-objects:{name}")
            src = C.PRE + COMMON_SRC + SHARED_SRC + (
                f"polys = {polys!r}\nn = {n}; spec = {spec!r}; order = {order!r}; dt = {dt!r}; k = {k}; tprobe = {tprobe!r}\npsi = {C.arr_src(psi)}\n"
                "res = measure_shared(polys, n, spec, order, dt, k, psi, tprobe)\nprint(res)\nprint('off:', shared_bad(res))\nsys.exit(1 if shared_bad(res) else 0)\n")
            try:
                res = env["measure_shared"](polys, n, spec, order, dt, k, psi, tprobe)
                bad = env["shared_bad"](res)
            except Exception as ex:  # noqa: BLE001
                ok = False
                C.fail(ctx, "adiabatic:shared-hamiltonian:raises", f"{name}: {type(ex).__name__}: {ex}", src, broken=["C16_search_shared_adiabatic"])
                continue
            if bad:
                ok = False
                i, route = bad[0]
                a, b, s = spec[i]
                C.fail(ctx, f"adiabatic:shared-hamiltonian:{name}",
                       f"adiabatic models {spec} built from SHARED SymbolicHamiltonian objects (all built first, run in order {order}): model {i} (H{a}→H{b}, schedule {s}) "
                       f"— {route}: {res[i][route]} (all: {bad})",
                       src, expected="same as a model built from fresh objects; within the proved bound of the product of frozen exponentials", observed=res[i][route],
                       broken=["C16_search_shared_adiabatic"])
    ctx.ob("C16_search_shared_adiabatic", ok, "search", "" if ok else "see failing inputs")


# ---------------------------------------------------------------------------

LARGE_SRC = (
    "PS = {p: sp.csr_matrix(m) for p, m in P.items()}\n"
    "def sparse_of(prods, n):\n"
    "    H = sp.csr_matrix((2 ** n, 2 ** n), dtype=complex)\n"
    "    for c, facs in prods:\n"
    "        M = sp.identity(2 ** n, dtype=complex, format='csr') * c\n"
    "        for q, p in facs:\n"
    "            M = M @ sp.kron(sp.kron(sp.identity(2 ** q, format='csr'), PS[p]), sp.identity(2 ** (n - q - 1), format='csr'), format='csr')\n"
    "        H = H + M\n"
    "    return H\n"
    "def product_state(angles):\n"
    "    v = np.ones(1, dtype=complex)\n"
    "    for th, ph in angles: v = np.kron(v, np.array([np.cos(th / 2), np.exp(1j * ph) * np.sin(th / 2)]))\n"
    "    return v\n"
    "def measure_large(prods, n, angles, dt, k):\n"
    "    h = SymbolicHamiltonian(form_of(prods), nqubits=n); Hs = sparse_of(prods, n); psi = product_state(angles)\n"
    "    L = sum(abs(c) for c, _ in prods)\n"
    "    errs = []\n"
    "    for d in (dt, dt / 2):\n"
    "        out = np.asarray(h.circuit(d)(initial_state=psi.copy()).state())\n"
    "        errs.append(float(np.linalg.norm(out - spla.expm_multiply(-1j * d * Hs, psi))))\n"
    "    ev = np.asarray(models.StateEvolution(h, dt)(final_time=k * dt, initial_state=psi.copy()))\n"
    "    eev = float(np.linalg.norm(ev - spla.expm_multiply(-1j * k * dt * Hs, psi)))\n"
    "    return {'step': errs, 'step-bound': 2 * exp_rem(3, dt * L), 'evolution': eev, 'evolution-bound': k * 2 * exp_rem(3, dt * L)}\n"
    "def large_bad(m, exact):\n"
    "    bad = []\n"
    "    if exact and max(m['step'] + [m['evolution']]) > 1e-9: bad.append('exact')\n"
    "    if m['step'][0] > m['step-bound'] + 1e-9: bad.append('step-bound')\n"
    "    if m['evolution'] > m['evolution-bound'] + 1e-9: bad.append('evolution-bound')\n"
    "    if m['step'][0] > 1e-7 and m['step'][0] < 6.0 * m['step'][1]: bad.append('third-order')\n"
    "    return bad\n"
)


def _large_cases(rng, thorough):
    cases = []
    # single groups touching a qubit id >= 8 (exact), written ascending / descending
    cases.append(("pair-3-8", 9, [(1.0, [(3, "X"), (8, "Z")]), (0.6, [(3, "Z")]), (-0.35, [(8, "Y")])], True, 0.37))
    cases.append(("pair-8-2-descending", 9, [(0.9, [(8, "Y"), (2, "X")]), (-0.5, [(2, "Z")]), (0.4, [(8, "X")])], True, 0.41))
    cases.append(("pair-6-9", 10, [(0.8, [(6, "Z"), (9, "X")]), (0.7, [(9, "Z")]), (0.3, [(6, "Y")])], True, 0.29))
    # open transverse-field Ising chains with random couplings / fields (groups (i, i+1), fields merged asymmetrically)
    for n in ((9, 10, 11) if thorough else (rng.choice([9, 10]), 11)):
        prods = [(round(rng.uniform(0.5, 1.0), 3), [(i, "Z"), (i + 1, "Z")]) for i in range(n - 1)]
        prods += [(round(rng.uniform(0.4, 0.9), 3), [(i, "X")]) for i in range(n)]
        cases.append((f"tfim-{n}", n, prods, False, None))
    # non-adjacent and descending pairs around the ids >= 8
    n = 11 if thorough else rng.choice([10, 11])
    pairs = [(n - 1, 0), (8, 3), (2, 9), (7, 8), (n - 2, 5)]
    prods = []
    for a, b in pairs:
        prods.append((round(rng.uniform(-1, 1), 3) or 0.5, [(a, rng.choice("XYZ")), (b, rng.choice("XYZ"))]))
    for q in (0, 3, 8, 9, n - 1):
        prods.append((round(rng.uniform(-1, 1), 3) or 0.5, [(q, rng.choice("XYZ"))]))
    cases.append((f"scattered-{n}", n, prods, False, None))
    return cases


def large_search(ctx):
    rng = ctx.rng
    env = dict(C.Q)
    exec(COMMON_SRC + LARGE_SRC, env)  # noqa: S102 - own text
    ok = True
    for name, n, prods, exact, dt in _large_cases(rng, ctx.thorough):
        L = sum(abs(c) for c, _ in prods)
        if dt is None:
            dt = round(0.5 / L, 4)
        k = 3
        angles = [(round(rng.uniform(0, 3.1), 3), round(rng.uniform(0, 6.2), 3)) for _ in range(n)]
        ctx.case(("large", name, n))
        ctx.stat(f"large:{n}-qubits")
        src = C.PRE + COMMON_SRC + LARGE_SRC + (
            f"prods = {prods!r}\nn = {n}; dt = {dt!r}; k = {k}; angles = {angles!r}\n"
            f"m = measure_large(prods, n, angles, dt, k)\nprint(m)\nprint('off:', large_bad(m, {exact!r}))\nsys.exit(1 if large_bad(m, {exact!r}) else 0)\n")
        try:
            m = env["measure_large"](prods, n, angles, dt, k)
            bad = env["large_bad"](m, exact)
        except Exception as ex:  # noqa: BLE001
            ok = False
            C.fail(ctx, "large:raises", f"{name}: {type(ex).__name__}: {ex}", src, broken=["C16_search_large"])
            continue
        if m["step-bound"] > 0:
            ctx.stats["ratio:large-step:max_x1000"] = max(ctx.stats.get("ratio:large-step:max_x1000", 0), int(round(1000 * m["step"][0] / m["step-bound"])))
        if bad:
            ok = False
            C.fail(ctx, "large:" + ("single-group" if exact else "trotter"),
                   f"{env['form_of'](prods)} on {n} qubits, random product state: circuit(dt={dt}) error {m['step'][0]:.3e} (dt/2: {m['step'][1]:.3e}, proved bound {m['step-bound']:.3e}), "
                   f"Trotter evolution over {k} steps {m['evolution']:.3e} (bound {m['evolution-bound']:.3e}) against expm_multiply of the sparse Hamiltonian — failed: {bad}",
                   src, expected="exact" if exact else "within the proved bound, third order in dt", observed=m["step"], broken=["C16_search_large"])
    ctx.ob("C16_search_large", ok, "search", "" if ok else "see failing inputs")


# ---------------------------------------------------------------------------
# round 5: re-used adiabatic objects, dense arithmetic after a spectrum request, solver names

REUSE_SRC = (
    "def build_adiabatic(kind, pa, pb, n, dt, sname='sq', param=False):\n"
    "    solver = {'dense': 'exp', 'trotter': 'exp'}.get(kind, kind)\n"
    "    if kind == 'trotter':\n"
    "        h0, h1 = SymbolicHamiltonian(form_of(pa), nqubits=n), SymbolicHamiltonian(form_of(pb), nqubits=n)\n"
    "    else:\n"
    "        h0, h1 = Hamiltonian(n, matrix_of(pa, n)), Hamiltonian(n, matrix_of(pb, n))\n"
    "    s = (lambda x, p: x ** p[0]) if param else {'lin': (lambda x: x), 'sq': (lambda x: x ** 2)}[sname]\n"
    "    return models.AdiabaticEvolution(h0, h1, s, dt, solver=solver)\n"
    "def measure_reuse(kind, pa, pb, n, dt, T1, T2, psi, mode):\n"
    "    ev = build_adiabatic(kind, pa, pb, n, dt, param=(mode == 'set_parameters'))\n"
    "    fresh = build_adiabatic(kind, pa, pb, n, dt, param=(mode == 'set_parameters'))\n"
    "    if mode == 'set_parameters':\n"
    "        ev.set_parameters([2.0, T1]); fresh.set_parameters([2.0, T2])\n"
    "    else:\n"
    "        ev(final_time=T1, initial_state=psi.copy())\n"
    "    a = np.asarray(ev(final_time=T2, initial_state=psi.copy())); b = np.asarray(fresh(final_time=T2, initial_state=psi.copy()))\n"
    "    # independent reference: fine steps of the frozen exponentials with s = (t / T2) ** 2\n"
    "    A, B = matrix_of(pa, n), matrix_of(pb, n); ref = psi.copy(); m = 2000\n"
    "    for j in range(m):\n"
    "        sj = ((j + 0.5) / m) ** 2; ref = sla.expm(-1j * (T2 / m) * ((1 - sj) * A + sj * B)) @ ref\n"
    "    return float(np.abs(a - b).max()), vdist(a, ref), vdist(b, ref)\n"
)

ARITH_SRC = (
    "FORMS = {'c-H': lambda H, c: c - H, 'H+c': lambda H, c: H + c, 'c+H': lambda H, c: c + H, 'H-c': lambda H, c: H - c,\n"
    "         'c*H': lambda H, c: c * H, 'H*c': lambda H, c: H * c, '-c*H': lambda H, c: (-c) * H, 'c-(c*H)': lambda H, c: c - (c * H)}\n"
    "MATS = {'c-H': lambda M, c: c * np.eye(len(M)) - M, 'H+c': lambda M, c: M + c * np.eye(len(M)), 'c+H': lambda M, c: M + c * np.eye(len(M)),\n"
    "        'H-c': lambda M, c: M - c * np.eye(len(M)), 'c*H': lambda M, c: c * M, 'H*c': lambda M, c: c * M, '-c*H': lambda M, c: -c * M,\n"
    "        'c-(c*H)': lambda M, c: c * np.eye(len(M)) - c * M}\n"
    "def measure_arith(Hm, n, c, form, warm, psi, dt, k):\n"
    "    H = Hamiltonian(n, Hm.copy())\n"
    "    if warm == 'eigenvectors': H.eigenvectors()\n"
    "    elif warm == 'ground_state': H.ground_state()\n"
    "    elif warm == 'eigenvalues': H.eigenvalues()\n"
    "    elif warm == 'exp': H.exp(0.3)\n"
    "    G = FORMS[form](H, c); Gm = MATS[form](Hm, c)\n"
    "    out = {}\n"
    "    out['matrix'] = float(np.abs(np.asarray(G.matrix) - Gm).max())\n"
    "    out['exp'] = float(np.abs(np.asarray(G.exp(dt)) - sla.expm(-1j * dt * Gm)).max())\n"
    "    ev = np.asarray(G.eigenvalues()); V = np.asarray(G.eigenvectors())\n"
    "    out['eigenvalues'] = float(np.abs(np.sort(ev.real) - np.linalg.eigvalsh(Gm)).max())\n"
    "    out['eigenvectors'] = float(np.abs(Gm @ V - V * ev[None, :]).max())\n"
    "    g = np.asarray(G.ground_state()); out['ground_state'] = float(np.linalg.norm(Gm @ g - np.linalg.eigvalsh(Gm)[0] * g))\n"
    "    o = np.asarray(models.StateEvolution(G, dt)(final_time=k * dt, initial_state=psi.copy()))\n"
    "    out['evolution'] = float(np.abs(o - sla.expm(-1j * k * dt * Gm) @ psi).max())\n"
    "    out['original'] = float(np.abs(np.asarray(H.exp(dt)) - sla.expm(-1j * dt * Hm)).max())\n"
    "    return out\n"
)

NAMES_SRC = (
    "def measure_name(name, canonical, Hm, n, dt, T, psi, adiabatic, cb):\n"
    "    def build(sv):\n"
    "        cbs = [callbacks.Norm()] if cb else []\n"
    "        if adiabatic:\n"
    "            return models.AdiabaticEvolution(Hamiltonian(n, -np.asarray(hamiltonians.X(n).matrix)), Hamiltonian(n, Hm.copy()), lambda x: x, dt, solver=sv, callbacks=cbs)\n"
    "        return models.StateEvolution(Hamiltonian(n, Hm.copy()), dt, solver=sv, callbacks=cbs)\n"
    "    try:\n"
    "        ev = build(name)\n"
    "    except ValueError as ex:\n"
    "        return ('rejected', str(ex)[:60])\n"
    "    a = np.asarray(ev(final_time=T, initial_state=psi.copy())); b = np.asarray(build(canonical)(final_time=T, initial_state=psi.copy()))\n"
    "    return ('accepted', float(np.abs(a - b).max()), float(abs(np.linalg.norm(a) - 1)))\n"
)


def reuse_search(ctx):
    rng = ctx.rng
    env = dict(C.Q)
    exec(COMMON_SRC + REUSE_SRC, env)  # noqa: S102
    ok = True
    for kind in ("dense", "trotter", "rk4", "rk45"):
        for mode in ("execute-twice", "set_parameters"):
            n = 2
            pa = [(round(-rng.uniform(0.5, 1.0), 3), [(i, "X")]) for i in range(n)]
            pb = _chain(rng, n, "ZY")
            psi = C.rstate(rng, n)
            dt = 0.05
            T1, T2 = rng.choice([(1.0, 0.5), (0.5, 1.0), (0.3, 0.8), (1.5, 0.6)])
            ctx.case(("adiabatic-reuse", kind, mode))
            ctx.stat(f"adiabatic:reuse:{mode}")
            src = C.PRE + COMMON_SRC + REUSE_SRC + (
                f"pa = {pa!r}; pb = {pb!r}\npsi = {C.arr_src(psi)}\n"
                f"d, ea, eb = measure_reuse({kind!r}, pa, pb, {n}, {dt!r}, {T1!r}, {T2!r}, psi, {mode!r})\n"
                "print('re-used object vs fresh object', d, '; distances from a fine reference', ea, eb)\nsys.exit(0 if d < 1e-9 else 1)\n")
            try:
                d, ea, eb = env["measure_reuse"](kind, pa, pb, n, dt, T1, T2, psi, mode)
            except Exception as ex:  # noqa: BLE001
                ok = False
                C.fail(ctx, "adiabatic:reuse:raises", f"{kind}/{mode}: {type(ex).__name__}: {ex}", src, broken=["C16_search_adiabatic_reuse"])
                continue
            if d > 1e-9:
                ok = False
                how = f"executed for final_time={T1} and then for final_time={T2}" if mode == "execute-twice" else f"set_parameters([2.0, {T1}]) followed by execute(final_time={T2})"
                C.fail(ctx, f"adiabatic:reuse:{mode}",
                       f"one AdiabaticEvolution object ({kind}) {how}: the second result differs from a fresh object's by {d:.3e} (distance from a fine reference integration of (1−s(t/T))H0 + s(t/T)H1: {ea:.3e}, fresh object {eb:.3e})",
                       src, expected="same as a fresh object", observed=d, broken=["C16_search_adiabatic_reuse"])
    ctx.ob("C16_search_adiabatic_reuse", ok, "search", "" if ok else "see failing inputs")


def arith_search(ctx):
    rng = ctx.rng
    env = dict(C.Q)
    exec(COMMON_SRC + ARITH_SRC, env)  # noqa: S102
    ok = True
    forms = list(env["FORMS"])
    warms = ["eigenvectors", "ground_state", "eigenvalues", "exp", "none"]
    combos = [(f, w) for f in forms for w in warms]
    if not ctx.thorough:
        combos = [(f, w) for f, w in combos if w in ("eigenvectors", "ground_state")] + rng.sample([(f, w) for f, w in combos if w not in ("eigenvectors", "ground_state")], 6)
    for form, warm in combos:
        n = rng.randint(1, 2)
        ms, const = C.rand_poly(rng, n, rng.randint(2, 4), commuting=None, integer=False)
        Hm = C.poly_matrix(ms, const, n)
        c = rng.choice([2.0, -1.5, 0.7, 3, np.float64(1.25)])
        psi = C.rstate(rng, n)
        dt, k = 0.1, 4
        ctx.case(("dense-arith", form, warm))
        ctx.stat(f"dense-arith:{form}")
        src = C.PRE + COMMON_SRC + ARITH_SRC + (
            f"Hm = {C.arr_src(Hm)}\npsi = {C.arr_src(psi)}\n"
            f"out = measure_arith(Hm, {n}, {float(c)!r}, {form!r}, {warm!r}, psi, {dt!r}, {k})\nprint(out)\n"
            "sys.exit(1 if max(out.values()) > 1e-9 else 0)\n")
        try:
            out = env["measure_arith"](Hm, n, c, form, warm, psi, dt, k)
        except Exception as ex:  # noqa: BLE001
            ok = False
            C.fail(ctx, "dense-arith:raises", f"{form} after {warm}: {type(ex).__name__}: {ex}", src, broken=["C16_search_dense_arith"])
            continue
        bad = [r for r, v in out.items() if v > 1e-9]
        if bad:
            ok = False
            C.fail(ctx, f"dense-arith:{form}:{bad[0]}",
                   f"dense Hamiltonian H on {n} qubit(s), {warm} requested first, then G = {form} with c = {c!r}: routes {bad} of G disagree with the explicit matrix ({ {r: out[r] for r in bad} })",
                   src, expected="exp / spectrum / exp-solver evolution of the explicit matrix", observed=out, broken=["C16_search_dense_arith"])
    ctx.ob("C16_search_dense_arith", ok, "search", "" if ok else "see failing inputs")


def solver_name_search(ctx):
    rng = ctx.rng
    env = dict(C.Q)
    exec(COMMON_SRC + NAMES_SRC, env)  # noqa: S102
    ok = True
    variants = [("RK4", "rk4"), ("Rk4", "rk4"), (" rk4", "rk4"), ("rk4 ", "rk4"), ("RK45", "rk45"), ("Rk45", "rk45"), ("rK45", "rk45"), ("rk45\n", "rk45"),
                ("EXP", "exp"), (" exp", "exp"), ("Exp", "exp"), ("rk4", "rk4"), ("rk45", "rk45"), ("exp", "exp"), ("runge-kutta", "rk4"), ("rk", "rk4")]
    for name, canonical in variants:
        for adiabatic in (False, True):
            n = 2
            ms, const = C.rand_poly(rng, n, 3, commuting=None, integer=False)
            Hm = C.poly_matrix(ms, const, n)
            psi = C.rstate(rng, n) if not adiabatic else np.ones(4, dtype=complex) / 2
            dt, T = 0.1, 2.0
            cb = rng.random() < 0.5
            ctx.case(("solver-name", name, adiabatic))
            src = C.PRE + COMMON_SRC + NAMES_SRC + (
                f"Hm = {C.arr_src(Hm)}\npsi = {C.arr_src(psi)}\n"
                f"r = measure_name({name!r}, {canonical!r}, Hm, {n}, {dt!r}, {T!r}, psi, {adiabatic!r}, {cb!r})\nprint(r)\n"
                "sys.exit(0 if r[0] == 'rejected' or (r[1] < 1e-12 and r[2] < 1e-9) else 1)\n")
            try:
                r = env["measure_name"](name, canonical, Hm, n, dt, T, psi, adiabatic, cb)
            except Exception as ex:  # noqa: BLE001
                ok = False
                C.fail(ctx, "solver-name:raises", f"solver={name!r}: {type(ex).__name__}: {ex} (an unknown name must raise ValueError)", src, broken=["C16_search_solver_names"])
                continue
            ctx.stat(f"solver-name:{r[0]}")
            if r[0] == "accepted" and (r[1] > 1e-12 or r[2] > 1e-9):
                ok = False
                C.fail(ctx, f"solver-name:{canonical}",
                       f"{'AdiabaticEvolution' if adiabatic else 'StateEvolution'}(solver={name!r}) is accepted but differs from solver={canonical!r} by {r[1]:.3e}; |norm − 1| of the returned state = {r[2]:.3e}",
                       src, expected="ValueError, or the same (normalised) state as the canonical name", observed=list(r), broken=["C16_search_solver_names"])
    ctx.ob("C16_search_solver_names", ok, "search", "" if ok else "see failing inputs")

# `AdiabaticHamiltonian(h, h)` with ONE SymbolicHamiltonian object in both roles: on the current tree the
# Trotter circuit weights every (doubled) term with s(t) — reported to the lead (patch
# /tmp/patches/d16b_adiabatic_same_object.diff); recorded as a stat until the lead decides, then set the switch.
SAME_OBJECT_STRICT = True

SAME_SRC = (
    "def measure_same(prods, n, dt, T, psi):\n"
    "    h = SymbolicHamiltonian(form_of(prods), nqubits=n)\n"
    "    out = np.asarray(models.AdiabaticEvolution(h, h, lambda x: x, dt)(final_time=T, initial_state=psi.copy()))\n"
    "    k = int(round(T / dt)); L = sum(abs(c) for c, _ in prods)\n"
    "    return vdist(out, sla.expm(-1j * T * matrix_of(prods, n)) @ psi), k * 2 * exp_rem(3, dt * L)\n"
)


def same_object_probe(ctx):
    rng = ctx.rng
    env = dict(C.Q)
    exec(COMMON_SRC + SAME_SRC, env)  # noqa: S102
    ok = True
    n = 2
    prods = _chain(rng, n)
    psi = C.rstate(rng, n)
    dt, T = 0.05, 1.0
    ctx.case(("adiabatic-same-object",))
    src = C.PRE + COMMON_SRC + SAME_SRC + (
        f"prods = {prods!r}\npsi = {C.arr_src(psi)}\nd, bound = measure_same(prods, {n}, {dt!r}, {T!r}, psi)\n"
        "print('AdiabaticEvolution(h, h): distance from exp(-iTH)psi', d, 'proved Trotter bound', bound)\nsys.exit(0 if d <= bound + 1e-9 else 1)\n")
    try:
        d, bound = env["measure_same"](prods, n, dt, T, psi)
    except Exception as ex:  # noqa: BLE001
        d, bound = float("inf"), 0.0
        ctx.log(f"same-object probe raises {type(ex).__name__}: {ex}")
    off = not d <= bound + 1e-9
    ctx.stat("observation:adiabatic:same-object:" + ("deviates" if off else "within-bound"))
    if off and SAME_OBJECT_STRICT:
        ok = False
        C.fail(ctx, "adiabatic:same-object",
               f"AdiabaticEvolution(h, h, …) with ONE SymbolicHamiltonian object in both roles ((1−s)H + sH = H): {d:.3e} away from exp(−iTH)ψ, proved Trotter bound {bound:.3e}",
               src, expected=f"<= {bound:.3e}", observed=d, broken=["C16_search_adiabatic_same_object"])
    ctx.ob("C16_search_adiabatic_same_object", ok, "search", "" if ok else "see failing inputs")


def run_suites(ctx, c16):
    global C
    C = c16
    forms_search(ctx)
    shared_adiabatic_search(ctx)
    large_search(ctx)
    reuse_search(ctx)
    arith_search(ctx)
    solver_name_search(ctx)
    same_object_probe(ctx)
