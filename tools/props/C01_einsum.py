"""C01/C02 deepening — the backend PIPELINE inside the model (QV/Model/Einsum.lean).

`run_suites(ctx)` compares, on every run,
  * the Lean transliterations of `einsum_utils.prepare_strings / apply_gate_string /
    apply_gate_density_matrix_string / apply_gate_density_matrix_controlled_string /
    control_order / control_order_density_matrix / reverse_order` VERBATIM with the real
    helper functions (characters ↦ label numbers via EINSUM_CHARS; a raise ↦ RAISE), incl.
    the "not enough einsum characters" boundaries;
  * the transliterated `NumpyBackend.apply_gate` (ctx.prop == C01) and
    `apply_gate_density_matrix` (C02) — reshape / transpose / slice / einsum / concatenate /
    inverse transpose, 4-block controlled update — with the real methods on Gaussian-integer
    data (driver `DriverC01b.lean` runs the pipeline model, not `applyGate`).
Every disagreement is followed by a search for an input on which the real method differs
from the SPEC operator (embed + control of the local matrix), reported with a replay.
"""
from __future__ import annotations

import itertools

import numpy as np

from vlib import qgates
from vlib.driver import gi_tokens, parse_gi, run_driver

DRIVER = "DriverC01b.lean"


def _norm(s):
    return " ".join(s.split())


def _alpha(text):
    """einsum subscripts up to a bijective renaming of the index letters (their meaning does not
    depend on which letters are used): labels are renumbered in order of first occurrence,
    separately for each einsum of a `;`-separated pair."""
    out = []
    for part in text.split(";"):
        ren = {}
        toks = []
        for tok in part.split():
            if tok.isdigit():
                toks.append(str(ren.setdefault(tok, len(ren))))
            else:
                toks.append(tok)
        out.append(" ".join(toks))
    return " ; ".join(out)


def _labs(s):
    from qibo.config import EINSUM_CHARS

    return " ".join(str(EINSUM_CHARS.index(ch)) for ch in s)


def _spec(opstring):
    ab, out = opstring.split("->")
    a, b = ab.split(",")
    return _norm(f"{_labs(a)} , {_labs(b)} -> {_labs(out)}")


def _call(f, *args):
    try:
        return f(*args), None
    except Exception as e:  # noqa: BLE001 — a raise is part of the compared behaviour
        return None, type(e).__name__


def layouts(ctx, nexh, nmax, per_n):
    """(n, ordered targets, control subset): exhaustive for n <= nexh, sampled above."""
    out = []
    for n in range(1, nmax + 1):
        allv = []
        for k in range(1, min(n, 3) + 1):
            for ts in itertools.permutations(range(n), k):
                rest = [q for q in range(n) if q not in ts]
                for r in range(len(rest) + 1):
                    for cs in itertools.combinations(rest, r):
                        allv.append((n, ts, cs))
        if n <= nexh:
            out += allv
        else:
            out += ctx.rng.sample(allv, min(per_n, len(allv)))
    return out


# ---------------------------------------------------------------------------
# strings


def string_suite(ctx, dm):
    from qibo.backends import einsum_utils as eu

    nexh = 6 if ctx.thorough else 4
    tuples = sorted({(n, ts) for n, ts, _ in layouts(ctx, nexh, 6, 400)})
    # boundaries of the "not enough einsum characters" guards (52 characters)
    for n in (16, 17, 23, 24, 25, 26, 48, 49, 50, 51, 52, 53):
        for k in (1, 2, 3):
            if k <= n:
                tuples.append((n, tuple(ctx.rng.sample(range(n), k))))
    lines, real, meta = [], [], []
    for n, ts in tuples:
        t = f"{n} {len(ts)} {' '.join(map(str, ts))}"
        if not dm:
            r, exc = _call(eu.prepare_strings, list(ts), n)
            lines.append("PREP " + t)
            real.append("RAISE" if exc else _norm(" | ".join(_labs(x) for x in r)))
            meta.append(("prepare_strings", n, ts, exc))
            r, exc = _call(eu.apply_gate_string, list(ts), n)
            lines.append("GSTR " + t)
            real.append("RAISE" if exc else _spec(r))
            meta.append(("apply_gate_string", n, ts, exc))
        else:
            for cmd, f in (("DSTR", eu.apply_gate_density_matrix_string), ("CSTR", eu.apply_gate_density_matrix_controlled_string)):
                r, exc = _call(f, list(ts), n)
                lines.append(f"{cmd} " + t)
                real.append("RAISE" if exc else _norm(_spec(r[0]) + " ; " + _spec(r[1])))
                meta.append((f.__name__, n, ts, exc))
    outs = run_driver(lines, driver=DRIVER)
    bad = []
    for (fn, n, ts, exc), want, got in zip(meta, real, outs):
        ctx.case(("str", fn, n, ts))
        ctx.stat(f"str_{fn}" + ("_raise" if exc else ""))
        if exc and exc not in ("NotImplementedError",):
            ctx.stat(f"str_raise_{exc}")
        if _alpha(_norm(got)) != _alpha(want):
            bad.append((fn, n, ts, want, _norm(got)))
    name = f"{ctx.prop}_corr_einsum_strings"
    if bad:
        _string_search(ctx, bad, name, dm)
    ctx.ob(name, not bad, "correspondence", f"{len(bad)} disagreements, first: {bad[0]}" if bad else "")
    ctx.sample({"suite": name, "cases": len(lines), "example": {"call": lines[0], "lean": outs[0], "real": real[0]}})
    return [name] if bad else []


def _string_search(ctx, bad, name, dm):
    """the strings changed: is np.einsum with the REAL string still the gate action?"""
    from qibo.backends import einsum_utils as eu

    for fn, n, ts, want, got in bad[:40]:
        if want == "RAISE" or n > 8:
            continue
        k = len(ts)
        rng = np.random.default_rng(ctx.rng.randint(0, 2**31))
        m = rng.integers(-2, 3, (2**k, 2**k)) + 1j * rng.integers(-2, 3, (2**k, 2**k))
        U = qgates.embed(n, list(ts), m)
        if not dm:
            psi = rng.integers(-3, 4, 2**n) + 1j * rng.integers(-3, 4, 2**n)
            out = np.einsum(eu.apply_gate_string(list(ts), n), psi.reshape(n * (2,)), m.reshape(2 * k * (2,))).reshape(-1)
            ok = np.array_equal(out, U @ psi)
            py = (f"import numpy as np\nfrom qibo.backends import einsum_utils as eu\nfrom qibo import gates\nfrom qibo.backends import NumpyBackend\n"
                  f"m = np.array({m.tolist()}); psi = np.array({psi.tolist()})\n"
                  f"out = NumpyBackend().apply_gate(gates.Unitary(m, *{list(ts)}, check_unitary=False), psi, {n})\n"
                  f"assert np.array_equal(out, np.array({(U @ psi).tolist()})), out")
        else:
            rho = rng.integers(-2, 3, (2**n, 2**n)) + 1j * rng.integers(-2, 3, (2**n, 2**n))
            left, right = eu.apply_gate_density_matrix_string(list(ts), n)
            t = np.einsum(right, rho.reshape(2 * n * (2,)), np.conj(m).reshape(2 * k * (2,)))
            out = np.einsum(left, t, m.reshape(2 * k * (2,))).reshape(2**n, 2**n)
            exp = U @ rho @ U.conj().T
            ok = np.array_equal(out, exp)
            py = (f"import numpy as np\nfrom qibo import gates\nfrom qibo.backends import NumpyBackend\n"
                  f"m = np.array({m.tolist()}); rho = np.array({rho.tolist()})\n"
                  f"out = NumpyBackend().apply_gate_density_matrix(gates.Unitary(m, *{list(ts)}, check_unitary=False), rho, {n})\n"
                  f"assert np.array_equal(out, np.array({exp.tolist()})), out")
        if not ok:
            ctx.fail(f"einsum-string:{fn}", f"{fn}({list(ts)}, {n}) no longer contracts the gate matrix with the named axes", py,
                     expected=want, observed=got, broken=[name])
            return


# ---------------------------------------------------------------------------
# axis orders


def _mk_gate(ts, cs, rng, m=None):
    from qibo import gates

    k = len(ts)
    g = gates.Unitary(np.eye(2**k) if m is None else m, *ts, check_unitary=False)
    if cs:
        cl = list(cs)
        rng.shuffle(cl)
        g = g.controlled_by(*cl)
    return g


def order_suite(ctx, dm):
    from qibo.backends import einsum_utils as eu

    nexh = 6 if ctx.thorough else 4
    lay = layouts(ctx, nexh, 6, 250)
    lines, real, meta = [], [], []
    f = eu.control_order_density_matrix if dm else eu.control_order
    cmd = "ORDDM" if dm else "ORD"
    for n, ts, cs in lay:
        g = _mk_gate(ts, cs, ctx.rng)
        cq = list(g.control_qubits)
        (order, targets) = f(g, n)
        lines.append(f"{cmd} {n} {len(cq)} {len(ts)} {' '.join(map(str, cq))} {' '.join(map(str, ts))}")
        real.append(_norm(" ".join(map(str, order)) + " | " + " ".join(map(str, targets))))
        meta.append((f.__name__, n, ts, cs))
        lines.append(f"REV {len(order)} {' '.join(map(str, order))}")
        real.append(_norm(" ".join(map(str, eu.reverse_order(order)))))
        meta.append(("reverse_order", n, tuple(order), ()))
    for _ in range(60):
        p = list(range(ctx.rng.randint(1, 12)))
        ctx.rng.shuffle(p)
        lines.append(f"REV {len(p)} {' '.join(map(str, p))}")
        real.append(_norm(" ".join(map(str, eu.reverse_order(p)))))
        meta.append(("reverse_order", len(p), tuple(p), ()))
    outs = run_driver(lines, driver=DRIVER)
    bad = []
    for (fn, n, ts, cs), want, got in zip(meta, real, outs):
        ctx.case(("ord", fn, n, ts, cs))
        ctx.stat(f"ord_{fn}")
        if _norm(got) != want:
            bad.append((fn, n, ts, cs, want, _norm(got)))
    name = f"{ctx.prop}_corr_einsum_orders"
    ctx.ob(name, not bad, "correspondence", f"{len(bad)} disagreements, first: {bad[0]}" if bad else "")
    ctx.sample({"suite": name, "cases": len(lines), "example": {"call": lines[0], "lean": outs[0], "real": real[0]}})
    return [name] if bad else []


# ---------------------------------------------------------------------------
# the pipeline itself


def gate_tokens(g):
    """k nc targets controls matrix; the controls in the order the caller gave them (the
    model sorts them as `Gate.control_qubits` does)."""
    nb = qgates.np_backend()
    m = np.asarray(g.matrix(nb))
    if g.is_controlled_by:
        ts, cs = list(g.target_qubits), list(getattr(g, "_control_qubits", g.control_qubits))
    else:
        ts, cs = list(g.qubits), []
    return f"{len(ts)} {len(cs)} {' '.join(map(str, ts))} {' '.join(map(str, cs))} {gi_tokens(m)}"


def _ctor(g):
    m = np.asarray(g.matrix(qgates.np_backend()))
    if g.__class__.__name__ == "Unitary":
        s = f"gates.Unitary(np.array({m.tolist()}), *{list(g.target_qubits)}, check_unitary=False)"
    else:
        qs = list(g.target_qubits) if g.is_controlled_by else list(g.qubits)
        s = f"gates.{g.__class__.__name__}(*{qs})"
    if g.is_controlled_by:
        s += f".controlled_by(*{list(getattr(g, '_control_qubits', g.control_qubits))})"
    return s


def pipeline_cases(ctx, dm):
    from props import C01

    rng = ctx.rng
    nexh = 3 if dm else (4 if ctx.thorough else 3)
    nmax = 4 if dm else 6
    per_n = (40 if ctx.thorough else 12) if dm else (80 if ctx.thorough else 25)
    cases = []
    for n, ts, cs in layouts(ctx, nexh, nmax, per_n):
        m = C01.rand_int_matrix(rng, len(ts), dense=True)
        cases.append((n, [_mk_gate(ts, cs, rng, m)]))
    for _ in range((30 if ctx.thorough else 10) if dm else (60 if ctx.thorough else 20)):
        n = rng.randint(1, 3 if dm else 5)
        cases.append((n, [C01.rand_gate(rng, n, allow_dense=(i < 2)) for i in range(rng.randint(2, 6))]))
    return cases


def pipeline_suite(ctx, dm, also_broken=()):
    from props import C01

    nb = qgates.np_backend()
    cases = pipeline_cases(ctx, dm)
    lines, meta = [], []
    for n, gs in cases:
        d = 2**n
        if dm:
            st = np.array([[complex(ctx.rng.randint(-2, 2), ctx.rng.randint(-2, 2)) for _ in range(d)] for _ in range(d)])
        else:
            st = np.array([complex(ctx.rng.randint(-3, 3), ctx.rng.randint(-3, 3)) for _ in range(d)])
        gl = " ".join(gate_tokens(g) for g in gs)
        lines.append(f"{'PDM' if dm else 'PSV'} {n} {len(gs)} {gl} {gi_tokens(st)}")
        meta.append((n, gs, st))
    outs = run_driver(lines, driver=DRIVER)
    name = f"{ctx.prop}_corr_pipeline_{'dm' if dm else 'sv'}"
    bad = 0
    for (n, gs, st), out in zip(meta, outs):
        descr = [C01.describe(g) for g in gs]
        ctx.case(("pipe", dm, n, tuple(descr)))
        ctx.stat(f"pipe_{'dm' if dm else 'sv'}_n{n}")
        for g in gs:
            ctx.stat("pipe_branch_" + ("controlled" if g.is_controlled_by else "plain"))
        real = st.copy()
        spec = st.copy()
        for g in gs:
            U = qgates.gate_full_matrix(g, n)
            spec = (U @ spec @ U.conj().T) if dm else (U @ spec)
            try:
                if real is not None:
                    real = np.asarray(nb.apply_gate_density_matrix(g, real, n) if dm else nb.apply_gate(g, real, n))
            except Exception as e:  # noqa: BLE001 — the real method raises on a valid gate
                ctx.stat(f"pipe_real_raises_{type(e).__name__}")
                real = None
        spec = spec.reshape(-1)
        real = np.full(spec.shape, np.nan) if real is None else real.reshape(-1)
        if out.strip() == "RAISE":
            model = None
        else:
            model = parse_gi(out)
            if np.abs(model).max(initial=0) > 2**46:
                ctx.stat("skipped_large")
                continue
        if model is None or not np.array_equal(real, model):
            bad += 1
            if not np.array_equal(real, spec):
                meth = "apply_gate_density_matrix" if dm else "apply_gate"
                py = "\n".join(["import numpy as np", "from qibo import gates", "from qibo.backends import NumpyBackend", "nb = NumpyBackend()",
                                f"st = np.array({st.tolist()})"] + [f"st = nb.{meth}({_ctor(g)}, st, {n})" for g in gs]
                               + [f"expected = np.array({spec.tolist()})", "assert np.array_equal(np.asarray(st).reshape(-1), expected), st"])
                branch = "sequence" if len(gs) > 1 else ("controlled" if gs[0].is_controlled_by else "plain")
                ctx.fail(f"pipeline-{'dm' if dm else 'sv'}:{branch}",
                         f"NumpyBackend.{meth} on {descr} differs from the operator of the documented semantics (embed + controls-all-one)",
                         py, expected=str(spec.tolist()), observed=str(real.tolist()), broken=[name, *also_broken])
    ctx.ob(name, bad == 0, "correspondence", f"{bad} disagreements" if bad else "")
    ctx.sample({"suite": name, "cases": len(lines), "example": {"n": cases[0][0], "gates": [C01.describe(g) for g in cases[0][1]]}})


def run_suites(ctx):
    dm = ctx.prop == "C02"
    broken = string_suite(ctx, dm)
    broken += order_suite(ctx, dm)
    # a wrong string / axis order shows as a wrong state: the pipeline failure explains them
    pipeline_suite(ctx, dm, also_broken=broken)
    ctx.notes.append(
        "pipeline tie (QV/Model/Einsum.lean, driver DriverC01b.lean): einsum strings / control_order / reverse_order compared verbatim with einsum_utils "
        "(every ordered target tuple of length <=3 x every control subset, exhaustive n<=%d, sampled to n=6, guard boundaries at 52 labels); transliterated %s vs the real method on Gaussian-integer data"
        % (6 if ctx.thorough else 4, "apply_gate_density_matrix (incl. 4-block controlled update)" if dm else "apply_gate"))
