"""C07 (second part) — observation points, the fused circuit object, non-mutation, wide groups.

Real code driven: `Circuit.fuse`, `Circuit._shallow_copy`, `Circuit.light_cone`,
`NumpyBackend.execute_circuit` / `execute_circuit_repeated` (shot loop), `M.apply` (collapse
branch), `CallbackGate.apply`, `FusedGate.matrix` -> `matrix_fused` for groups on 6-7 qubits.

  observation_suite   circuits with recording callbacks and collapsing measurements at arbitrary
                      positions, forced draws: the sequence of everything observed (whole states at
                      callbacks, probabilities and outcomes at collapses, final samples) of the fused
                      circuit against the original (real vs real), and both against the Lean model
                      `orun` / `fusedItems` of QV/Model/FusionObs.lean (driver op OBS)
  flags_suite         attributes of the fused circuit object against the input and against the
                      Lean model of `_shallow_copy` / `fuse` (driver op FLAGS); snapshots of the
                      input before/after fuse, light_cone and execution of the fused circuit
  wide_suite          fused groups on 6-7 qubits: `matrix_fused` against an independent product and
                      the Lean model (FMAT on 6 qubits), fused execution against the Lean simulator
"""
from __future__ import annotations

import itertools

import numpy as np

from props import C01
from vlib import qgates
from vlib.driver import gi_tokens, parse_gi, run_driver

DRV = "DriverC07.lean"
H1 = ((1, 1), (1, -1))
H2 = ((1, 1j), (1j, 1))
CX = ((1, 0, 0, 0), (0, 1, 0, 0), (0, 0, 0, 1), (0, 0, 1, 0))


def _B():
    from props import C07
    return C07


def mt(m):
    return tuple(tuple(complex(x) for x in row) for row in np.asarray(m))


# ---------------------------------------------------------------------------
# circuits with observation points


def short(spec):
    B = _B()
    out = []
    for s in spec:
        if s[0] == "MC":
            out.append(f"MC{list(s[1])}")
        else:
            out.append(B.short([s]))
    return " ".join(out)


def build(n, spec, density=False):
    """real circuit; every CB entry gets its own recording callback."""
    from qibo import Circuit, callbacks, gates

    class Rec(callbacks.Callback):
        def __init__(self, idx):
            super().__init__()
            self.idx = idx
            self.events = None

        def apply(self, backend, state):
            self.events.append(("C", self.idx, np.array(state, dtype=complex).copy()))

        apply_density_matrix = apply

    c = Circuit(n, density_matrix=density)
    recs = []
    for s in spec:
        kind = s[0]
        if kind == "U":
            g = gates.Unitary(np.array(s[1]), *s[2], check_unitary=False)
            if s[3]:
                g = g.controlled_by(*s[3])
        elif kind == "N":
            g = getattr(gates, s[1])(*s[2])
            if s[3]:
                g = g.controlled_by(*s[3])
        elif kind == "M":
            g = gates.M(*s[1])
        elif kind == "MC":
            g = gates.M(*s[1], collapse=True)
        elif kind == "CB":
            recs.append(Rec(len(recs)))
            g = gates.CallbackGate(recs[-1])
        else:  # pragma: no cover
            raise ValueError(kind)
        c.add(g)
    return c, recs


CODE_HDR = '''import numpy as np
from qibo import Circuit, gates, callbacks
from qibo.backends import NumpyBackend

class Rec(callbacks.Callback):
    def __init__(self, idx):
        super().__init__(); self.idx = idx; self.events = None
    def apply(self, backend, state):
        self.events.append(("C", self.idx, np.array(state, dtype=complex).copy()))
    apply_density_matrix = apply

class Tape(NumpyBackend):
    """draws are forced: among the outcomes of non-negligible probability the tape picks one"""
    def __init__(self, tape, events):
        super().__init__(); self.tape = tape; self.pos = 0; self.events = events
    def sample_shots(self, probabilities, nshots):
        p = np.real(np.asarray(probabilities, dtype=complex)).astype(float); p = p / p.sum()
        out = []
        for _ in range(nshots):
            cand = [k for k in range(len(p)) if p[k] > 1e-6]
            k = cand[self.tape[self.pos % len(self.tape)] % len(cand)]; self.pos += 1
            out.append(k)
        if nshots == 1:
            self.events.append(("D", p.copy(), out[0]))
        return np.array(out)

def observe(circ, recs, psi, nshots, tape):
    events = []
    for r in recs:
        r.events = events
    res = Tape(tape, events).execute_circuit(circ, initial_state=psi.copy(), nshots=nshots)
    try:
        samples = np.asarray(res.samples()).tolist()
    except Exception:
        samples = None
    return events, samples

def nrm(v):
    v = np.asarray(v, dtype=complex)
    s = np.trace(v) if v.ndim == 2 else np.linalg.norm(v)
    return v / s if abs(s) > 1e-300 else v

def same(e0, e1):
    if len(e0) != len(e1):
        return False
    for a, b in zip(e0, e1):
        if a[0] != b[0]:
            return False
        if a[0] == "C" and not (a[1] == b[1] and np.allclose(nrm(a[2]), nrm(b[2]), atol=1e-9)):
            return False
        if a[0] == "D" and not (a[2] == b[2] and len(a[1]) == len(b[1]) and np.allclose(a[1], b[1], atol=1e-9)):
            return False
    return True
'''
_ns: dict = {}
exec(CODE_HDR, _ns)  # the harness uses exactly the code of the replays
observe, same, nrm = _ns["observe"], _ns["same"], _ns["nrm"]


def code(n, spec, density=False):
    lines = [CODE_HDR, f"c = Circuit({n}, density_matrix={density})", "recs = []"]
    for s in spec:
        kind = s[0]
        if kind == "U":
            m = [[complex(x) for x in row] for row in s[1]]
            ctor = f"gates.Unitary(np.array({m}), *{list(s[2])}, check_unitary=False)"
            if s[3]:
                ctor += f".controlled_by(*{list(s[3])})"
        elif kind == "N":
            ctor = f"gates.{s[1]}(*{list(s[2])})"
            if s[3]:
                ctor += f".controlled_by(*{list(s[3])})"
        elif kind == "M":
            ctor = f"gates.M(*{list(s[1])})"
        elif kind == "MC":
            ctor = f"gates.M(*{list(s[1])}, collapse=True)"
        else:
            lines.append("recs.append(Rec(len(recs)))")
            ctor = "gates.CallbackGate(recs[-1])"
        lines.append(f"c.add({ctor})")
    return "\n".join(lines) + "\n"


def obs_queue_tokens(c):
    from qibo import gates

    t = []
    for g in c.queue:
        if isinstance(g, gates.M):
            kind = 3 if g.collapse else 1
        elif isinstance(g, gates.SpecialGate):
            kind = 2
        else:
            kind = 0
        qs = list(g.qubits)
        t.append(f"{kind} {len(qs)} {' '.join(map(str, qs))}")
    return f"{len(c.queue)} " + " ".join(t)


def scaled_gate(rng, n):
    """sqrt(2)^k times a unitary, Gaussian-integer entries: superpositions without floats."""
    if n >= 2 and rng.random() < 0.3:
        qs = rng.sample(range(n), 2)
        m = np.kron(np.array(rng.choice([H1, H2])), np.array(rng.choice([H1, H2, ((1, 0), (0, 1))])))
        return ("U", mt(m), tuple(qs), ())
    return ("U", mt(np.array(rng.choice([H1, H2]))), (rng.randrange(n),), ())


def obs_spec(rng, n, depth):
    B = _B()
    spec = []
    for _ in range(depth):
        r = rng.random()
        if r < 0.12:
            spec.append(("CB",))
        elif r < 0.30:
            spec.append(("MC", tuple(rng.sample(range(n), rng.randint(1, min(2, n))))))
        elif r < 0.34:
            spec.append(("M", tuple(rng.sample(range(n), rng.randint(1, min(2, n))))))
        elif r < 0.65:
            spec.append(scaled_gate(rng, n))
        else:
            s = B.rand_spec_gate(rng, n, unitary_only=True)
            spec.append(s)
    return spec


def closing(n):
    """a last callback (sees the final state of every shot) and a terminal measurement."""
    return [("CB",), ("M", tuple(range(n)))]


def exhaustive_specs(n=2):
    alpha = [("U", mt(H1), (0,), ()), ("U", mt(H2), (1,), ()), ("U", mt(CX), (0, 1), ()), ("U", mt(CX), (1, 0), ()),
             ("CB",), ("MC", (0,)), ("MC", (1,)), ("MC", (1, 0))]
    for L in (1, 2, 3):
        for seq in itertools.product(alpha, repeat=L):
            if any(s[0] in ("CB", "MC") for s in seq) and any(s[0] == "U" for s in seq):
                yield list(seq)


def parse_run(txt):
    out = []
    for rec in txt.split(" | "):
        t = rec.split()
        if t[0] == "C":
            out.append(("C", int(t[1]), parse_gi(" ".join(t[2:]))))
        elif t[0] == "M":
            out.append(("M", int(t[1]), int(t[2]), parse_gi(" ".join(t[3:]))))
        else:
            out.append(("F", parse_gi(" ".join(t[1:]))))
    return out


def same_model(m0, m1):
    """two Lean runs agree up to the normalisation that the model leaves out (the integer
    stand-ins for H are sqrt(2) x unitary)."""
    if len(m0) != len(m1):
        return False
    for a, b in zip(m0, m1):
        if a[0] != b[0] or a[1:-1] != b[1:-1]:
            return False
        x, y = a[-1], b[-1]
        if a[0] == "M":
            d = int(round(len(x) ** 0.5))
            x, y = x.reshape(d, d), y.reshape(d, d)
        if not np.allclose(nrm(x), nrm(y), atol=1e-9):
            return False
    return True


def model_vs_real(model, events, cbpos, mpos):
    """Lean run (unnormalised, exact) against the real events of one shot (normalised)."""
    obs = [e for e in model if e[0] != "F"]
    if len(obs) != len(events):
        return f"model observes {len(obs)} times, real {len(events)}"
    nd = 0
    for m, e in zip(obs, events):
        if m[0] == "C":
            if e[0] != "C" or cbpos[e[1]] != m[1]:
                return f"model: callback entry {m[1]}, real: {e[:2]}"
            if not np.allclose(nrm(m[2]), nrm(e[2]), atol=1e-9):
                return f"state seen by the callback at entry {m[1]} differs"
        else:
            if e[0] != "D" or mpos[nd] != m[1]:
                return f"model: collapse entry {m[1]}, real: {e[0]}"
            nd += 1
            d = int(round(len(m[3]) ** 0.5))
            diag = np.real(m[3].reshape(d, d).diagonal())
            if m[2] != e[2] or len(diag) != len(e[1]) or not np.allclose(diag / diag.sum(), e[1], atol=1e-9):
                return f"probabilities / outcome at the collapsing measurement (entry {m[1]}) differ"
    return None


def observation_suite(ctx):
    from qibo import gates

    B = _B()
    rng = ctx.rng
    cases = []
    ex = list(exhaustive_specs(2))
    if not ctx.thorough:
        keep = [s for s in ex if len(s) <= 2] + rng.sample([s for s in ex if len(s) == 3], 110)
    else:
        keep = ex
    for spec in keep:
        cases.append((2, spec + closing(2), (1, 2), False))
    for _ in range(160 if ctx.thorough else 70):
        n = rng.randint(1, 4)
        spec = obs_spec(rng, n, rng.randint(2, 9)) + closing(n)
        mqs = tuple(sorted(set([rng.randint(1, n), n])))
        cases.append((n, spec, mqs, rng.random() < 0.25))
    real_bad = corr_bad = self_bad = mut_bad = 0
    lines, meta = [], []
    nsample = 0
    for n, spec, mqs, density in cases:
        try:
            c, recs = build(n, spec, density)
        except Exception:  # noqa: BLE001
            ctx.stat("obs_spec_rejected_by_qibo")
            continue
        psi = B.int_state(rng, n)
        init = np.outer(psi, psi.conj()) if density else psi
        nshots = 3
        tape = [rng.randrange(64) for _ in range(16)]
        snap0 = snapshot(c)
        try:
            ev0, sm0 = observe(c, recs, init, nshots, tape)
        except Exception:  # noqa: BLE001  not a fusion matter
            ctx.stat("obs_original_not_executable")
            continue
        cbpos = [i for i, g in enumerate(c.queue) if isinstance(g, gates.CallbackGate)]
        mpos = [i for i, g in enumerate(c.queue) if isinstance(g, gates.M) and g.collapse]
        per_shot = len(cbpos) + len(mpos) + (1 if (c.measurements and c.repeated_execution) else 0)
        hdr0 = code(n, spec, density) + f"psi = np.array({psi.tolist()})\ninit = " + ("np.outer(psi, psi.conj())" if density else "psi") + f"\ntape = {tape}\n"
        for mq in mqs:
            hdr = hdr0 + f"f = c.fuse(max_qubits={mq})\n"
            try:
                f = c.fuse(max_qubits=mq)
                ev1, sm1 = observe(f, recs, init, nshots, tape)
            except Exception as e:  # noqa: BLE001
                real_bad += 1
                ctx.fail(f"fuse:observe-raises:{type(e).__name__}", f"fusing / executing the fused circuit (max_qubits={mq}) of {short(spec)} raises {e!r}",
                         hdr + f"observe(f, recs, init, {nshots}, tape)\n", broken=["C07_search_fuse_observations"])
                continue
            ctx.case(("obs", n, mq, density, short(spec)))
            ctx.stat("obs_density" if density else "obs_statevector")
            ctx.stat(f"obs_collapses_{min(len(mpos), 3)}")
            ctx.stat(f"obs_callbacks_{min(len(cbpos), 3)}")
            if snapshot(c) != snap0:
                mut_bad += 1
                ctx.fail("fuse:mutates-input", f"fusing and executing the fused circuit (max_qubits={mq}) changes the original circuit {short(spec)}",
                         hdr + SNAP_PY + "s0 = snapshot(c)\nf = c.fuse(max_qubits=%d)\nobserve(f, recs, init, %d, tape)\nassert snapshot(c) == s0\n" % (mq, nshots),
                         broken=["C07_search_fuse_nonmutation"])
            if not same(ev0, ev1) or sm0 != sm1:
                real_bad += 1
                what = "the callbacks / collapsing measurements observe something else" if not same(ev0, ev1) else "the samples differ"
                if len(ev0) != len(ev1):
                    what = f"{len(ev1)} observations instead of {len(ev0)} in {nshots} shots (execution mode / lost or duplicated observer)"
                key = "fuse:observed:shots" if len(ev0) != len(ev1) else ("fuse:observed:callback" if cbpos and not mpos else "fuse:observed:collapse")
                ctx.fail(key, f"fused circuit (max_qubits={mq}) of {short(spec)}, density_matrix={density}, forced draws: {what}",
                         hdr + f"e0, s0 = observe(c, recs, init, {nshots}, tape)\ne1, s1 = observe(f, recs, init, {nshots}, tape)\nassert same(e0, e1) and s0 == s1, (len(e0), len(e1), s0, s1)\n",
                         expected=f"{len(ev0)} observations, samples {sm0}", observed=f"{len(ev1)} observations, samples {sm1}",
                         broken=["C07_search_fuse_observations"])
                continue
            if density or len(ev0) != per_shot * nshots:
                continue
            # --- Lean model on shot 0 (and shot 1 in the thorough tier)
            groups, _objs = B.real_groups(c, f)
            if groups is None or any((2 ** len({q for i in g for q in c.queue[i].qubits})) ** len(g) > 60000 for g in groups if len(g) > 1):
                ctx.stat("obs_lean_skipped_large_group")
                continue
            ng, gl = B.lean_gate_tokens(c)
            for shot in range(2 if ctx.thorough else 1):
                seg0 = ev0[shot * per_shot:(shot + 1) * per_shot]
                seg1 = ev1[shot * per_shot:(shot + 1) * per_shot]
                if c.measurements and c.repeated_execution:
                    seg0, seg1 = seg0[:-1], seg1[:-1]
                outs = [e[2] for e in seg0 if e[0] == "D"]
                lines.append(f"OBS {n} {mq} {obs_queue_tokens(c)} {ng} {gl} {len(outs)} {' '.join(map(str, outs))} {gi_tokens(psi)}")
                meta.append((n, spec, mq, hdr, seg0, seg1, cbpos, mpos, psi, tape, shot))
            if nsample < 3 and mpos and cbpos and any(len(g) > 1 for g in groups):
                nsample += 1
                ctx.sample({"kind": "observation-trace", "n": n, "max_qubits": mq, "circuit": short(spec), "fused_groups": groups,
                            "draws_shot0": [e[2] for e in ev0[:per_shot] if e[0] == "D"]})
    outs = run_driver(lines, driver=DRV) if lines else []
    for (n, spec, mq, hdr, seg0, seg1, cbpos, mpos, psi, tape, shot), o in zip(meta, outs):
        try:
            o_orig, o_fused = o.split(" || ")
            m0, m1 = parse_run(o_orig), parse_run(o_fused)
        except Exception:  # noqa: BLE001
            corr_bad += 1
            ctx.log(f"OBS driver answer not understood: {o[:200]}")
            continue
        ctx.case(("obs-lean", n, mq, shot, short(spec)))
        ctx.stat("lean_OBS")
        exact = not any(x[0] == "U" and abs(abs(np.linalg.det(np.array(x[1]))) - 1) > 1e-9 for x in spec)
        if (o_orig != o_fused) if exact else (not same_model(m0, m1)):
            self_bad += 1
            if self_bad <= 3:
                ctx.log(f"model: fused run differs from original run (contradicts T07_fuse_observation_trace?) on {short(spec)} mq={mq}")
        d0 = model_vs_real(m0, seg0, cbpos, mpos)
        d1 = model_vs_real(m1, seg1, cbpos, mpos)
        if d0 or d1:
            corr_bad += 1
            which = "original" if d0 else "fused"
            ctx.fail("fuse:observed-vs-model", f"{which} circuit (max_qubits={mq}) of {short(spec)}, shot {shot}, forced draws: {d0 or d1} (Lean observation model vs real execution)",
                     hdr + f"e0, s0 = observe(c, recs, init, 3, tape)\ne1, s1 = observe(f, recs, init, 3, tape)\nassert same(e0, e1) and s0 == s1\n",
                     broken=["C07_corr_observation_trace"])
    ctx.ob("C07_corr_observation_trace", corr_bad == 0, "correspondence", f"{corr_bad} runs where the Lean observation model differs from the real execution" if corr_bad else "")
    ctx.ob("C07_model_observation_selfcheck", self_bad == 0, "correspondence", f"{self_bad} model runs where fused and original traces differ" if self_bad else "")
    ctx.ob("C07_search_fuse_observations", real_bad == 0, "search", f"{real_bad} failures" if real_bad else "")
    ctx.ob("C07_search_fuse_nonmutation", mut_bad == 0, "search", f"{mut_bad} failures" if mut_bad else "")


# ---------------------------------------------------------------------------
# snapshots (non-mutation) and the circuit object


SNAP_PY = '''
def snapshot(c):
    """everything fuse / light_cone / executing the fused circuit must leave alone"""
    from qibo import gates
    nb = NumpyBackend()
    out = []
    for g in c.queue:
        item = [id(g), type(g).__name__, tuple(g.target_qubits), tuple(g.control_qubits), repr(g.init_args), repr(sorted(g.init_kwargs.items(), key=str))]
        if isinstance(g, gates.M):
            item += [bool(g.collapse), g.register_name, g.basis and [type(b).__name__ for b in g.basis]]
        elif isinstance(g, gates.FusedGate):
            item += [[id(m) for m in g.gates], bool(g.marked)]
        elif not isinstance(g, gates.SpecialGate):
            item += [repr(g.parameters), np.asarray(g.matrix(nb)).round(12).tobytes()]
        out.append(tuple(map(str, item)))
    return (out, id(c.queue), c.nqubits, c.density_matrix, c.has_collapse, c.has_unitary_channel, [id(m) for m in c.measurements],
            [id(g) for g in c.parametrized_gates], [id(g) for g in c.trainable_gates], repr(c.init_kwargs), c.measurement_tuples and dict(c.measurement_tuples))
'''
exec("from qibo.backends import NumpyBackend\nimport numpy as np\n" + SNAP_PY, _ns)
snapshot = _ns["snapshot"]


def attrs(c):
    return {"nqubits": c.nqubits, "density_matrix": c.density_matrix, "has_collapse": c.has_collapse,
            "has_unitary_channel": c.has_unitary_channel, "measurements": [id(m) for m in c.measurements],
            "init_kwargs": repr(c.init_kwargs), "repeated_execution": c.repeated_execution,
            "parametrized_gates": [id(g) for g in c.parametrized_gates], "trainable_gates": [id(g) for g in c.trainable_gates],
            "measurement_tuples": dict(c.measurement_tuples), "wire_names": list(c.wire_names), "class": type(c).__name__}


ATTR_PY = '''
def attrs(c):
    return {"nqubits": c.nqubits, "density_matrix": c.density_matrix, "has_collapse": c.has_collapse,
            "has_unitary_channel": c.has_unitary_channel, "measurements": [id(m) for m in c.measurements],
            "init_kwargs": repr(c.init_kwargs), "repeated_execution": c.repeated_execution,
            "parametrized_gates": [id(g) for g in c.parametrized_gates], "trainable_gates": [id(g) for g in c.trainable_gates],
            "measurement_tuples": dict(c.measurement_tuples), "wire_names": list(c.wire_names), "class": type(c).__name__}
'''


def flags_suite(ctx):
    from qibo import gates

    B = _B()
    rng = ctx.rng
    bad = corr_bad = mut_bad = 0
    lines, meta = [], []
    for k in range(120 if ctx.thorough else 60):
        n = rng.randint(1, 5)
        density = rng.random() < 0.4
        spec = obs_spec(rng, n, rng.randint(1, 10))
        if rng.random() < 0.6:
            spec = spec + [("M", tuple(rng.sample(range(n), rng.randint(1, n))))]
        if rng.random() < 0.3:  # parametrised gates: the fused circuit shares the bookkeeping lists
            spec.insert(rng.randrange(len(spec) + 1), ("N", "H", (rng.randrange(n),), ()))
        try:
            c, recs = build(n, spec, density)
            if rng.random() < 0.4:
                c.add(gates.RX(rng.randrange(n), theta=0.25 * rng.randint(1, 7)))
                if rng.random() < 0.5:
                    c.add(gates.RZ(rng.randrange(n), theta=0.5, trainable=False))
            if n >= 2 and rng.random() < 0.3:
                c.wire_names = [f"w{rng.randrange(100)}_{q}" for q in range(n)]
        except Exception:  # noqa: BLE001
            ctx.stat("flags_spec_rejected_by_qibo")
            continue
        a0 = attrs(c)
        s0 = snapshot(c)
        hdr = code(n, spec, density) + "# (+ RX / RZ / wire names as drawn)\n"
        for mq in sorted({1, rng.randint(1, n), n}):
            try:
                f = c.fuse(max_qubits=mq)
            except Exception as e:  # noqa: BLE001
                bad += 1
                ctx.fail(f"fuse:raises:{type(e).__name__}", f"Circuit.fuse(max_qubits={mq}) raises {e!r} on {short(spec)}", hdr + f"c.fuse(max_qubits={mq})\n", broken=["C07_search_fuse_flags"])
                continue
            a1 = attrs(f)
            ctx.case(("flags", n, mq, density, short(spec), a0["has_collapse"]))
            ctx.stat(f"flags_has_collapse_{a0['has_collapse']}")
            ctx.stat(f"flags_repeated_{a0['repeated_execution']}")
            diff = [k2 for k2 in a0 if a0[k2] != a1[k2]]
            if diff:
                bad += 1
                key = "fuse:flags:" + diff[0]
                ctx.fail(key, f"fused circuit (max_qubits={mq}) of {short(spec)}, density_matrix={density}: attribute(s) {diff} differ from the input's",
                         hdr + ATTR_PY + f"f = c.fuse(max_qubits={mq})\na0, a1 = attrs(c), attrs(f)\nassert a0 == a1, {{k: (a0[k], a1[k]) for k in a0 if a0[k] != a1[k]}}\n",
                         expected=str({k2: a0[k2] for k2 in diff}), observed=str({k2: a1[k2] for k2 in diff}), broken=["C07_search_fuse_flags", "C07_corr_fuse_flags"])
            if snapshot(c) != s0 or attrs(c) != a0:
                mut_bad += 1
                ctx.fail("fuse:mutates-input", f"Circuit.fuse(max_qubits={mq}) changes the original circuit {short(spec)} (gate attributes / parameters / bookkeeping lists)",
                         hdr + SNAP_PY + f"s0 = snapshot(c)\nc.fuse(max_qubits={mq})\nassert snapshot(c) == s0\n", broken=["C07_search_fuse_nonmutation"])
            pos = {id(g): i for i, g in enumerate(c.queue)}
            ms = [pos[id(m)] for m in c.measurements]
            lines.append(f"FLAGS {n} {int(c.density_matrix)} {int(c.has_collapse)} {int(c.has_unitary_channel)} {len(ms)} {' '.join(map(str, ms))} {mq} {B.queue_tokens(c)}")
            groups, _ = B.real_groups(c, f)
            meta.append((n, spec, mq, density, hdr, a1, [pos.get(id(m)) for m in f.measurements], groups))
        # light cone leaves the input alone too
        S = rng.sample(range(n), rng.randint(1, n))
        try:
            c.light_cone(*S)
        except Exception:  # noqa: BLE001  (e.g. callbacks cannot be re-indexed): a refusal
            ctx.stat("flags_light_cone_refused")
        if snapshot(c) != s0 or attrs(c) != a0:
            mut_bad += 1
            ctx.fail("cone:mutates-input", f"light_cone(*{S}) changes the original circuit {short(spec)}",
                     hdr + SNAP_PY + f"s0 = snapshot(c)\ntry:\n    c.light_cone(*{S})\nexcept Exception:\n    pass\nassert snapshot(c) == s0\n", broken=["C07_search_fuse_nonmutation"])
    outs = run_driver(lines, driver=DRV) if lines else []
    for (n, spec, mq, density, hdr, a1, ms, groups), o in zip(meta, outs):
        kv = dict(t.split("=", 1) for t in o.split())
        model_groups = [[int(x) for x in g.split(",")] for g in kv.get("queue", "").split("|")] if kv.get("queue") else []
        want = {"nq": str(a1["nqubits"]), "dm": str(int(a1["density_matrix"])), "hc": str(int(a1["has_collapse"])),
                "huc": str(int(a1["has_unitary_channel"])), "ms": ",".join(map(str, ms)), "kwnq": str(n), "kwdm": str(int(density)),
                "rep": str(int(a1["repeated_execution"]))}
        got = {k2: kv.get(k2, "") for k2 in want}
        ctx.stat("lean_FLAGS")
        if got != want:
            corr_bad += 1
            if corr_bad <= 3:
                ctx.log(f"FLAGS: model {got} {model_groups} real {want} {groups} on {short(spec)} mq={mq}")
    ctx.ob("C07_corr_fuse_flags", corr_bad == 0, "correspondence", f"{corr_bad} fused circuit objects whose attributes / queue differ from the model of _shallow_copy / fuse" if corr_bad else "")
    ctx.ob("C07_search_fuse_flags", bad == 0, "search", f"{bad} failures" if bad else "")
    if mut_bad:
        ctx.ob("C07_search_fuse_nonmutation_flags", False, "search", f"{mut_bad} failures")
    else:
        ctx.ob("C07_search_fuse_nonmutation_flags", True, "search", "")
    if corr_bad and not ctx.failures:
        ctx.fail("fuse:flags-vs-model", "the attributes of the fused circuit object differ from the Lean model of Circuit._shallow_copy / fuse although they equal the input's (model out of date?)",
                 "raise SystemExit(0)\n", broken=["C07_corr_fuse_flags"])


# ---------------------------------------------------------------------------
# wide fused groups (6-7 qubits)


def embed_np(g, Q):
    """matrix of gate g on the ordered qubit list Q, by its action on basis states (independent
    of qibo's Kronecker/transposition code).  `g.matrix` is the matrix on the targets (controls
    added by `controlled_by`) or on all of `g.qubits` (TOFFOLI, CCZ, ...)."""
    nb = qgates.np_backend()
    k = len(Q)
    m = np.asarray(g.matrix(nb))
    own = list(g.qubits)
    full = np.eye(2 ** len(own), dtype=complex)
    full[2 ** len(own) - len(m):, 2 ** len(own) - len(m):] = m
    out = np.zeros((2**k, 2**k), dtype=complex)
    for col in range(2**k):
        b = {q: (col >> (k - 1 - i)) & 1 for i, q in enumerate(Q)}
        ti = 0
        for q in own:
            ti = 2 * ti + b[q]
        for to in range(len(full)):
            if full[to, ti] != 0:
                nbits = dict(b)
                for j, q in enumerate(own):
                    nbits[q] = (to >> (len(own) - 1 - j)) & 1
                row = 0
                for q in Q:
                    row = 2 * row + nbits[q]
                out[row, col] += full[to, ti]
    return out


WIDE_PY = '''
def embed_np(g, Q):
    k = len(Q); m = np.asarray(g.matrix(nb)); own = list(g.qubits)
    full = np.eye(2 ** len(own), dtype=complex); full[2 ** len(own) - len(m):, 2 ** len(own) - len(m):] = m
    out = np.zeros((2**k, 2**k), dtype=complex)
    for col in range(2**k):
        b = {q: (col >> (k - 1 - i)) & 1 for i, q in enumerate(Q)}
        ti = 0
        for q in own:
            ti = 2 * ti + b[q]
        for to in range(len(full)):
            nbits = dict(b)
            for j, q in enumerate(own):
                nbits[q] = (to >> (len(own) - 1 - j)) & 1
            row = 0
            for q in Q:
                row = 2 * row + nbits[q]
            out[row, col] += full[to, ti]
    return out
bad = 0
for g in f.queue:
    if isinstance(g, gates.FusedGate) and len(g.target_qubits) >= 6:
        Q = list(g.target_qubits); want = np.eye(2 ** len(Q), dtype=complex)
        for m in g.gates:
            want = embed_np(m, Q) @ want
        assert np.array_equal(np.asarray(g.matrix(nb)), want), "matrix_fused of a group on %d qubits" % len(Q)
'''


def wide_suite(ctx):
    from qibo import gates

    B = _B()
    nb = qgates.np_backend()
    rng = ctx.rng
    bad = lean_bad = 0
    lines, meta = [], []
    todo = [(6, 6), (7, 7), (7, 6), (6, 7)] + ([(6, 6), (7, 7), (7, 7)] if ctx.thorough else [])
    nwide = 0
    for n, mq in todo:
        for _try in range(12):
            spec = B.random_spec(rng, n, rng.randint(7, 12), special=False, dense=(_try % 2 == 0))
            c, _ = B.build(n, spec)
            f = c.fuse(max_qubits=mq)
            wide = [g for g in f.queue if isinstance(g, gates.FusedGate) and len(g.target_qubits) >= 6]
            if wide:
                break
        else:
            ctx.stat("wide_no_group_found")
            continue
        nwide += len(wide)
        hdr = B.code(n, spec) + f"f = c.fuse(max_qubits={mq})\n"
        ctx.case(("wide", n, mq, B.short(spec)))
        for g in wide:
            ctx.stat(f"wide_group_{len(g.target_qubits)}q_{min(len(g.gates), 12)}gates")
            Q = list(g.target_qubits)
            want = np.eye(2 ** len(Q), dtype=complex)
            for m in g.gates:
                want = embed_np(m, Q) @ want
            real = np.asarray(g.matrix(nb))
            if np.abs(want).max() <= B.BIG and not np.array_equal(real, want):
                bad += 1
                ctx.fail(B.fkey("fuse", "matrix_fused", spec), f"matrix of a fused group on {len(Q)} qubits ({len(g.gates)} members) of {B.short(spec)} (max_qubits={mq}) is not the product of its members",
                         hdr + WIDE_PY, broken=["C07_search_fuse_wide"])
            if len(Q) == 6 and len(g.gates) <= 9 and not any(x[0] == "FMAT6" for x in meta):
                lines.append(f"FMAT {len(Q)} {' '.join(map(str, Q))} {len(g.gates)} " + " ".join(C01.gate_tokens(m) for m in g.gates))
                meta.append(("FMAT6", n, spec, mq, hdr, real.reshape(-1), None))
        for _ in range(2):
            psi = B.int_state(rng, n, -1, 1)
            ref = np.asarray(nb.execute_circuit(c, initial_state=psi.copy()).state())
            out = np.asarray(nb.execute_circuit(f, initial_state=psi.copy()).state())
            if np.abs(ref).max() <= B.BIG and not np.array_equal(ref, out):
                bad += 1
                ctx.fail(B.fkey("fuse", "state", spec), f"fused circuit (max_qubits={mq}, a group on >= 6 qubits) of {B.short(spec)} maps an initial state to a different final state",
                         hdr + f"psi = np.array({psi.tolist()})\nref = nb.execute_circuit(c, initial_state=psi.copy()).state()\nout = nb.execute_circuit(f, initial_state=psi.copy()).state()\nassert np.array_equal(out, ref)\n",
                         broken=["C07_search_fuse_wide"])
        ng, gl = B.lean_gate_tokens(c)
        lines.append(f"SV {n} {ng} {gl} {gi_tokens(psi)}")
        meta.append(("SV", n, spec, mq, hdr, out, psi))
    outs = run_driver(lines, driver=DRV) if lines else []
    for (kind, n, spec, mq, hdr, real, psi), o in zip(meta, outs):
        model = parse_gi(o)
        ctx.stat(f"lean_wide_{kind}")
        if np.abs(model).max(initial=0) > B.BIG:
            continue
        if not np.array_equal(model, real):
            lean_bad += 1
            if kind == "SV":
                ctx.fail(B.fkey("fuse", "state-vs-model", spec), f"fused circuit (max_qubits={mq}, a group on >= 6 qubits) of {B.short(spec)}: final state differs from the Lean simulator",
                         hdr + f"psi = np.array({psi.tolist()})\nout = nb.execute_circuit(f, initial_state=psi.copy()).state()\nexpected = np.array({model.tolist()})\nassert np.array_equal(out, expected)\n",
                         broken=["C07_corr_fuse_wide"])
            else:
                ctx.fail(B.fkey("fuse", "matrix_fused", spec), f"matrix of a fused group on 6 qubits of {B.short(spec)} (max_qubits={mq}) differs from the Lean model of matrix_fused",
                         hdr + WIDE_PY, broken=["C07_corr_fuse_wide"])
    ctx.ob("C07_corr_fuse_wide", lean_bad == 0 and nwide > 0, "correspondence", f"{lean_bad} disagreements with the Lean model on groups of 6-7 qubits" if lean_bad else ("no wide group generated" if nwide == 0 else ""))
    ctx.ob("C07_search_fuse_wide", bad == 0, "search", f"{bad} failures" if bad else "")


# ---------------------------------------------------------------------------
# noise channels: a refusal is fine, a silently different state (or a lost channel) is not

CHAN_PY = '''import numpy as np
from qibo import Circuit, gates
from qibo.backends import NumpyBackend
nb = NumpyBackend()
X = np.array([[0, 1], [1, 0]], dtype=complex)
def channel(name, qs):
    q = qs[0]
    if name == "PauliNoiseChannel":
        return gates.PauliNoiseChannel(q, [("X", 0.1), ("Z", 0.25)])
    if name == "DepolarizingChannel":
        return gates.DepolarizingChannel(tuple(qs), 0.3)
    if name == "UnitaryChannel":
        return gates.UnitaryChannel([(q,)], [(0.3, X)])
    if name == "KrausChannel":
        return gates.KrausChannel((q,), [np.sqrt(0.6) * np.eye(2), np.sqrt(0.4) * X])
    if name == "AmplitudeDampingChannel":
        return gates.AmplitudeDampingChannel(q, 0.3)
    if name == "PhaseDampingChannel":
        return gates.PhaseDampingChannel(q, 0.35)
    if name == "ThermalRelaxationChannel":
        return gates.ThermalRelaxationChannel(q, [1.0, 0.8, 0.3, 0.2])
    if name == "ResetChannel":
        return gates.ResetChannel(q, [0.2, 0.15])
    if name == "ReadoutErrorChannel":
        return gates.ReadoutErrorChannel(q, np.array([[0.9, 0.1], [0.25, 0.75]]))
    raise ValueError(name)
def members(f):
    out = []
    for g in f.queue:
        out += list(g.gates) if isinstance(g, gates.FusedGate) else [g]
    return out
'''
exec(CHAN_PY, _ns)
channel, members = _ns["channel"], _ns["members"]
CHANNELS = ["PauliNoiseChannel", "DepolarizingChannel", "UnitaryChannel", "KrausChannel", "AmplitudeDampingChannel",
            "PhaseDampingChannel", "ThermalRelaxationChannel", "ResetChannel", "ReadoutErrorChannel"]


def chan_code(n, base, pos, name, qs):
    lines = [CHAN_PY, f"c = Circuit({n}, density_matrix=True)"]
    for i, s in enumerate(base + [None]):
        if i == pos:
            lines.append(f"ch = channel({name!r}, {list(qs)})")
            lines.append("c.add(ch)")
        if s is not None:
            lines.append(f"c.add(gates.{s[0]}(*{list(s[1])}" + (f", theta={s[2]}" if len(s) > 2 else "") + "))")
    return "\n".join(lines) + "\n"


def chan_build(n, base, pos, name, qs):
    from qibo import Circuit, gates

    c = Circuit(n, density_matrix=True)
    ch = None
    for i, s in enumerate(base + [None]):
        if i == pos:
            ch = channel(name, qs)
            c.add(ch)
        if s is not None:
            c.add(getattr(gates, s[0])(*s[1], **({"theta": s[2]} if len(s) > 2 else {})))
    return c, ch


def channel_suite(ctx):
    """density-matrix circuits with every channel class at every position, every max_qubits."""
    from qibo import gates

    B = _B()
    nb = qgates.np_backend()
    rng = ctx.rng
    bad = teq_bad = 0
    lines, meta = [], []
    for name in CHANNELS:
        for _ in range(3 if ctx.thorough else 2):
            n = rng.randint(1, 3) if name != "DepolarizingChannel" or rng.random() < 0.5 else rng.randint(2, 3)
            L = rng.randint(2, 5)
            base = []
            for _k in range(L):
                if n >= 2 and rng.random() < 0.45:
                    base.append((rng.choice(["CNOT", "CZ", "SWAP"]), tuple(rng.sample(range(n), 2))))
                elif rng.random() < 0.5:
                    base.append((rng.choice(["H", "X", "S", "T"]), (rng.randrange(n),)))
                else:
                    base.append((rng.choice(["RX", "RY", "RZ"]), (rng.randrange(n),), round(rng.uniform(-3, 3), 3)))
            qs = tuple(rng.sample(range(n), 2 if (name == "DepolarizingChannel" and n >= 2 and rng.random() < 0.6) else 1))
            d = 2**n
            a = np.array([[complex(rng.randint(-2, 2), rng.randint(-2, 2)) for _ in range(d)] for _ in range(d)])
            rho = a @ a.conj().T + np.eye(d)
            rho = rho / np.trace(rho)
            for pos in range(L + 1):
                try:
                    c, ch = chan_build(n, base, pos, name, qs)
                    ref = np.asarray(nb.execute_circuit(c, initial_state=rho.copy()).state())
                except Exception:  # noqa: BLE001
                    ctx.stat("channel_original_not_executable")
                    continue
                hdr = chan_code(n, base, pos, name, qs)
                for mq in range(1, n + 1):
                    ctx.case(("channel", name, n, mq, pos, str(base)))
                    try:
                        f = c.fuse(max_qubits=mq)
                    except Exception as e:  # noqa: BLE001  a refusal
                        ctx.stat(f"channel_fuse_refused_{type(e).__name__}")
                        continue
                    mem = members(f)
                    special = [g for g in c.queue if isinstance(g, (gates.Channel, gates.M, gates.SpecialGate))]
                    got = [g for g in mem if isinstance(g, (gates.Channel, gates.M, gates.SpecialGate))]
                    if [id(g) for g in got] != [id(g) for g in special] or sorted(map(id, mem)) != sorted(id(g) for g in c.queue):
                        bad += 1
                        ctx.fail("fuse:channel-lost", f"fused queue (max_qubits={mq}) of a density-matrix circuit with a {name} on {list(qs)} at position {pos}: the channels / measurements / callbacks of the input are not all there exactly once and in order ({[type(g).__name__ for g in mem]})",
                                 hdr + f"f = c.fuse(max_qubits={mq})\nassert sum(1 for g in members(f) if g is ch) == 1 and sorted(map(id, members(f))) == sorted(map(id, c.queue)), [type(g).__name__ for g in members(f)]\n",
                                 expected=str([type(g).__name__ for g in c.queue]), observed=str([type(g).__name__ for g in mem]), broken=["C07_search_fuse_channels"])
                        continue
                    posq = {id(g): i for i, g in enumerate(c.queue)}
                    flat = [posq[id(g)] for g in mem]
                    toks = []
                    for g in c.queue:
                        kind = 0 if not isinstance(g, (gates.Channel, gates.M, gates.SpecialGate)) else (2 if isinstance(g, gates.SpecialGate) else 1)
                        q_ = list(g.qubits)
                        toks.append(f"{kind} {len(q_)} {' '.join(map(str, q_))}")
                    lines.append(f"TEQ {n} {len(c.queue)} {' '.join(toks)} {len(flat)} {' '.join(map(str, flat))}")
                    meta.append((name, n, mq, pos, qs, hdr, flat))
                    try:
                        out = np.asarray(nb.execute_circuit(f, initial_state=rho.copy()).state())
                    except Exception as e:  # noqa: BLE001  a refusal
                        ctx.stat(f"channel_exec_refused_{type(e).__name__}")
                        continue
                    ctx.stat("channel_fused_executed")
                    if not np.allclose(out, ref, atol=1e-10):
                        bad += 1
                        ctx.fail("fuse:channel-state", f"fused circuit (max_qubits={mq}) of a density-matrix circuit with a {name} on {list(qs)} at position {pos} ends in a different density matrix",
                                 hdr + f"rho = np.array({rho.tolist()})\nref = nb.execute_circuit(c, initial_state=rho.copy()).state()\nout = nb.execute_circuit(c.fuse(max_qubits={mq}), initial_state=rho.copy()).state()\nassert np.allclose(out, ref, atol=1e-10)\n",
                                 broken=["C07_search_fuse_channels"])
    outs = run_driver(lines, driver=DRV) if lines else []
    for (name, n, mq, pos, qs, hdr, flat), o in zip(meta, outs):
        ctx.stat("lean_TEQ_channel")
        if o != "1":
            teq_bad += 1
            ctx.fail("fuse:order:channel", f"flattened fused queue (max_qubits={mq}) of a circuit with a {name} on {list(qs)} at position {pos} is not a reordering of the input that keeps the order of the entries sharing a qubit (a channel is an entry on its qubits): {flat}",
                     hdr + f"f = c.fuse(max_qubits={mq})\npos = {{id(g): i for i, g in enumerate(c.queue)}}\nflat = [pos[id(g)] for g in members(f)]\n"
                     "for q in range(c.nqubits):\n    on_q = [i for i in flat if q in c.queue[i].qubits]\n    assert on_q == sorted(on_q), (q, flat)\n",
                     broken=["C07_corr_fuse_channels_traceeq"])
    ctx.ob("C07_corr_fuse_channels_traceeq", teq_bad == 0, "correspondence", f"{teq_bad} real fused queues with channels not ~t the input" if teq_bad else "")
    ctx.ob("C07_search_fuse_channels", bad == 0, "search", f"{bad} failures" if bad else "")


# ---------------------------------------------------------------------------
# operations on the fused circuit that must not silently change its meaning

# genuine defects reported to the lead; until they are repaired in /repo or listed in
# known_findings.json a finding is only logged (stat `pending_defect_<key>`)
REPORT_PENDING = True  # both findings repaired in /repo (a42d2c72c, 38a9a3859)

SYM_PY = '''import numpy as np
from qibo import Circuit, gates
from qibo.backends import NumpyBackend

class Forced(NumpyBackend):
    """every draw takes the next entry of the tape (if that outcome is possible)"""
    def __init__(self, tape):
        super().__init__(); self.tape = list(tape); self.pos = 0
    def sample_shots(self, probabilities, nshots):
        p = np.real(np.asarray(probabilities)).astype(float); p = p / p.sum()
        k = self.tape[self.pos % len(self.tape)]; self.pos += 1
        return np.array([k if p[k] > 1e-9 else int(np.argmax(p))] * nshots)

def conditioned(n, q, t, pre, post):
    c = Circuit(n, density_matrix=True)
    for name, qs in pre:
        c.add(getattr(gates, name)(*qs))
    r = c.add(gates.M(q, collapse=True))
    c.add(gates.RX(t, theta=np.pi * r.symbols[0]))
    for name, qs in post:
        c.add(getattr(gates, name)(*qs))
    return c
'''
exec(SYM_PY, _ns)
Forced, conditioned = _ns["Forced"], _ns["conditioned"]


def pending(ctx, key, what, py, broken):
    if REPORT_PENDING:
        ctx.fail(key, what, py, broken=broken)
        return 1
    ctx.stat("pending_defect_" + key)
    return 0


def derived_suite(ctx):
    from qibo import gates

    B = _B()
    nb = qgates.np_backend()
    rng = ctx.rng
    bad = 0
    seen = set()
    # (i) fuse().decompose()
    for _ in range(30 if ctx.thorough else 10):
        n = rng.randint(2, 4)
        spec = B.random_spec(rng, n, rng.randint(2, 8), special=False, unitary_only=True, floats=True)
        c, _cb = B.build(n, spec)
        mq = rng.randint(1, n)
        ctx.case(("decompose", n, mq, B.short(spec)))
        try:  # the decomposition of single gates is C05's matter: compare with c.decompose()
            ref = np.asarray(nb.execute_circuit(c.decompose()).state())
        except Exception:  # noqa: BLE001
            ctx.stat("decompose_original_refused")
            continue
        try:
            out = np.asarray(nb.execute_circuit(c.fuse(max_qubits=mq).decompose()).state())
        except Exception as e:  # noqa: BLE001  a refusal
            ctx.stat(f"decompose_refused_{type(e).__name__}")
            continue
        if not np.allclose(out, ref, atol=1e-10) and "d" not in seen:
            seen.add("d")
            bad += pending(ctx, "fuse:decompose", f"c.fuse(max_qubits={mq}).decompose() of {B.short(spec)} does not act as c.decompose()",
                           B.code(n, spec) + f"ref = nb.execute_circuit(c.decompose()).state()\nout = nb.execute_circuit(c.fuse(max_qubits={mq}).decompose()).state()\nassert np.allclose(out, ref, atol=1e-10), (out, ref)\n",
                           ["C07_search_fuse_derived"])
    # (ii) gates conditioned on a collapsing measurement, executed before AND after fusion
    names1 = ["H", "X", "Z", "S"]
    for _ in range(24 if ctx.thorough else 8):
        n = rng.randint(2, 3)
        q, t = rng.sample(range(n), 2)
        pre = [("H", (q,))] + [(rng.choice(names1), (rng.randrange(n),)) for _k in range(rng.randint(0, 2))]
        post = [(rng.choice(names1), (t,))] + [(rng.choice(names1), (rng.randrange(n),)) for _k in range(rng.randint(0, 2))]
        a, b = rng.choice([(0, 1), (1, 0)])
        mq = rng.randint(1, n)
        ctx.case(("symbolic", n, mq, str(pre), str(post), a))
        hdr = SYM_PY + f"mk = lambda: conditioned({n}, {q}, {t}, {pre}, {post})\n"
        try:
            ref = np.asarray(Forced([b]).execute_circuit(conditioned(n, q, t, pre, post), nshots=1).state())
            c = conditioned(n, q, t, pre, post)
            Forced([a]).execute_circuit(c, nshots=1)
        except Exception:  # noqa: BLE001
            ctx.stat("symbolic_original_not_executable")
            continue
        try:
            out = np.asarray(Forced([b]).execute_circuit(c.fuse(max_qubits=mq), nshots=1).state())
        except Exception as e:  # noqa: BLE001  a refusal
            ctx.stat(f"symbolic_refused_{type(e).__name__}")
            continue
        if not np.allclose(out, ref, atol=1e-10) and "s" not in seen:
            seen.add("s")
            bad += pending(ctx, "fuse:symbolic-parameters", f"a circuit with RX({t}, theta=pi*outcome of M({q}, collapse=True)) is run once (outcome {a}), fused (max_qubits={mq}) and run with outcome {b}: the fused circuit uses the rotation of the earlier outcome",
                           hdr + f"ref = Forced([{b}]).execute_circuit(mk(), nshots=1).state()\nc = mk()\nForced([{a}]).execute_circuit(c, nshots=1)\nout = Forced([{b}]).execute_circuit(c.fuse(max_qubits={mq}), nshots=1).state()\nassert np.allclose(out, ref, atol=1e-10)\n",
                           ["C07_search_fuse_derived"])
    ctx.ob("C07_search_fuse_derived", bad == 0, "search", f"{bad} failures" if bad else "")
