"""C04 — noise channels act as the completely positive trace-preserving map they declare.

Three ingredients (see tools/README.md):
  * theorems of lean/QV/Props/C04*.lean about the model lean/QV/Model/Channels.lean;
  * correspondence: the model (lean/DriverC04.lean) against the real qibo code — exact on
    Gaussian-integer / dyadic data (index paths of every fast path and of the generic
    path), with tolerance on real parameters (constructors of every built-in class);
  * direct search on the real code: execution == Kraus map of the channel's own operators,
    generic path == fast path, trace preservation / complete positivity, Choi / Liouville /
    Pauli-Liouville describe the executed map, representation queries change nothing;
    boundary parameter regimes of every class (props/C04_boundary.py): execution (three ways)
    == documented closed form == own Kraus map == generic path == own Liouville / Choi action,
    input array unchanged.
"""
from __future__ import annotations

import inspect
import itertools
import math
import struct

import numpy as np

from vlib import qgates
from vlib.driver import gi_tokens, parse_gi, run_driver
from vlib.proofs import build_and_audit, registry

PROP = "C04"
DRIVER = "DriverC04.lean"
TOL = 1e-9


# ---------------------------------------------------------------------------
# self-contained reference (also pasted into the replays)


def _embed(n, qubits, m):
    """2^n x 2^n operator of the local matrix m on the ordered qubit list (qubit 0 = MSB)."""
    import numpy as np

    k, N = len(qubits), 2**n
    m = np.asarray(m, dtype=complex)
    out = np.zeros((N, N), dtype=complex)
    for i in range(N):
        bi = [(i >> (n - 1 - q)) & 1 for q in range(n)]
        li = 0
        for q in qubits:
            li = 2 * li + bi[q]
        for lj in range(2**k):
            bj = list(bi)
            for t, q in enumerate(qubits):
                bj[q] = (lj >> (k - 1 - t)) & 1
            j = 0
            for q in range(n):
                j = 2 * j + bj[q]
            out[i, j] = m[li, lj]
    return out


def _kraus_ops(ch, n, nb):
    """(coefficient, full operator) pairs the channel declares; probabilistic mixtures of
    unitaries (UnitaryChannel and its subclasses) leave the state alone with the missing weight."""
    import numpy as np
    from qibo import gates

    ops = []
    for c, g in zip(ch.coefficients, ch.gates):
        ops.append((c, _embed(n, list(g.qubits), np.asarray(g.matrix(nb)))))
    if isinstance(ch, gates.UnitaryChannel):
        ops.append((1 - sum(ch.coefficients), np.eye(2**n)))
    return ops


def _kraus_map(ch, rho, n, nb):
    """sum_k c_k K_k rho K_k^dagger from the channel's own gates / coefficients."""
    out = 0
    for c, K in _kraus_ops(ch, n, nb):
        out = out + c * K @ rho @ K.conj().T
    return out


def _execute(ch, rho, n, nb):
    from qibo import Circuit

    c = Circuit(n, density_matrix=True)
    c.add(ch)
    return np.asarray(nb.execute_circuit(c, initial_state=np.array(rho, dtype=complex)).state())


HELPERS = "\n".join(inspect.getsource(f) for f in (_embed, _kraus_ops, _kraus_map, _execute))

PRELUDE = """import numpy as np
from qibo import Circuit, gates
from qibo.backends import NumpyBackend
nb = NumpyBackend()
""" + HELPERS


def replay(expr, n, rho, body):
    return (PRELUDE + f"\nn = {n}\nrho = np.array({np.asarray(rho).tolist()})\nmk = lambda: {expr}\nch = mk()\n" + body)


def mk(expr):
    from qibo import gates

    obj = eval(expr, {"gates": gates, "np": np, "math": math})  # noqa: S307 - our own strings
    try:
        obj._c04_expr = expr
    except Exception:
        pass
    return obj


def report_raise(ctx, expr, n, what, e, broken):
    """a documented call of the real code raised: a finding, not a crash of the check."""
    cls = expr.split("(")[0].replace("gates.", "")
    ctx.fail(f"raises:{cls}:{what}", f"{expr} on {n} qubits: {what} raised {type(e).__name__}: {e}",
             replay(expr, n, np.eye(2**n), "_execute(ch, rho, n, nb)\nnp.asarray(nb.apply_channel_density_matrix(mk(), rho.astype(complex), n))\n"
                    "mk().to_choi(nqubits=n); mk().to_liouville(nqubits=n); mk().to_pauli_liouville(nqubits=n)"),
             observed=f"{type(e).__name__}: {e}", broken=[broken])


# ---------------------------------------------------------------------------
# tokens


def fbits(x):
    return str(struct.unpack("<Q", struct.pack("<d", float(x)))[0])


def cbits(z):
    z = complex(z)
    return f"{fbits(z.real)} {fbits(z.imag)}"


def ftokens(arr):
    return " ".join(cbits(z) for z in np.asarray(arr).reshape(-1))


def parse_f(line):
    t = line.split()
    v = [struct.unpack("<d", struct.pack("<Q", int(x)))[0] for x in t]
    return np.array([complex(v[2 * k], v[2 * k + 1]) for k in range(len(v) // 2)])


def gate_tok(g, nb, tok):
    m = np.asarray(g.matrix(nb))
    qs = list(g.qubits)
    return f"{len(qs)} {' '.join(map(str, qs))} {tok(m)}"


def int_rho(rng, n, lim=3):
    d = 2**n
    return np.array([[complex(rng.randint(-lim, lim), rng.randint(-lim, lim)) for _ in range(d)] for _ in range(d)])


def rand_int_matrix(rng, k):
    d = 2**k
    vals = [1, -1, 1j, -1j, 2, 1 + 1j, -1 + 2j, 0, 0]
    return np.array([[rng.choice(vals) for _ in range(d)] for _ in range(d)], dtype=complex)


def placements(n, k):
    return list(itertools.permutations(range(n), k))


def arr_expr(m):
    return f"np.array({np.asarray(m).tolist()})"


# ---------------------------------------------------------------------------
# exact correspondence: index paths of the generic path and of every fast path


def exact_suite(ctx):
    from qibo import gates

    nb = qgates.np_backend()
    rng = ctx.rng
    nmax = 4 if ctx.thorough else 3
    lines, meta = [], []  # meta: (key, descr, expr/None, n, rho, real_scaled, replay_body_builder)

    def add(line, key, descr, n, rho, real, scale, expr, call):
        if real is None:  # the real code raised: already reported
            return
        lines.append(line)
        meta.append((key, descr, n, rho, real, scale, expr, call))

    def mk(expr):  # guarded twins of the module-level helpers
        try:
            return globals()["mk"](expr)
        except Exception as e:  # noqa: BLE001
            report_raise(ctx, expr, 1, "constructor", e, "C04_corr_exact")
            return None

    def _execute(ch, rho, n, nb):
        if ch is None:
            return None
        try:
            return globals()["_execute"](ch, rho, n, nb)
        except Exception as e:  # noqa: BLE001
            report_raise(ctx, getattr(ch, "_c04_expr", repr(ch)), n, "execution", e, "C04_corr_exact")
            return None

    # (a) generic Kraus path: integer operators on arbitrary ordered tuples, one tuple per operator
    for n in range(1, nmax + 1):
        tuples = [t for k in range(1, min(n, 2) + 1) for t in placements(n, k)]
        if n >= 3:
            tuples += rng.sample(placements(n, 3), 2)
        for ts in tuples:
            others = [rng.choice(tuples) for _ in range(rng.randint(0, 2))]
            tl = [ts] + others
            mats = [rand_int_matrix(rng, len(t)) for t in tl]
            expr = f"gates.KrausChannel({tl!r}, [{', '.join(arr_expr(m) for m in mats)}])"
            ch = mk(expr)
            rho = int_rho(rng, n)
            real = _execute(ch, rho, n, nb)
            terms = " ".join(f"1 0 {len(t)} {' '.join(map(str, t))} {gi_tokens(m)}" for t, m in zip(tl, mats))
            add(f"GKRAUS {n} 0 0 {len(tl)} {terms} {gi_tokens(rho)}", f"exec:KrausChannel", f"KrausChannel{tl}", n, rho, real, 1, expr, "exec")
            ctx.stat("exact_kraus")
    # operators given as Gate objects + placement list (on_qubits branch of the constructor)
    for n in range(2, nmax + 1):
        for ts in rng.sample(placements(n, 2), min(3, len(placements(n, 2)))):
            m2, m1 = rand_int_matrix(rng, 2), rand_int_matrix(rng, 1)
            q1 = rng.randrange(n)
            expr = (f"gates.KrausChannel([{ts!r}, ({q1},)], [gates.Unitary({arr_expr(m2)}, 1, 0, check_unitary=False), "
                    f"gates.Unitary({arr_expr(m1)}, 0, check_unitary=False)])")
            ch = mk(expr)
            rho = int_rho(rng, n)
            real = _execute(ch, rho, n, nb)
            # Unitary(m2, 1, 0) relabelled {1: ts[0], 0: ts[1]} acts with m2 on (ts[0], ts[1])
            terms = f"1 0 2 {ts[0]} {ts[1]} {gi_tokens(m2)} 1 0 1 {q1} {gi_tokens(m1)}"
            add(f"GKRAUS {n} 0 0 2 {terms} {gi_tokens(rho)}", "exec:KrausChannel:gates", f"KrausChannel(gates on {ts},{q1})", n, rho, real, 1, expr, "exec")
    # unitary mixtures with dyadic probabilities (scale 16)
    for n in range(1, nmax + 1):
        for ts in [t for k in range(1, min(n, 2) + 1) for t in placements(n, k)]:
            cnt = rng.randint(1, 3)
            tl = [ts] + [rng.choice(placements(n, rng.randint(1, min(n, 2)))) for _ in range(cnt - 1)]
            num = [rng.randint(0, 5) for _ in tl]
            if rng.random() < 0.25:  # probabilities summing to one exactly
                num[-1] = 16 - sum(num[:-1])
            mats = [rand_int_matrix(rng, len(t)) for t in tl]
            ops = ", ".join(f"({a}/16, {arr_expr(m)})" for a, m in zip(num, mats))
            expr = f"gates.UnitaryChannel({tl!r}, [{ops}])"
            ch = mk(expr)
            rho = int_rho(rng, n)
            real = _execute(ch, rho, n, nb)
            terms = " ".join(f"{a} 0 {len(t)} {' '.join(map(str, t))} {gi_tokens(m)}" for a, t, m in zip(num, tl, mats))
            add(f"GKRAUS {n} {16 - sum(num)} 0 {len(tl)} {terms} {gi_tokens(rho)}", "exec:UnitaryChannel", f"UnitaryChannel{tl} p={num}/16", n, rho, real, 16, expr, "exec")
            ctx.stat("exact_unitary_mixture")
    # (b) reset fast path, dyadic probabilities (scale 8)
    for n in range(1, nmax + 1):
        for q in range(n):
            for a, b in [(0, 0), (8, 0), (0, 8), (4, 4), (1, 2), (rng.randint(0, 4), rng.randint(0, 4))]:
                expr = f"gates.ResetChannel({q}, [{a}/8, {b}/8])"
                rho = int_rho(rng, n)
                real = _execute(mk(expr), rho, n, nb)
                add(f"GRESET {n} {q} {8 - a - b} 0 {a} 0 {b} 0 {gi_tokens(rho)}", "exec:ResetChannel", f"Reset q={q} p=({a},{b})/8", n, rho, real, 8, expr, "exec")
                ctx.stat("exact_reset")
    # (c) depolarizing fast path on every ordered tuple, dyadic lam (scale 16 * 2^k)
    for n in range(1, nmax + 1):
        for k in range(1, min(n, 3) + 1):
            for qs in placements(n, k):
                for a in ([0, 16, 5] if k == 1 else [rng.choice([3, 8, 16])]):
                    expr = f"gates.DepolarizingChannel({qs!r}, {a}/16)"
                    rho = int_rho(rng, n)
                    real = _execute(mk(expr), rho, n, nb)
                    sc = 16 * 2**k
                    add(f"GDEPOL {n} {k} {' '.join(map(str, qs))} {(16 - a) * 2**k} 0 {a} 0 {gi_tokens(rho)}", "exec:DepolarizingChannel", f"Depolarizing{qs} lam={a}/16", n, rho, real, sc, expr, "exec")
                    ctx.stat("exact_depol")
                    # its own Pauli operators through the constructor model (generic path)
                    if k <= 2 and (n <= 3):
                        try:
                            real2 = np.asarray(nb.apply_channel_density_matrix(mk(expr), rho.copy(), n))
                        except Exception as e:  # noqa: BLE001
                            report_raise(ctx, expr, n, "apply_channel_density_matrix", e, "C04_corr_exact")
                            real2 = None
                        sc2 = 16 * 4**k
                        add(f"GDEPOLC {n} {k} {' '.join(map(str, qs))} {sc2} 0 {a} 0 {gi_tokens(rho)}", "generic:DepolarizingChannel", f"Depolarizing{qs} lam={a}/16 generic path", n, rho, real2, sc2, expr, "generic")
    # (d) Pauli noise channel through the constructor model, dyadic probabilities (scale 16)
    for n in range(1, nmax + 1):
        for k in range(1, min(n, 2) + 1):
            for qs in placements(n, k):
                strs = ["".join(s) for s in itertools.product("IXYZ", repeat=k)]
                chosen = rng.sample(strs, rng.randint(1, min(4, len(strs))))
                num = [rng.randint(0, 4) for _ in chosen]
                ops = ", ".join(f"({s!r}, {a}/16)" for s, a in zip(chosen, num))
                expr = f"gates.PauliNoiseChannel({qs!r}, [{ops}])"
                rho = int_rho(rng, n)
                real = _execute(mk(expr), rho, n, nb)
                codes = " ".join(" ".join(str("IXYZ".index(c)) for c in s) + f" {a} 0" for s, a in zip(chosen, num))
                add(f"GPAULI {n} {k} {' '.join(map(str, qs))} 16 0 {len(chosen)} {codes} {gi_tokens(rho)}", "exec:PauliNoiseChannel", f"PauliNoise{qs} {chosen} p={num}/16", n, rho, real, 16, expr, "exec")
                ctx.stat("exact_pauli")
    # (e) thermal fast path of the regime t1 < t2: the backend function on integer matrices
    for n in range(1, nmax + 1):
        for q in range(n):
            M = np.array([[complex(rng.randint(-2, 2), rng.randint(-1, 1)) for _ in range(4)] for _ in range(4)])
            rho = int_rho(rng, n)
            g = gates.Unitary(M, q, q + n, check_unitary=False)
            expr = f"gates.Unitary({arr_expr(M)}, {q}, {q + n}, check_unitary=False)"
            try:
                real = np.asarray(nb.thermal_error_density_matrix(g, rho.copy(), n))
            except Exception as e:  # noqa: BLE001
                report_raise(ctx, expr, n, "thermal_error_density_matrix", e, "C04_corr_exact")
                real = None
            add(f"GTHERMLO {n} {q} {gi_tokens(M)} {gi_tokens(rho)}", "backend:thermal_error_density_matrix", f"thermal_error_density_matrix q={q}", n, rho, real, 1, expr, "thermal_backend")
            ctx.stat("exact_thermal_matrix")

    outs = run_driver(lines, driver=DRIVER)
    bad = 0
    for (key, descr, n, rho, real, scale, expr, call), out in zip(meta, outs):
        model = parse_gi(out).reshape(2**n, 2**n)
        ctx.case(("exact", descr, n))
        ctx.stat(f"exact_n{n}")
        if len(ctx.samples) < 4:
            ctx.sample({"suite": "exact", "n": n, "case": descr, "scale": scale})
        if not np.array_equal(real * scale, model):
            bad += 1
            exp = (model / scale).tolist()
            if call == "exec":
                body = f"out = _execute(ch, rho, n, nb)\n"
            elif call == "generic":
                body = "out = np.asarray(nb.apply_channel_density_matrix(ch, rho.astype(complex), n))\n"
            else:
                body = "out = np.asarray(nb.thermal_error_density_matrix(ch, rho.astype(complex), n))\n"
            body += f"expected = np.array({exp})\nassert np.allclose(out, expected, atol=1e-9), np.abs(out - expected).max()"
            ctx.fail(key, f"{descr} on {n} qubits: the real code differs from the model of the declared map",
                     replay(expr, n, rho, body), expected=str(exp), observed=str(real.tolist()), broken=["C04_corr_exact"])
    ctx.ob("C04_corr_exact", bad == 0, "correspondence", f"{bad} disagreements" if bad else "")
    ctx.notes.append(f"exact correspondence: Kraus / unitary-mixture / reset / depolarizing / Pauli / thermal-matrix paths on every qubit "
                     f"position and ordered tuple for n<={nmax}, Gaussian-integer operators, dyadic probabilities, non-Hermitian integer rho; {len(lines)} cases, exact comparison")


# ---------------------------------------------------------------------------
# built-in classes with real parameters: instances


def regime(expr_cls, params):
    if expr_cls == "ThermalRelaxationChannel":
        return ":T1<T2" if params[0] < params[1] else ":T1>=T2"
    return ""


def instances(ctx):
    """(cls, regime, expr, n, lean_lines) for every class x placement x parameter point.
    lean_lines: list of (tag, line-without-rho) whose answer is the model's value of the map."""
    rng = ctx.rng
    nmax = 4 if ctx.thorough else 3
    out = []
    u = lambda a, b: round(rng.uniform(a, b), 6)
    for n in range(1, nmax + 1):
        for q in range(n):
            for g in [0.0, 1.0, 0.36, u(0, 1)]:
                out.append(("AmplitudeDampingChannel", "", f"gates.AmplitudeDampingChannel({q}, {g!r})", n, [("ctor", f"FAD {n} {q} {fbits(g)}")]))
                out.append(("PhaseDampingChannel", "", f"gates.PhaseDampingChannel({q}, {g!r})", n, [("ctor", f"FPD {n} {q} {fbits(g)}")]))
            for p0, p1 in [(0.0, 0.0), (1.0, 0.0), (0.0, 1.0), (0.5, 0.5), (0.3, 0.2), (u(0, .5), u(0, .5))]:
                out.append(("ResetChannel", "", f"gates.ResetChannel({q}, [{p0!r}, {p1!r}])", n,
                            [("ctor", f"FRESETC {n} {q} {fbits(p0)} {fbits(p1)}"), ("closed", f"FRESETL {n} {q} {fbits(p0)} {fbits(p1)}")]))
            t1 = u(0.3, 2)
            thermal = [(1.0, 0.5, 0.3, 0.2), (1.0, 1.0, 0.3, 0.4), (0.7, 0.4, 0.0, 0.5), (0.9, 0.6, 0.25), (1.0, 0.8, 0.5, 1.0),
                       (t1, min(t1, u(0.05, t1)), u(0, 2), u(0, 1)),
                       # corners of the regime t1 >= t2: pure dephasing (exp(-t/T1) == 1 exactly), no excited population
                       (math.inf, 2.0, 1.0), (math.inf, 0.7, 0.4, 1.0), (1e20, 0.7, 0.4, 0.3), (math.inf, math.inf, 1.0, 0.5), (1.0, 0.5, 0.3, 0.0),
                       (0.5, 0.8, 0.3, 0.2), (0.5, 1.0, 0.3, 0.2), (0.6, 0.9, 0.4), (0.4, 0.7, 0.0, 0.3), (t1, min(2 * t1, u(t1 * 1.01, 2 * t1)), u(0, 2), u(0, 1)),
                       # edge of the admissible region t2 = 2 t1, excited population 1
                       (0.6, 1.2, 0.9, 1.0)]
            for ps in thermal:
                eta = ps[3] if len(ps) == 4 else 0.0
                args = f"{n} {q} {fbits(ps[0])} {fbits(ps[1])} {fbits(ps[2])} {fbits(eta)}"
                reg = regime("ThermalRelaxationChannel", ps)
                ll = [("closed", f"FTHERML {args}"), ("ctor", f"FTHERMC {args}")]
                plist = ", ".join("np.inf" if x == math.inf else repr(x) for x in ps)
                out.append(("ThermalRelaxationChannel", reg, f"gates.ThermalRelaxationChannel({q}, [{plist}])", n, ll))
        for k in range(1, min(n, 3) + 1):
            for qs in placements(n, k):
                mx = 4**k / (4**k - 1)
                lams = [0.0, 1.0, mx, 0.3] if k == 1 else [rng.choice([1.0, mx, u(0, 1)])]
                for lam in lams:
                    ll = [("closed", f"FDEPOLL {n} {k} {' '.join(map(str, qs))} {fbits(lam)}")]
                    if k <= 2:
                        ll.append(("ctor", f"FDEPOLC {n} {k} {' '.join(map(str, qs))} {cbits(1.0)} {cbits(lam / 4**k)}"))
                    out.append(("DepolarizingChannel", "", f"gates.DepolarizingChannel({qs!r}, {lam!r})", n, ll))
                if k <= 2:
                    strs = ["".join(s) for s in itertools.product("IXYZ", repeat=k)]
                    chosen = rng.sample(strs, rng.randint(1, min(5, len(strs))))
                    w = [rng.random() for _ in range(len(chosen) + 1)]
                    if rng.random() < 0.3:
                        w[-1] = 0.0  # probabilities summing to one: no identity weight
                    ps = [round(x / sum(w), 6) for x in w[:-1]]
                    if w[-1] == 0.0 or sum(ps) > 1:
                        ps[-1] = max(0.0, 1 - sum(ps[:-1]))
                    if rng.random() < 0.3:
                        ps[0] = 0.0
                    ops = ", ".join(f"({s!r}, {p!r})" for s, p in zip(chosen, ps))
                    codes = " ".join(" ".join(str("IXYZ".index(c)) for c in s) + " " + cbits(p) for s, p in zip(chosen, ps))
                    out.append(("PauliNoiseChannel", "", f"gates.PauliNoiseChannel({qs!r}, [{ops}])", n,
                                [("ctor", f"FPAULI {n} {k} {' '.join(map(str, qs))} {cbits(1.0)} {len(chosen)} {codes}")]))
                    # readout error: random row-stochastic matrix
                    d = 2**k
                    P = np.array([[rng.random() for _ in range(d)] for _ in range(d)])
                    if rng.random() < 0.3:
                        P[0] = 0
                        P[0, rng.randrange(d)] = 1.0
                    P = P / P.sum(axis=1, keepdims=True)
                    out.append(("ReadoutErrorChannel", "", f"gates.ReadoutErrorChannel({qs!r}, {arr_expr(P)})", n,
                                [("ctor", f"FREADOUT {n} {k} {' '.join(map(str, qs))} {' '.join(fbits(x) for x in P.reshape(-1))}")]))
    return out


def is_builtin_tp(cls):
    return cls not in ("KrausChannel",)


FAST = ("ResetChannel", "DepolarizingChannel", "ThermalRelaxationChannel")


def float_suite(ctx, insts):
    """every built-in class with real parameters: (1) execution == the Kraus map of the
    channel's own operators, (2) generic backend path == execution (fast paths),
    (3) trace preserving and completely positive, (4) == the Lean model of the constructor
    and of the documented closed form, fed only with the user's parameters."""
    nb = qgates.np_backend()
    rng = ctx.rng
    lines, meta = [], []
    def one(cls, reg, expr, n, lean):
            rho = int_rho(rng, n)
            ch = mk(expr)
            ex = _execute(ch, rho, n, nb)
            ch2 = mk(expr)
            km = _kraus_map(ch2, rho, n, nb)
            ctx.case(("float", expr, n))
            ctx.stat(f"float_{cls}{reg}")
            if len(ctx.samples) < 9 and rng.random() < 0.02:
                ctx.sample({"suite": "float", "n": n, "channel": expr})
            # (3) trace preservation of the declared operators (non-negative weights)
            ops = _kraus_ops(ch2, n, nb)
            G = sum(c * K.conj().T @ K for c, K in ops)
            tp_bad = not np.allclose(G, np.eye(2**n), atol=TOL) or any(c < -TOL for c, _ in ops)
            if tp_bad:
                ctx.fail(f"kraus-tp:{cls}{reg}", f"{expr}: the channel's own operators are not trace preserving (sum c K^dagger K != 1)",
                         replay(expr, n, rho, "G = sum(c * K.conj().T @ K for c, K in _kraus_ops(ch, n, nb))\n"
                                "assert np.allclose(G, np.eye(2**n), atol=1e-9), np.round(G, 6)"),
                         expected="identity", observed=str(np.round(G, 6).tolist()), broken=["C04_search_tp"])
            if abs(np.trace(ex) - np.trace(rho)) > TOL:
                ctx.fail(f"exec-trace:{cls}{reg}", f"{expr}: execution changes the trace",
                         replay(expr, n, rho, "out = _execute(ch, rho, n, nb)\nassert abs(np.trace(out) - np.trace(rho)) < 1e-9, (np.trace(out), np.trace(rho))"),
                         expected=str(np.trace(rho)), observed=str(np.trace(ex)), broken=["C04_search_tp"])
            # (1) execution == own Kraus map (when the declared operators are not even trace
            # preserving that defect is the root cause and is reported once, above)
            exec_bad = not np.allclose(ex, km, atol=TOL)
            if exec_bad and not tp_bad:
                ctx.fail(f"exec:{cls}{reg}", f"{expr} on {n} qubits: density-matrix execution differs from sum_k c_k K_k rho K_k^dagger of the channel's own operators",
                         replay(expr, n, rho, "out = _execute(ch, rho, n, nb)\nref = _kraus_map(mk(), rho, n, nb)\nassert np.allclose(out, ref, atol=1e-9), np.abs(out - ref).max()"),
                         expected=str(np.round(km, 9).tolist()), observed=str(np.round(ex, 9).tolist()), broken=["C04_search_exec"])
            # (2) generic path on the same class
            gen = np.asarray(nb.apply_channel_density_matrix(mk(expr), rho.astype(complex), n))
            if not np.allclose(gen, km, atol=TOL):
                ctx.fail(f"generic:{cls}{reg}", f"{expr}: apply_channel_density_matrix differs from the Kraus map of the channel's own operators",
                         replay(expr, n, rho, "out = np.asarray(nb.apply_channel_density_matrix(ch, rho.astype(complex), n))\nref = _kraus_map(mk(), rho, n, nb)\nassert np.allclose(out, ref, atol=1e-9), np.abs(out - ref).max()"),
                         expected=str(np.round(km, 9).tolist()), observed=str(np.round(gen, 9).tolist()), broken=["C04_search_exec"])
            # execution leaves the caller's state alone and is repeatable on the same object
            r0 = rho.astype(complex)
            ex2 = _execute(ch, r0, n, nb)
            if not np.array_equal(r0, rho) or not np.allclose(ex2, ex, atol=TOL):
                ctx.fail(f"repeat:{cls}{reg}", f"{expr}: a second execution of the same channel object differs / the input state is modified",
                         replay(expr, n, rho, "a = _execute(ch, rho, n, nb)\nb = _execute(ch, rho, n, nb)\nassert np.allclose(a, b, atol=1e-9)"),
                         broken=["C04_search_exec"])
            for tag, ln in lean:
                lines.append(f"{ln} {ftokens(rho)}")
                # the model is compared with the execution; where the execution is already known to
                # deviate from the (trace-preserving) declared operators, with their Kraus map
                meta.append((cls, reg, expr, n, rho, km if (exec_bad and not tp_bad) else ex, "kraus" if (exec_bad and not tp_bad) else "exec", tag))

    for cls, reg, expr, n, lean in insts:
        try:
            one(cls, reg, expr, n, lean)
        except Exception as e:  # noqa: BLE001 - the real code raised on a documented input
            report_raise(ctx, expr, n, "execution", e, "C04_search_exec")
    outs = run_driver(lines, driver=DRIVER)
    bad = 0
    for (cls, reg, expr, n, rho, ref, refname, tag), out in zip(meta, outs):
        model = parse_f(out).reshape(2**n, 2**n)
        ctx.case(("float-model", expr, n, tag))
        if not np.allclose(model, ref, atol=TOL):
            bad += 1
            what = ("constructor model (operators computed from the parameters)" if tag == "ctor" else "documented closed form")
            call = "_execute(ch, rho, n, nb)" if refname == "exec" else "_kraus_map(ch, rho, n, nb)"
            ctx.fail(f"model-{tag}:{cls}{reg}", f"{expr} on {n} qubits: {'execution' if refname == 'exec' else 'the Kraus map of the own operators'} differs from the {what}",
                     replay(expr, n, rho, f"out = {call}\nexpected = np.array({np.round(model, 12).tolist()})\n"
                            "assert np.allclose(out, expected, atol=1e-9), np.abs(out - expected).max()"),
                     expected=str(np.round(model, 9).tolist()), observed=str(np.round(ref, 9).tolist()), broken=["C04_corr_float"])
    ctx.ob("C04_corr_float", bad == 0, "correspondence", f"{bad} disagreements" if bad else "")
    ctx.ob("C04_search_exec", not any("C04_search_exec" in f["broken"] for f in ctx.failures), "search", "")
    ctx.ob("C04_search_tp", not any("C04_search_tp" in f["broken"] for f in ctx.failures), "search", "")
    ctx.notes.append(f"float suite: {len(insts)} instances (all classes x all positions / ordered tuples x boundary and random parameters), {len(lines)} model evaluations, tolerance 1e-9")


# ---------------------------------------------------------------------------
# user-defined channels with complex operators (Kraus / unitary mixtures)


def user_channels(ctx):
    rng = ctx.rng
    nmax = 4 if ctx.thorough else 3
    out = []
    nprng = np.random.default_rng(rng.randrange(2**31))
    for _ in range(30 if ctx.thorough else 12):
        n = rng.randint(1, nmax)
        cnt = rng.randint(1, 3)
        tl = [tuple(rng.sample(range(n), rng.randint(1, min(n, 2)))) for _ in range(cnt)]
        mats = [np.round(nprng.normal(size=(2**len(t), 2**len(t))) + 1j * nprng.normal(size=(2**len(t), 2**len(t))), 3) for t in tl]
        out.append(("KrausChannel", "", f"gates.KrausChannel({tl!r}, [{', '.join(arr_expr(m) for m in mats)}])", n, []))
        us = []
        for t in tl:
            a = nprng.normal(size=(2**len(t), 2**len(t))) + 1j * nprng.normal(size=(2**len(t), 2**len(t)))
            us.append(np.linalg.qr(a)[0])
        w = [rng.random() for _ in range(cnt + 1)]
        ps = [round(x / sum(w), 6) for x in w[:-1]]
        if sum(ps) > 1:
            ps[-1] = max(0.0, 1 - sum(ps[:-1]))
        ops = ", ".join(f"({p!r}, {arr_expr(u)})" for p, u in zip(ps, us))
        out.append(("UnitaryChannel", "", f"gates.UnitaryChannel({tl!r}, [{ops}])", n, []))
    return out


def user_suite(ctx, insts):
    nb = qgates.np_backend()
    lines, meta = [], []
    for cls, reg, expr, n, _ in insts:
        rho = int_rho(ctx.rng, n)
        try:
            ch = mk(expr)
            ex = _execute(ch, rho, n, nb)
            km = _kraus_map(mk(expr), rho, n, nb)
        except Exception as e:  # noqa: BLE001
            report_raise(ctx, expr, n, "execution", e, "C04_search_exec")
            continue
        ctx.case(("user", expr[:80], n))
        ctx.stat(f"float_{cls}")
        if not np.allclose(ex, km, atol=TOL):
            ctx.fail(f"exec:{cls}", f"{expr}: execution differs from the Kraus map of the given operators",
                     replay(expr, n, rho, "out = _execute(ch, rho, n, nb)\nref = _kraus_map(mk(), rho, n, nb)\nassert np.allclose(out, ref, atol=1e-9), np.abs(out - ref).max()"),
                     broken=["C04_search_exec"])
        c0 = 1 - sum(ch.coefficients) if cls == "UnitaryChannel" else 0.0
        terms = " ".join(f"{cbits(c)} {gate_tok(g, nb, ftokens)}" for c, g in zip(ch.coefficients, ch.gates))
        lines.append(f"FKRAUS {n} {cbits(c0)} {len(ch.gates)} {terms} {ftokens(rho)}")
        meta.append((cls, expr, n, rho, ex))
    outs = run_driver(lines, driver=DRIVER)
    bad = 0
    for (cls, expr, n, rho, ex), out in zip(meta, outs):
        model = parse_f(out).reshape(2**n, 2**n)
        if not np.allclose(model, ex, atol=TOL):
            bad += 1
            ctx.fail(f"model-kraus:{cls}", f"{expr}: execution differs from the model's Kraus map",
                     replay(expr, n, rho, f"out = _execute(ch, rho, n, nb)\nexpected = np.array({np.round(model, 12).tolist()})\nassert np.allclose(out, expected, atol=1e-9)"),
                     broken=["C04_corr_user"])
    ctx.ob("C04_corr_user", bad == 0, "correspondence", f"{bad} disagreements" if bad else "")


# ---------------------------------------------------------------------------
# superoperator views


def _views_from_map(E, n):
    """every representation the channel offers, computed entry by entry from a map E on
    matrices (E is evaluated on the matrix units and on the Pauli matrices)."""
    import itertools
    import numpy as np

    D = 2**n
    Lrow = np.zeros((D * D, D * D), dtype=complex)
    Lcol = np.zeros((D * D, D * D), dtype=complex)
    for k in range(D):
        for l in range(D):
            b = np.zeros((D, D), dtype=complex)
            b[k, l] = 1
            m = np.asarray(E(b))
            Lrow[:, k * D + l] = m.reshape(-1)  # L[(i,j),(k,l)] = E(|k><l|)[i,j]
            Lcol[:, l * D + k] = m.T.reshape(-1)
    Crow = Lrow.reshape(D, D, D, D).swapaxes(1, 2).reshape(D * D, D * D)
    Ccol = Lcol.reshape(D, D, D, D).swapaxes(0, 3).reshape(D * D, D * D)
    # block-wise ("system") vectorisation is a fixed permutation of the row vectorisation
    axes = [a for q in range(n) for a in (q + n, q)]
    perm = np.transpose(np.arange(D * D).reshape([2] * (2 * n)), axes).reshape(-1)
    Csys = Crow[np.ix_(perm, perm)]
    s = {"I": np.eye(2), "X": np.array([[0, 1], [1, 0]]), "Y": np.array([[0, -1j], [1j, 0]]), "Z": np.diag([1, -1])}
    ps = []
    for lab in itertools.product("IXYZ", repeat=n):
        m = np.array([[1.0 + 0j]])
        for c in lab:
            m = np.kron(m, s[c])
        ps.append(m)
    PL = np.array([[np.trace(pa.conj().T @ np.asarray(E(pb))) for pb in ps] for pa in ps])
    return {
        "to_choi(nqubits=n)": Crow,
        "to_choi(nqubits=n, order='column')": Ccol,
        "to_choi(nqubits=n, order='system')": Csys,
        "to_liouville(nqubits=n)": Lrow,
        "to_liouville(nqubits=n, order='column')": Lcol,
        "to_pauli_liouville(nqubits=n)": PL,
        "to_pauli_liouville(nqubits=n, normalize=True)": PL / D,
    }


VIEW_HELPER = inspect.getsource(_views_from_map)


def check_views(ctx, cls, reg, expr, n):
    """to_choi / to_liouville / to_pauli_liouville of a fresh channel describe the map
    sum_k c_k K_k . K_k^dagger of the channel's own operators (its equality with the execution
    is checked on the same instances by the float suite): every entry of every view is
    determined by that map on the matrix units / Pauli matrices.  Complete positivity is
    checked on the *executed* map."""
    nb = qgates.np_backend()
    D = 2**n
    refs = _views_from_map(lambda r: _kraus_map(mk(expr), r, n, nb), n)
    results = {}
    for call, ref in refs.items():
        ch = mk(expr)
        body = (VIEW_HELPER + f"\nrefs = _views_from_map(lambda r: _kraus_map(mk(), r, n, nb), n)\nV = np.asarray(ch.{call})\n"
                f"ref = refs[{call!r}]\nassert V.shape == ref.shape and np.allclose(V, ref, atol=1e-9), np.abs(V - ref).max()")
        try:
            got = np.asarray(eval("ch." + call, {"ch": ch, "n": n}))  # noqa: S307
        except Exception as e:  # a documented call raised
            ctx.fail(f"views-raise:{cls}{reg}:{call.split('(')[0]}", f"{expr}.{call} raised {type(e).__name__}: {e}",
                     replay(expr, n, np.eye(D), body), broken=["C04_search_views"])
            continue
        results[call] = got
        ctx.case(("view", expr[:80], n, call))
        ctx.stat("views_checked")
        if got.shape != ref.shape or not np.allclose(got, ref, atol=TOL):
            ctx.fail(f"views:{cls}{reg}:{call.split('(')[0]}", f"{expr}: {call} on {n} qubits does not describe the map of the channel's own operators",
                     replay(expr, n, np.eye(D), body), expected=str(np.round(ref, 6).tolist())[:1500], observed=str(np.round(got, 6).tolist())[:1500],
                     broken=["C04_search_views"])
    # complete positivity of the executed map: its Choi matrix is Hermitian PSD
    if is_builtin_tp(cls):
        Crow = _views_from_map(lambda r: _execute(mk(expr), r, n, nb), n)["to_choi(nqubits=n)"]
        ev = np.linalg.eigvalsh((Crow + Crow.conj().T) / 2)
        if ev.min() < -1e-9 or not np.allclose(Crow, Crow.conj().T, atol=TOL):
            ctx.fail(f"cp:{cls}{reg}", f"{expr}: the executed map is not completely positive (Choi eigenvalue {ev.min():.3g})",
                     replay(expr, n, np.eye(D), VIEW_HELPER + "\nC = _views_from_map(lambda r: _execute(mk(), r, n, nb), n)['to_choi(nqubits=n)']\n"
                            "assert np.allclose(C, C.conj().T, atol=1e-9) and np.linalg.eigvalsh((C + C.conj().T) / 2).min() > -1e-9"),
                     broken=["C04_search_tp"])
    return results


def views_suite(ctx, insts, users):
    nb = qgates.np_backend()
    rng = ctx.rng
    # one instance per (class, regime, n) bucket, n <= 2 (3 in the thorough tier for 1-qubit classes)
    buckets = {}
    for it in insts + users:
        cls, reg, expr, n, _ = it
        if n > (3 if ctx.thorough else 2):
            continue
        buckets.setdefault((cls, reg, n), []).append(it)
    chosen = []
    for key in sorted(buckets):
        pool = buckets[key]
        chosen += rng.sample(pool, min(len(pool), 3 if key[2] <= 2 else 1))
    lines, meta = [], []
    for cls, reg, expr, n, _ in chosen:
        try:
            res = check_views(ctx, cls, reg, expr, n)
        except Exception as e:  # noqa: BLE001
            report_raise(ctx, expr, n, "execution", e, "C04_search_views")
            continue
        # default nqubits (1 + max target) is the same map on the smaller register
        ch = mk(expr)
        m = 1 + max(ch.target_qubits)
        if m < n:
            a = np.asarray(mk(expr).to_liouville())
            b = np.asarray(mk(expr).to_liouville(nqubits=m))
            if a.shape != b.shape or not np.allclose(a, b, atol=TOL):
                ctx.fail(f"views-default-n:{cls}{reg}", f"{expr}: to_liouville() differs from to_liouville(nqubits={m})",
                         replay(expr, m, np.eye(2**m), f"assert np.allclose(mk().to_liouville(), mk().to_liouville(nqubits={m}))"), broken=["C04_search_views"])
        # the model of to_choi / to_liouville / to_pauli_liouville on the channel's own operators
        if n <= 2 and res:
            add_id = 0
            c0 = 0.0
            if cls not in ("KrausChannel", "ReadoutErrorChannel"):
                c0 = 1 - sum(ch.coefficients)
                add_id = 1 if c0 > 1e-8 else 0
            terms = " ".join(f"{cbits(c)} {gate_tok(g, nb, ftokens)}" for c, g in zip(ch.coefficients, ch.gates))
            for kind, col, name in [(0, 0, "to_choi(nqubits=n)"), (0, 1, "to_choi(nqubits=n, order='column')"), (1, 0, "to_liouville(nqubits=n)"),
                                    (1, 1, "to_liouville(nqubits=n, order='column')"), (2, 0, "to_pauli_liouville(nqubits=n)")]:
                if name in res and (kind != 2 or n == 1 or rng.random() < 0.3):
                    lines.append(f"FVIEW {kind} {n} {col} {add_id} {cbits(c0)} {len(ch.gates)} {terms}")
                    meta.append((cls, reg, expr, n, name, res[name]))
    # exact views of integer Kraus channels
    for _ in range(8 if ctx.thorough else 4):
        n = rng.randint(1, 2)
        tl = [tuple(rng.sample(range(n), rng.randint(1, n))) for _ in range(rng.randint(1, 2))]
        mats = [rand_int_matrix(rng, len(t)) for t in tl]
        expr = f"gates.KrausChannel({tl!r}, [{', '.join(arr_expr(m) for m in mats)}])"
        terms = " ".join(f"1 0 {len(t)} {' '.join(map(str, t))} {gi_tokens(m)}" for t, m in zip(tl, mats))
        for kind, col, call in [(0, 0, "to_choi(nqubits=n)"), (0, 1, "to_choi(nqubits=n, order='column')"), (1, 0, "to_liouville(nqubits=n)"),
                                (1, 1, "to_liouville(nqubits=n, order='column')"), (2, 0, "to_pauli_liouville(nqubits=n)")]:
            lines.append(f"GVIEW {kind} {n} {col} 0 0 0 {len(tl)} {terms}")
            meta.append(("KrausChannel", ":int", expr, n, call, np.asarray(eval("ch." + call, {"ch": mk(expr), "n": n}))))  # noqa: S307
    outs = run_driver(lines, driver=DRIVER)
    bad = 0
    for (cls, reg, expr, n, name, real), out in zip(meta, outs):
        model = (parse_gi(out) if reg == ":int" else parse_f(out)).reshape(real.shape)
        ctx.case(("view-model", expr[:80], n, name))
        if not np.allclose(model, real, atol=TOL):
            bad += 1
            ctx.fail(f"model-views:{cls}{reg}:{name.split('(')[0]}", f"{expr}: {name} differs from the model's superoperator of the channel's own operators",
                     replay(expr, n, np.eye(2**n), f"V = np.asarray(ch.{name})\nexpected = np.array({np.round(model, 12).tolist()})\nassert np.allclose(V, expected, atol=1e-9), np.abs(V - expected).max()"),
                     expected=str(np.round(model, 6).tolist())[:1500], observed=str(np.round(real, 6).tolist())[:1500], broken=["C04_corr_views"])
    ctx.ob("C04_corr_views", bad == 0, "correspondence", f"{bad} disagreements" if bad else "")
    ctx.ob("C04_search_views", not any("C04_search_views" in f["broken"] for f in ctx.failures), "search", "")
    ctx.notes.append(f"views: {len(chosen)} channel instances x 7 representations checked entrywise against the Kraus map of the channel's own operators (= the executed map, float suite) on matrix units / Paulis; complete positivity of the executed map; {len(lines)} model evaluations")


# ---------------------------------------------------------------------------
# query invariance: representation queries never change the simulation


QUERIES = [
    ("to_choi()", lambda c, n: c.to_choi()),
    ("to_choi(nqubits=n)", lambda c, n: c.to_choi(nqubits=n)),
    ("to_choi(nqubits=n, order='column')", lambda c, n: c.to_choi(nqubits=n, order="column")),
    ("to_choi(nqubits=n, order='system')", lambda c, n: c.to_choi(nqubits=n, order="system")),
    ("to_liouville()", lambda c, n: c.to_liouville()),
    ("to_liouville(nqubits=n, order='column')", lambda c, n: c.to_liouville(nqubits=n, order="column")),
    ("to_pauli_liouville()", lambda c, n: c.to_pauli_liouville()),
    ("to_pauli_liouville(nqubits=n, normalize=True)", lambda c, n: c.to_pauli_liouville(nqubits=n, normalize=True)),
]


def query_suite(ctx, insts, users):
    from qibo import Circuit

    nb = qgates.np_backend()
    rng = ctx.rng
    buckets = {}
    for it in insts + users:
        cls, reg, expr, n, _ = it
        if n <= 3:
            buckets.setdefault((cls, reg), []).append(it)
    per = 10 if ctx.thorough else 4
    three = [QUERIES[1], QUERIES[4], QUERIES[6]]
    for key in sorted(buckets):
        pool = buckets[key]
        picks = rng.sample(pool, min(per, len(pool)))
        def one_pick(idx, cls, reg, expr, n):
            rho = int_rho(rng, n)
            fresh = _execute(mk(expr), rho, n, nb)
            fresh_gen = np.asarray(nb.apply_channel_density_matrix(mk(expr), rho.astype(complex), n))
            # all orders of the three methods on the first pick, a random history otherwise
            if idx == 0:
                histories = [list(p) for p in itertools.permutations(three)]
            else:
                histories = [[rng.choice(QUERIES + [("execute", None)]) for _ in range(rng.randint(1, 6))] for _ in range(2)]
            for hist in histories:
                ch = mk(expr)
                first_views = {}
                names = []
                ok = True
                for name, fn in hist:
                    names.append(name)
                    if fn is None:
                        out = _execute(ch, rho, n, nb)
                        ok = ok and np.allclose(out, fresh, atol=TOL)
                    else:
                        v = np.asarray(fn(ch, n))
                        if name in first_views and not np.allclose(first_views[name], v, atol=TOL):
                            ok = False
                        first_views.setdefault(name, v)
                        # a repeated query returns the same matrix
                        v2 = np.asarray(fn(ch, n))
                        ok = ok and np.allclose(v, v2, atol=TOL)
                after = _execute(ch, rho, n, nb)
                after_gen = np.asarray(nb.apply_channel_density_matrix(ch, rho.astype(complex), n))
                # inside a circuit executed twice
                c = Circuit(n, density_matrix=True)
                c.add(ch)
                r1 = np.asarray(nb.execute_circuit(c, initial_state=rho.astype(complex)).state())
                r2 = np.asarray(nb.execute_circuit(c, initial_state=rho.astype(complex)).state())
                ctx.case(("query", expr[:80], n, tuple(names)))
                ctx.stat("query_histories")
                good = (ok and np.allclose(after, fresh, atol=TOL) and np.allclose(after_gen, fresh_gen, atol=TOL)
                        and np.allclose(r1, fresh, atol=TOL) and np.allclose(r2, fresh, atol=TOL))
                if not good:
                    calls = "\n".join(("_execute(ch, rho, n, nb)" if nm == "execute" else f"ch.{nm}") for nm in names)
                    body = (calls + "\nafter = _execute(ch, rho, n, nb)\nfresh = _execute(mk(), rho, n, nb)\n"
                            "assert np.allclose(after, fresh, atol=1e-9), np.abs(after - fresh).max()\n"
                            "g1 = np.asarray(nb.apply_channel_density_matrix(ch, rho.astype(complex), n))\n"
                            "g2 = np.asarray(nb.apply_channel_density_matrix(mk(), rho.astype(complex), n))\n"
                            "assert np.allclose(g1, g2, atol=1e-9), np.abs(g1 - g2).max()\n"
                            "assert np.allclose(ch.to_choi(nqubits=n), mk().to_choi(nqubits=n), atol=1e-9)")
                    ctx.fail(f"query:{cls}{reg}", f"{expr}: after the calls {names} the channel simulates / reports differently from a fresh one",
                             replay(expr, n, rho, body), broken=["C04_search_query"])

        for idx, (cls, reg, expr, n, _) in enumerate(picks):
            try:
                one_pick(idx, cls, reg, expr, n)
            except Exception as e:  # noqa: BLE001 - the real code raised on a documented input
                report_raise(ctx, expr, n, 'query history', e, 'C04_search_query')
    ctx.ob("C04_search_query", not any("C04_search_query" in f["broken"] for f in ctx.failures), "search", "")
    ctx.notes.append("query invariance: per class/regime, all 6 orders of (to_choi, to_liouville, to_pauli_liouville) and random histories of 8 query variants and executions; afterwards execution, generic backend path, circuit (twice) and views compared with a fresh channel")


# ---------------------------------------------------------------------------
# k-qubit depolarizing channel: tie of T04_depolarizing_fast_eq_kraus_full_proved (Props/C04b)


def depol_k_suite(ctx):
    """both sides of the proved equation against the real code, exactly, for k <= 3 target qubits on
    EVERY ordered tuple of an n <= 4 register (quick and thorough), Gaussian-integer non-Hermitian rho,
    dyadic lam:
      * `depolFast` (model)  ==  NumpyBackend.depolarizing_error_density_matrix (called directly);
      * `depolChan` + generic path (model)  ==  NumpyBackend.apply_channel_density_matrix on the
        channel object (all tuples for n <= 3; a seeded sample of the 4-qubit register);
      * the constructor's object: 4^k - 1 gates on the tuple in the given order, the Pauli strings in
        itertools.product("IXYZ") order without the identity, coefficient lam/4^k each,
        coefficient_sum = their sum;
      * on the real code itself: fast path == generic path (the Pauli-twirl identity)."""
    from qibo import gates

    nb = qgates.np_backend()
    rng = ctx.rng
    name = "C04_corr_depol_k"
    P1 = {"I": np.eye(2), "X": np.array([[0, 1], [1, 0]]), "Y": np.array([[0, -1j], [1j, 0]]), "Z": np.diag([1, -1])}
    lines, meta = [], []
    bad = 0

    def fail(key, what, expr, n, rho, body, expected=None, observed=None):
        nonlocal bad
        bad += 1
        ctx.fail(key, what, replay(expr, n, rho, body), expected=expected, observed=observed, broken=[name])

    for n in range(1, 5):
        for k in range(1, min(n, 3) + 1):
            tuples = placements(n, k)
            if n <= 3 or k == 1:
                generic = set(tuples)
            elif k == 2:
                generic = set(tuples if ctx.thorough else rng.sample(tuples, 4))
            else:
                generic = set(rng.sample(tuples, 8 if ctx.thorough else 1))
            for qs in tuples:
                a = rng.choice([1, 3, 5, 8, 11, 16])
                expr = f"gates.DepolarizingChannel({qs!r}, {a}/16)"
                rho = int_rho(rng, n)
                try:
                    ch = mk(expr)
                    fast = np.asarray(nb.depolarizing_error_density_matrix(ch, rho.astype(complex), n))
                    gen = np.asarray(nb.apply_channel_density_matrix(mk(expr), rho.astype(complex), n))
                except Exception as e:  # noqa: BLE001
                    report_raise(ctx, expr, n, "depolarizing_error_density_matrix", e, name)
                    bad += 1
                    continue
                ctx.stat(f"depol_k:n{n}k{k}")
                ctx.case(("depol_k", n, qs, a))
                # the channel object the theorem speaks about
                strs = list(itertools.product("IXYZ", repeat=k))[1:]
                u = a / 16 / 4**k
                ok_obj = (len(ch.gates) == 4**k - 1 and len(ch.coefficients) == 4**k - 1
                          and all(c == u for c in ch.coefficients)
                          and abs(ch.coefficient_sum - (4**k - 1) * u) < 1e-12
                          and tuple(ch.target_qubits) == tuple(qs))
                if ok_obj:
                    for s_, g in zip(strs, ch.gates):
                        m = np.array([[1.0]])
                        for c in s_:
                            m = np.kron(m, P1[c])
                        # same operator on the register (the stored gate may list its qubits in another order)
                        if not np.array_equal(_embed(n, list(g.qubits), np.asarray(g.matrix(nb))), _embed(n, list(qs), m)):
                            ok_obj = False
                            break
                if not ok_obj:
                    fail(f"depol-k:constructor:k{k}", f"{expr}: the channel object is not the {4**k - 1} non-identity Pauli strings on {qs} (product order) with coefficient lam/4^k",
                         expr, n, rho,
                         f"import itertools\nP1 = {{'I': np.eye(2), 'X': np.array([[0, 1], [1, 0]]), 'Y': np.array([[0, -1j], [1j, 0]]), 'Z': np.diag([1, -1])}}\n"
                         f"strs = list(itertools.product('IXYZ', repeat={k}))[1:]\nassert len(ch.gates) == {4**k - 1} and all(c == {u!r} for c in ch.coefficients)\n"
                         f"assert abs(ch.coefficient_sum - {(4**k - 1) * u!r}) < 1e-12\n"
                         "for s_, g in zip(strs, ch.gates):\n    m = np.array([[1.0]])\n    for c in s_:\n        m = np.kron(m, P1[c])\n"
                         f"    assert np.array_equal(_embed(n, list(g.qubits), np.asarray(g.matrix(nb))), _embed(n, {list(qs)!r}, m))\n")
                # the twirl identity on the real code
                if not np.allclose(fast, gen, atol=1e-12, rtol=0):
                    fail(f"depol-k:twirl:k{k}", f"{expr} on {n} qubits: depolarizing_error_density_matrix differs from apply_channel_density_matrix on the channel's own Pauli operators",
                         expr, n, rho,
                         "fast = np.asarray(nb.depolarizing_error_density_matrix(ch, rho.astype(complex), n))\n"
                         "gen = np.asarray(nb.apply_channel_density_matrix(mk(), rho.astype(complex), n))\n"
                         "assert np.allclose(fast, gen, atol=1e-9), np.abs(fast - gen).max()",
                         observed=str(np.abs(fast - gen).max()))
                sc = 16 * 2**k
                lines.append(f"GDEPOL {n} {k} {' '.join(map(str, qs))} {(16 - a) * 2**k} 0 {a} 0 {gi_tokens(rho)}")
                meta.append(("fast", expr, n, k, qs, rho, fast, sc))
                if qs in generic:
                    sc2 = 16 * 4**k
                    lines.append(f"GDEPOLC {n} {k} {' '.join(map(str, qs))} {sc2} 0 {a} 0 {gi_tokens(rho)}")
                    meta.append(("generic", expr, n, k, qs, rho, gen, sc2))
                    ctx.stat("depol_k:generic")
    outs = run_driver(lines, driver=DRIVER)
    for (which, expr, n, k, qs, rho, real, scale), out in zip(meta, outs):
        model = parse_gi(out).reshape(2**n, 2**n)
        if not np.array_equal(real * scale, model):
            exp = (model / scale).tolist()
            call = ("nb.depolarizing_error_density_matrix(ch, rho.astype(complex), n)" if which == "fast"
                    else "nb.apply_channel_density_matrix(ch, rho.astype(complex), n)")
            fail(f"depol-k:{which}:k{k}", f"{expr} on {n} qubits ({which} path): the real code differs from the model of the declared map",
                 expr, n, rho, f"out = np.asarray({call})\nexpected = np.array({exp})\nassert np.allclose(out, expected, atol=1e-9), np.abs(out - expected).max()",
                 expected=str(exp)[:400], observed=str(real.tolist())[:400])
    ctx.ob(name, bad == 0, "correspondence", f"{bad} disagreements" if bad else "")
    ctx.notes.append(f"k-qubit depolarizing (ties Props/C04b): depolFast vs depolarizing_error_density_matrix called directly and depolChan+generic path vs "
                     f"apply_channel_density_matrix, exact, k<=3, every ordered tuple of n<=4 (fast path; generic path: all tuples n<=3, seeded sample n=4), "
                     f"constructor object (Pauli strings, order, coefficients), real fast path == real generic path; {len(lines)} driver cases")


# ---------------------------------------------------------------------------
# run-time instantiations of the theorems of Props/C04c on the REAL code


def _vecpos(n, order):
    """V[i, j] = position of entry (i, j) of a 2^n x 2^n matrix in its vectorisation
    (row: i*D+j, column: j*D+i, system: bits interleaved, column bit first, qubit 0 first)."""
    import numpy as np

    D = 2**n
    V = np.zeros((D, D), dtype=int)
    for i in range(D):
        for j in range(D):
            if order == "row":
                V[i, j] = i * D + j
            elif order == "column":
                V[i, j] = j * D + i
            else:
                p = 0
                for q in range(n):
                    p = 4 * p + 2 * ((j >> (n - 1 - q)) & 1) + ((i >> (n - 1 - q)) & 1)
                V[i, j] = p
    return V


def _vec(M, n, order):
    import numpy as np

    V = _vecpos(n, order)
    out = np.zeros(V.size, dtype=complex)
    out[V.reshape(-1)] = np.asarray(M).reshape(-1)
    return out


def _choi_action(C, rho, n, order):
    """out[a, c] = sum_{b, e} C[vec(a, b), vec(c, e)] rho[b, e] (the action a Choi matrix encodes)."""
    import numpy as np

    V = _vecpos(n, order)
    C4 = np.asarray(C)[V[:, :, None, None], V[None, None, :, :]]
    return np.einsum("abce,be->ac", C4, np.asarray(rho))


def _pauli_string_op(n, qubits, string):
    import numpy as np

    s = {"I": np.eye(2), "X": np.array([[0, 1], [1, 0]]), "Y": np.array([[0, -1j], [1j, 0]]), "Z": np.diag([1.0, -1.0])}
    m = np.array([[1.0 + 0j]])
    for c in string:
        m = np.kron(m, s[c])
    return _embed(n, list(qubits), m)


SUPER_HELPERS = "\n".join(inspect.getsource(f) for f in (_vecpos, _vec, _choi_action, _pauli_string_op))


def cplx_rho(rng, n):
    d = 2**n
    return np.array([[complex(round(rng.uniform(-1, 1), 3), round(rng.uniform(-1, 1), 3)) for _ in range(d)] for _ in range(d)])


def nonascending(rng, n, k):
    """an ordered k-tuple of qubits of an n-qubit register that is not ascending (when k >= 2)."""
    while True:
        t = tuple(rng.sample(range(n), k))
        if k < 2 or list(t) != sorted(t):
            return t


def readout_suite(ctx):
    """T04_readout_gates_are_family / T04_readout_gram_diag / T04_readout_tp_iff_row_stochastic on the
    real constructor: the channel's own gates are the family sqrt(P[k,j]) |j><k| on the given ordered
    qubits, sum K^dagger K = diag(row sums of P) (checked at 1e-12 on rows that deviate from 1 inside
    the constructor's tolerance: distinguishes diag(row sums) from the identity), non-stochastic P is
    refused (or else must still be trace preserving), execution = own Kraus map and keeps the trace on
    k <= 3 qubits in non-ascending order."""
    nb = qgates.np_backend()
    rng = ctx.rng
    name = "C04_search_readout"
    bad = 0
    cases = []
    for k in (1, 2, 3):
        for n in range(k, (5 if ctx.thorough else 4)):
            reps = (3 if k < 3 else 1) if not ctx.thorough else (4 if k < 3 else 2)
            for _ in range(reps):
                cases.append((k, n, nonascending(rng, n, k)))
    for k, n, qs in cases:
        d = 2**k
        P = np.array([[rng.random() + 0.01 for _ in range(d)] for _ in range(d)])
        kind = rng.choice(["stochastic", "deterministic-row", "within-tolerance", "zero-entries"])
        if kind == "deterministic-row":
            P[rng.randrange(d)] = np.eye(d)[rng.randrange(d)]
        if kind == "zero-entries":
            for r in range(d):
                P[r, rng.randrange(d)] = 0.0
        P = P / P.sum(axis=1, keepdims=True)
        if kind == "within-tolerance":  # rows summing to 1 +- 4e-9: accepted by the constructor
            P = P * (1 + np.array([[rng.choice([-4e-9, 4e-9, 0.0])] for _ in range(d)]))
        expr = f"gates.ReadoutErrorChannel({qs!r}, {arr_expr(P)})"
        ctx.case(("readout", k, n, qs, kind))
        ctx.stat(f"readout_k{k}:{kind}")
        try:
            ch = mk(expr)
            mats = [np.asarray(g.matrix(nb)) for g in ch.gates]
            full = [_embed(n, list(g.qubits), m) for g, m in zip(ch.gates, mats)]
        except Exception as e:  # noqa: BLE001
            report_raise(ctx, expr, n, "constructor", e, name)
            bad += 1
            continue
        rows = P.sum(axis=1)
        # the family: one operator per (j, k), a single entry sqrt(P[k, j]) at [j, k], on qs in the given order
        flat = lambda m: tuple(np.round(np.concatenate([np.asarray(m).real.reshape(-1), np.asarray(m).imag.reshape(-1)]), 12))
        fam = sorted(flat(_embed(n, list(qs), np.sqrt(P[kk, j]) * np.outer(np.eye(d)[j], np.eye(d)[kk]))) for j in range(d) for kk in range(d))
        got = sorted(flat(np.asarray(c) * f) for c, f in zip(ch.coefficients, full))
        G = sum(c * f.conj().T @ f for c, f in zip(ch.coefficients, full))
        ok_family = len(full) == d * d and np.allclose(np.array(fam), np.array(got), atol=1e-11)
        ok_gram = np.allclose(G, _embed(n, list(qs), np.diag(rows)), atol=1e-12, rtol=0)
        if not (ok_family and ok_gram):
            bad += 1
            ctx.fail(f"readout:operators:k{k}", f"{expr} on {n} qubits: the channel's own operators are not sqrt(P[k,j]) |j><k| on {qs} / sum K^dagger K != diag(row sums of P)",
                     replay(expr, n, np.eye(2**n),
                            f"P = np.array({P.tolist()})\nfull = [c * _embed(n, list(g.qubits), np.asarray(g.matrix(nb))) for c, g in zip(ch.coefficients, ch.gates)]\n"
                            "G = sum(f.conj().T @ f for f in full)\n"
                            f"assert np.allclose(G, _embed(n, {list(qs)!r}, np.diag(P.sum(axis=1))), atol=1e-12, rtol=0), np.abs(G - _embed(n, {list(qs)!r}, np.diag(P.sum(axis=1)))).max()\n"
                            f"d = {d}\nflat = lambda m: tuple(np.round(np.concatenate([np.asarray(m).real.reshape(-1), np.asarray(m).imag.reshape(-1)]), 12))\n"
                            f"fam = sorted(flat(_embed(n, {list(qs)!r}, np.sqrt(P[k, j]) * np.outer(np.eye(d)[j], np.eye(d)[k]))) for j in range(d) for k in range(d))\n"
                            "got = sorted(flat(f) for f in full)\nassert np.allclose(np.array(fam), np.array(got), atol=1e-11)"),
                     expected=str(np.round(rows, 12).tolist()), observed=str(np.round(np.diag(G).real, 12).tolist())[:600], broken=[name])
            continue
        # executed map: its own Kraus map, trace kept (row-stochastic within 4e-9)
        rho = cplx_rho(rng, n)
        try:
            ex = _execute(mk(expr), rho, n, nb)
        except Exception as e:  # noqa: BLE001
            report_raise(ctx, expr, n, "execution", e, name)
            bad += 1
            continue
        km = sum(f @ rho @ f.conj().T for f in full)
        if not np.allclose(ex, km, atol=TOL) or abs(np.trace(ex) - np.trace(rho)) > 1e-7:
            bad += 1
            ctx.fail(f"readout:exec:k{k}", f"{expr} on {n} qubits: execution differs from the Kraus map of sqrt(P[k,j]) |j><k| / changes the trace",
                     replay(expr, n, rho, "out = _execute(ch, rho, n, nb)\nref = _kraus_map(mk(), rho, n, nb)\n"
                            "assert np.allclose(out, ref, atol=1e-9) and abs(np.trace(out) - np.trace(rho)) < 1e-7, (np.abs(out - ref).max(), np.trace(out) - np.trace(rho))"),
                     broken=[name])
    # the other direction: rows that do not sum to one
    for k in (1, 2):
        for dev in (-0.5, -1e-3, 1e-3, 0.7):
            d = 2**k
            n = k + 1
            qs = nonascending(rng, n, k)
            P = np.array([[rng.random() + 0.01 for _ in range(d)] for _ in range(d)])
            P = P / P.sum(axis=1, keepdims=True)
            P[rng.randrange(d)] *= 1 + dev
            expr = f"gates.ReadoutErrorChannel({qs!r}, {arr_expr(P)})"
            ctx.case(("readout-nonstochastic", k, dev))
            ctx.stat("readout_nonstochastic")
            try:
                ch = mk(expr)
            except ValueError:
                continue  # refused: nothing is executed
            except Exception as e:  # noqa: BLE001
                report_raise(ctx, expr, n, "constructor", e, name)
                bad += 1
                continue
            rho = cplx_rho(rng, n)
            ex = _execute(ch, rho, n, nb)
            if abs(np.trace(ex) - np.trace(rho)) > TOL:
                bad += 1
                ctx.fail(f"readout:non-stochastic-accepted:k{k}", f"{expr}: a transition matrix whose rows do not sum to one is accepted and the executed map changes the trace",
                         replay(expr, n, rho, "out = _execute(ch, rho, n, nb)\nassert abs(np.trace(out) - np.trace(rho)) < 1e-9, (np.trace(out), np.trace(rho))"),
                         expected=str(np.trace(rho)), observed=str(np.trace(ex)), broken=[name])
    ctx.ob(name, bad == 0, "search", f"{bad} failures" if bad else "")
    ctx.notes.append(f"readout (instantiates T04_readout_*): {len(cases)} real ReadoutErrorChannel objects on k<=3 qubits in non-ascending order: own operators = sqrt(P[k,j])|j><k| family, "
                     "sum K^dagger K = diag(row sums) at 1e-12 (rows within the constructor's tolerance of 1), execution = Kraus map, trace; non-stochastic P refused or trace preserving")


def pauli_k_suite(ctx):
    """T04_pauli_string_unitary / T04_pauli_channel_trace_preserved / T04_pauli_channel_unital on the
    real PauliNoiseChannel, k = 1..3 qubits in non-ascending order: every own operator is the Pauli
    string with letter t on qubits[t] (given order) and unitary; coefficient_sum = sum of the
    coefficients; the executed map is sum_s p_s P_s rho P_s + (1 - sum p) rho built independently from
    the strings, keeps the trace of a complex non-Hermitian rho, fixes the identity."""
    nb = qgates.np_backend()
    rng = ctx.rng
    name = "C04_search_pauli_k"
    bad = 0
    cases = []
    for k in (1, 2, 3):
        for n in range(k, (5 if ctx.thorough else 4)):
            for _ in range((2 if k < 3 else 1) if not ctx.thorough else 3):
                cases.append((k, n, nonascending(rng, n, k)))
    for k, n, qs in cases:
        strs = ["".join(s) for s in itertools.product("IXYZ", repeat=k)]
        chosen = rng.sample(strs, rng.randint(1, min(5, len(strs))))
        if rng.random() < 0.3:
            chosen.append(rng.choice(chosen))  # a repeated string
        # strings that tell the qubits apart (different letters at different positions)
        if k >= 2 and rng.random() < 0.7:
            chosen[0] = "".join(rng.sample("XYZ", min(k, 3))) if k <= 3 else chosen[0]
        w = [rng.random() for _ in range(len(chosen) + 1)]
        if rng.random() < 0.3:
            w[-1] = 0.0
        ps = [round(x / sum(w), 6) for x in w[:-1]]
        if sum(ps) > 1:
            ps[-1] = max(0.0, round(1 - sum(ps[:-1]), 6))
        ops = ", ".join(f"({s!r}, {p!r})" for s, p in zip(chosen, ps))
        expr = f"gates.PauliNoiseChannel({qs!r}, [{ops}])"
        ctx.case(("pauli_k", k, n, qs, tuple(chosen)))
        ctx.stat(f"pauli_k{k}:n{n}")
        rho = cplx_rho(rng, n)
        try:
            ch = mk(expr)
            own = [_embed(n, list(g.qubits), np.asarray(g.matrix(nb))) for g in ch.gates]
            ex = _execute(mk(expr), rho, n, nb)
            exI = _execute(mk(expr), np.eye(2**n) / 2**n, n, nb)
        except Exception as e:  # noqa: BLE001
            report_raise(ctx, expr, n, "execution", e, name)
            bad += 1
            continue
        spec = [_pauli_string_op(n, qs, s) for s in chosen]
        ok_ops = len(own) == len(spec) and all(np.array_equal(a, b) for a, b in zip(own, spec))
        ok_unit = all(np.allclose(a.conj().T @ a, np.eye(2**n), atol=1e-12) for a in own)
        ok_csum = abs(ch.coefficient_sum - sum(ps)) < 1e-12 and np.allclose(np.asarray(ch.coefficients, dtype=float), ps, atol=0)
        ref = (1 - sum(ps)) * rho + sum(p * S @ rho @ S.conj().T for p, S in zip(ps, spec))
        ok_exec = np.allclose(ex, ref, atol=TOL)
        ok_tr = abs(np.trace(ex) - np.trace(rho)) < TOL
        ok_unital = np.allclose(exI, np.eye(2**n) / 2**n, atol=TOL)
        if not (ok_ops and ok_unit and ok_csum and ok_exec and ok_tr and ok_unital):
            bad += 1
            what = ("own operators are not the Pauli strings on the qubits in the given order" if not ok_ops else
                    "an own operator is not unitary" if not ok_unit else "coefficient_sum != sum of the probabilities" if not ok_csum else
                    "execution differs from sum_s p_s P_s rho P_s + (1 - sum p) rho" if not ok_exec else
                    "execution changes the trace" if not ok_tr else "the identity is not a fixed point")
            ctx.fail(f"pauli-k:{'operators' if not (ok_ops and ok_unit and ok_csum) else 'exec'}:k{k}", f"{expr} on {n} qubits: {what}",
                     replay(expr, n, rho, SUPER_HELPERS + f"\nstrs = {chosen!r}\nps = {ps!r}\nspec = [_pauli_string_op(n, {list(qs)!r}, s) for s in strs]\n"
                            "own = [_embed(n, list(g.qubits), np.asarray(g.matrix(nb))) for g in ch.gates]\n"
                            "assert len(own) == len(spec) and all(np.array_equal(a, b) for a, b in zip(own, spec)), 'operators'\n"
                            "assert all(np.allclose(a.conj().T @ a, np.eye(2**n), atol=1e-12) for a in own), 'unitary'\n"
                            "assert abs(ch.coefficient_sum - sum(ps)) < 1e-12, 'coefficient_sum'\n"
                            "out = _execute(mk(), rho, n, nb)\nref = (1 - sum(ps)) * rho + sum(p * S @ rho @ S.conj().T for p, S in zip(ps, spec))\n"
                            "assert np.allclose(out, ref, atol=1e-9), np.abs(out - ref).max()\nassert abs(np.trace(out) - np.trace(rho)) < 1e-9\n"
                            "assert np.allclose(_execute(mk(), np.eye(2**n) / 2**n, n, nb), np.eye(2**n) / 2**n, atol=1e-9), 'unital'"),
                     expected=str(np.round(ref, 6).tolist())[:800], observed=str(np.round(ex, 6).tolist())[:800], broken=[name])
    ctx.ob(name, bad == 0, "search", f"{bad} failures" if bad else "")
    ctx.notes.append(f"k-qubit Pauli noise (instantiates T04_pauli_*): {len(cases)} real PauliNoiseChannel objects, k<=3 qubits in non-ascending order of n<=" + ("4" if ctx.thorough else "3")
                     + ": own operators = strings on the given qubit order, unitary, coefficient_sum, execution = spec built from the strings, trace of non-Hermitian rho, unital")


def liouville_exec_suite(ctx, insts, users):
    """T04_liouville_executes / T04_choi_executes / T04_pauli_liouville_executes on the real code: for a fresh channel object
    `to_liouville(nqubits=n, order) @ vec(rho) == vec(execute(rho))` (row, column; system where the API
    offers it), the Choi action of `to_choi(nqubits=n, order)` (row, column, system) is the executed
    state, and `to_pauli_liouville(nqubits=n)[a, b] == Tr(P_a^dagger execute(P_b))`, for random complex
    NON-Hermitian rho; every class, user channels with complex operators,
    extra 3-qubit channels on non-ascending targets.  Exact tie of the theorem's left-hand side:
    the model's `liouvilleOf (choiTerms ch) . vec(rho)` (driver LEXEC) == the real execution on
    Gaussian-integer operators / dyadic probabilities, n <= 3."""
    nb = qgates.np_backend()
    rng = ctx.rng
    name = "C04_search_liouville_exec"
    nprng = np.random.default_rng(rng.randrange(2**31))
    pool = {}
    for it in insts + users:
        cls, reg, expr, n, _ = it
        if n <= 3:
            pool.setdefault((cls, reg, n), []).append(it)
    chosen = []
    for key in sorted(pool):
        chosen += rng.sample(pool[key], min(len(pool[key]), (2 if key[2] <= 2 else 1) if not ctx.thorough else 3))
    # extra: genuinely complex operators on non-ascending targets of a 3-qubit register
    for _ in range(8 if ctx.thorough else 4):
        tl = [nonascending(rng, 3, rng.choice([2, 2, 3])), tuple(rng.sample(range(3), 1))]
        mats = [np.round(nprng.normal(size=(2**len(t), 2**len(t))) + 1j * nprng.normal(size=(2**len(t), 2**len(t))), 3) for t in tl]
        chosen.append(("KrausChannel", ":complex3", f"gates.KrausChannel({tl!r}, [{', '.join(arr_expr(m) for m in mats)}])", 3, []))
        us = [np.linalg.qr(nprng.normal(size=(2**len(t), 2**len(t))) + 1j * nprng.normal(size=(2**len(t), 2**len(t))))[0] for t in tl]
        ps = [round(rng.uniform(0, 0.5), 6) for _ in tl]
        chosen.append(("UnitaryChannel", ":complex3", f"gates.UnitaryChannel({tl!r}, [{', '.join(f'({p!r}, {arr_expr(u)})' for p, u in zip(ps, us))}])", 3, []))
    bad = 0
    n_sys = 0
    for cls, reg, expr, n, _ in chosen:
        rho = cplx_rho(rng, n)
        try:
            ex = _execute(mk(expr), rho, n, nb)
        except Exception as e:  # noqa: BLE001
            report_raise(ctx, expr, n, "execution", e, name)
            bad += 1
            continue
        ctx.case(("liouville-exec", expr[:80], n))
        ctx.stat(f"liouville_exec_n{n}")
        for order in ("row", "column", "system"):
            for view in ("to_liouville", "to_choi"):
                call = f"{view}(nqubits=n, order={order!r})"
                try:
                    M = np.asarray(getattr(mk(expr), view)(nqubits=n, order=order))
                except NotImplementedError:
                    continue  # this order is not offered for this representation
                except Exception as e:  # noqa: BLE001
                    bad += 1
                    ctx.fail(f"liouville-exec-raise:{cls}{reg}:{view}", f"{expr}.{call} raised {type(e).__name__}: {e}",
                             replay(expr, n, rho, f"ch.{call}"), broken=[name])
                    continue
                if order == "system":
                    n_sys += 1
                if view == "to_liouville":
                    got = M @ _vec(rho, n, order)
                    ref = _vec(ex, n, order)
                    body = f"out = np.asarray(ch.{call}) @ _vec(rho, n, {order!r})\nref = _vec(_execute(mk(), rho, n, nb), n, {order!r})\n"
                else:
                    got = _choi_action(M, rho, n, order)
                    ref = ex
                    body = f"out = _choi_action(np.asarray(ch.{call}), rho, n, {order!r})\nref = _execute(mk(), rho, n, nb)\n"
                if got.shape != ref.shape or not np.allclose(got, ref, atol=TOL):
                    bad += 1
                    ctx.fail(f"liouville-exec:{cls}{reg}:{view}", f"{expr} on {n} qubits: {call} does not describe the executed map ({'L @ vec(rho) != vec(executed state)' if view == 'to_liouville' else 'Choi action != executed state'})",
                             replay(expr, n, rho, SUPER_HELPERS + "\n" + body + "assert np.allclose(out, ref, atol=1e-9), np.abs(out - ref).max()"),
                             expected=str(np.round(ref, 6).tolist())[:800], observed=str(np.round(got, 6).tolist())[:800], broken=[name])
        # T04_pauli_liouville_executes: entry (a, b) of to_pauli_liouville = <P_a, execute(P_b)>
        if n <= 2 or rng.random() < 0.15:
            ptm_body = (f"labs = list(itertools.product('IXYZ', repeat=n))\nPs = [_pauli_string_op(n, range(n), s) for s in labs]\n"
                        "E = [_execute(mk(), P, n, nb) for P in Ps]\nref = np.array([[np.trace(Pa.conj().T @ Eb) for Eb in E] for Pa in Ps])\n"
                        "out = np.asarray(ch.to_pauli_liouville(nqubits=n))\n")
            try:
                Ps = [_pauli_string_op(n, range(n), s_) for s_ in itertools.product("IXYZ", repeat=n)]
                E = [_execute(mk(expr), P_, n, nb) for P_ in Ps]
                ref = np.array([[np.trace(Pa.conj().T @ Eb) for Eb in E] for Pa in Ps])
                got = np.asarray(mk(expr).to_pauli_liouville(nqubits=n))
            except Exception as e:  # noqa: BLE001
                bad += 1
                ctx.fail(f"liouville-exec-raise:{cls}{reg}:to_pauli_liouville", f"{expr}: to_pauli_liouville(nqubits=n) / execution on a Pauli matrix raised {type(e).__name__}: {e}",
                         replay(expr, n, rho, "import itertools\n" + SUPER_HELPERS + "\n" + ptm_body), broken=[name])
                continue
            ctx.stat("ptm_exec")
            if got.shape != ref.shape or not np.allclose(got, ref, atol=TOL):
                bad += 1
                ctx.fail(f"liouville-exec:{cls}{reg}:to_pauli_liouville", f"{expr} on {n} qubits: to_pauli_liouville(nqubits=n) is not the Pauli transfer matrix <P_a, execute(P_b)> of the executed map",
                         replay(expr, n, rho, "import itertools\n" + SUPER_HELPERS + "\n" + ptm_body + "assert np.allclose(out, ref, atol=1e-9), np.abs(out - ref).max()"),
                         expected=str(np.round(ref, 6).tolist())[:800], observed=str(np.round(got, 6).tolist())[:800], broken=[name])
    ctx.ob(name, bad == 0, "search", f"{bad} failures" if bad else "")

    # exact: the model's left-hand side against the real execution
    lines, meta = [], []
    for _ in range(24 if ctx.thorough else 10):
        n = rng.choice([1, 2, 3, 3])
        cnt = rng.randint(1, 3)
        tl = [nonascending(rng, n, rng.randint(1, min(n, 2))) for _ in range(cnt)]
        mats = [rand_int_matrix(rng, len(t)) for t in tl]
        rho = int_rho(rng, n)
        col = rng.randint(0, 1)
        if rng.random() < 0.5:
            expr = f"gates.KrausChannel({tl!r}, [{', '.join(arr_expr(m) for m in mats)}])"
            terms = " ".join(f"1 0 {len(t)} {' '.join(map(str, t))} {gi_tokens(m)}" for t, m in zip(tl, mats))
            line, scale = f"GLEXEC {n} {col} 0 0 0 {len(tl)} {terms} {gi_tokens(rho)}", 1
        else:
            num = [rng.randint(0, 5) for _ in tl]
            if rng.random() < 0.25:
                num[-1] = 16 - sum(num[:-1])
            ops = ", ".join(f"({a}/16, {arr_expr(m)})" for a, m in zip(num, mats))
            expr = f"gates.UnitaryChannel({tl!r}, [{ops}])"
            terms = " ".join(f"{a} 0 {len(t)} {' '.join(map(str, t))} {gi_tokens(m)}" for a, t, m in zip(num, tl, mats))
            c0 = 16 - sum(num)
            line, scale = f"GLEXEC {n} {col} {1 if c0 > 0 else 0} {c0} 0 {len(tl)} {terms} {gi_tokens(rho)}", 16
        try:
            real = _execute(mk(expr), rho, n, nb)
        except Exception as e:  # noqa: BLE001
            report_raise(ctx, expr, n, "execution", e, "C04_corr_lexec")
            continue
        lines.append(line)
        meta.append((expr, n, rho, real, scale, col))
        ctx.stat("lexec_exact")
    outs = run_driver(lines, driver=DRIVER)
    bad2 = 0
    for (expr, n, rho, real, scale, col), out in zip(meta, outs):
        model = parse_gi(out).reshape(2**n, 2**n)
        ctx.case(("lexec", expr[:80], n, col))
        if not np.array_equal(real * scale, model):
            bad2 += 1
            exp = (model / scale).tolist()
            ctx.fail("lexec:" + expr.split("(")[0].replace("gates.", ""), f"{expr} on {n} qubits: the real execution differs from the model's to_liouville . vec(rho) ({'column' if col else 'row'} order)",
                     replay(expr, n, rho, f"out = _execute(ch, rho, n, nb)\nexpected = np.array({exp})\nassert np.allclose(out, expected, atol=1e-9), np.abs(out - expected).max()"),
                     expected=str(exp)[:800], observed=str(real.tolist())[:800], broken=["C04_corr_lexec"])
    ctx.ob("C04_corr_lexec", bad2 == 0, "correspondence", f"{bad2} disagreements" if bad2 else "")
    ctx.notes.append(f"to_liouville / to_choi describe the executed map (instantiates T04_liouville_executes, T04_choi_executes): {len(chosen)} real channel objects (every class, complex user channels, "
                     f"3-qubit non-ascending targets), complex non-Hermitian rho, orders row/column (+ system where offered: {n_sys} views); model LEXEC vs real execution exact on {len(lines)} integer cases")


# ---------------------------------------------------------------------------


def reuse_suite(ctx, insts):
    """one channel OBJECT used in several circuits / registers of different sizes (and added to
    two circuits): every execution must be the channel's map on that register — state kept on
    the object at first use (cached closed forms, cached embeddings) must not leak."""
    from qibo import Circuit, gates  # noqa: F401

    nb = qgates.np_backend() if "qgates" in globals() else None
    from qibo.backends import NumpyBackend

    nb = nb or NumpyBackend()
    rng = ctx.rng
    seen, bad = set(), 0
    for cls, reg, expr, n, _ in insts:
        if (cls, reg) in seen and rng.random() < 0.9:
            continue
        seen.add((cls, reg))
        try:
            ch = eval(expr, {"gates": gates, "np": np})
        except Exception:  # noqa: BLE001
            continue
        qmax = max(ch.target_qubits)
        sizes = [qmax + 1, qmax + 3, qmax + 2, qmax + 1]
        rng.shuffle(sizes)
        ok, where = True, None
        for m in sizes:
            d = 2**m
            a = np.array([[complex(rng.gauss(0, 1), rng.gauss(0, 1)) for _ in range(d)] for _ in range(d)])
            rho = a @ a.conj().T
            rho /= np.trace(rho)
            c = Circuit(m, density_matrix=True)
            c.add(ch)
            fresh = eval(expr, {"gates": gates, "np": np})
            c2 = Circuit(m, density_matrix=True)
            c2.add(fresh)
            try:
                out = np.asarray(nb.execute_circuit(c, initial_state=rho.copy()).state())
                ref = np.asarray(nb.execute_circuit(c2, initial_state=rho.copy()).state())
            except Exception as e:  # noqa: BLE001
                ok, where = False, f"n={m}: raises {type(e).__name__}: {e}"
                break
            if not np.allclose(out, ref, atol=1e-9) or abs(np.trace(out) - 1) > 1e-9:
                ok, where = False, f"n={m} (sizes used in this order: {sizes})"
                break
        ctx.case(("reuse", cls, reg, tuple(sizes)))
        if not ok:
            bad += 1
            py = ("import numpy as np\nfrom qibo import Circuit, gates\n" + f"ch = {expr}\nrng = np.random.default_rng(0)\n"
                  + f"for m in {sizes}:\n    d = 2**m; a = rng.normal(size=(d, d)) + 1j * rng.normal(size=(d, d)); rho = a @ a.conj().T; rho /= np.trace(rho)\n"
                  + f"    c = Circuit(m, density_matrix=True); c.add(ch)\n    f = Circuit(m, density_matrix=True); f.add({expr})\n"
                  + "    assert np.allclose(c(rho.copy()).state(), f(rho.copy()).state(), atol=1e-9), m\n")
            ctx.fail(f"reuse:{cls}{':' + reg if reg else ''}", f"the same {cls} object executed in registers of different sizes differs from a fresh channel at {where}",
                     py, broken=["C04_search_reuse"])
    ctx.ob("C04_search_reuse", bad == 0, "search", f"{bad} channel objects behave differently when reused" if bad else "")


def run(ctx):
    MODULES, THEOREMS = registry(PROP)
    ctx.theorems = THEOREMS
    build_and_audit(ctx, PROP, MODULES, THEOREMS)
    exact_suite(ctx)
    depol_k_suite(ctx)
    insts = instances(ctx)
    users = user_channels(ctx)
    float_suite(ctx, insts)
    user_suite(ctx, users)
    views_suite(ctx, insts, users)
    query_suite(ctx, insts, users)
    reuse_suite(ctx, insts)
    readout_suite(ctx)
    pauli_k_suite(ctx)
    liouville_exec_suite(ctx, insts, users)
    try:
        from props import C04_boundary
        C04_boundary.boundary_suite(ctx)
    except Exception as e:  # noqa: BLE001
        import traceback
        ctx.log(traceback.format_exc()[-1800:])
        ctx.ob("C04_search_boundary", False, "search", f"{type(e).__name__}: {e}"[:300])
    ctx.assumptions += [
        "complete positivity is structural in the model (non-negative combination of K rho K^dagger); on the real code it is checked numerically (Choi matrix of the executed map PSD)",
        "depolarizing fast path = Pauli-twirl Kraus map is proved for every k and every ordered duplicate-free tuple (T04_depolarizing_fast_eq_kraus_full_proved); both sides are tied exactly to the real code for k<=3 on every ordered tuple of n<=4 (C04_corr_depol_k)",
        "float constructors (sqrt/exp of the parameters) are compared with tolerance 1e-9; Lean Float and numpy both use IEEE doubles",
    ]
    ctx.trusted.append("numpy einsum/transpose/tensordot/reshape behave as modelled (differentially tested on Gaussian-integer data on every run)")
