"""C17, channels built from Gate OBJECTS: exact correspondence of the Lean model
`lean/QV/Model/KrausInit.lean` (driver `lean/DriverC17c.lean`; theorems `lean/QV/Props/C17g.lean`)
with the real constructors `KrausChannel(qubits, [gate, …])` and `UnitaryChannel(qubits, [(p, gate), …])`:
which qubits (controls, targets) every operator acts on after the constructor has moved the gates, and
the channel's `target_qubits` (the representations computed from these gates are compared with
explicitly embedded operators by the channel-object suites of C17.py).

Inputs: 1–3 operators, each a `gates.Unitary` on 1–2 qubits or a standard (also controlled) gate,
declared on ascending / descending / non-adjacent qubits; `qubits` as [] / int / tuple / list of tuples in
any order; a malformed stream (too short tuples or lists, repeated qubits) where the constructor raises."""
from __future__ import annotations

import numpy as np

from vlib.driver import run_driver

DRIVER = "DriverC17c.lean"
HDR = ("import numpy as np\nfrom qibo import gates, set_backend\nset_backend('numpy')\n"
       "from qibo.backends import NumpyBackend\nnb = NumpyBackend()\n")


def _unitary(rng, k):
    d = 2 ** k
    a = np.array([[complex(rng.gauss(0, 1), rng.gauss(0, 1)) for _ in range(d)] for _ in range(d)])
    q, r = np.linalg.qr(a)
    return q * (np.diag(r) / np.abs(np.diag(r)))


def gen_gate(rng, nq):
    """(source text, python constructor closure)"""
    kind = rng.choice(["U1", "U2", "U2", "CNOT", "CRX", "RX", "fSim", "Xc"])
    if kind == "U1":
        q = rng.sample(range(nq), 1)
        m = _unitary(rng, 1)
        return f"gates.Unitary(np.array({m.tolist()!r}), {q[0]})"
    if kind == "U2":
        q = rng.sample(range(nq), 2)
        m = _unitary(rng, 2)
        return f"gates.Unitary(np.array({m.tolist()!r}), {q[0]}, {q[1]})"
    if kind == "CNOT":
        q = rng.sample(range(nq), 2)
        return f"gates.CNOT({q[0]}, {q[1]})"
    if kind == "CRX":
        q = rng.sample(range(nq), 2)
        return f"gates.CRX({q[0]}, {q[1]}, {round(rng.uniform(0.3, 2.8), 3)})"
    if kind == "RX":
        q = rng.sample(range(nq), 1)
        return f"gates.RX({q[0]}, {round(rng.uniform(0.3, 2.8), 3)})"
    if kind == "fSim":
        q = rng.sample(range(nq), 2)
        return f"gates.fSim({q[0]}, {q[1]}, {round(rng.uniform(0.3, 2.8), 3)}, {round(rng.uniform(0.3, 2.8), 3)})"
    q = rng.sample(range(nq), min(nq, rng.choice([2, 3])))
    return f"gates.Y({q[0]}).controlled_by({', '.join(str(x) for x in q[1:])})"


def gen_case(rng, malformed=False):
    nq = rng.randint(2, 4)
    nops = rng.randint(1, 3)
    srcs = [gen_gate(rng, nq) for _ in range(nops)]
    gs = [eval(s, {"gates": __import__("qibo").gates, "np": np}) for s in srcs]
    lens = [len(g.qubits) for g in gs]
    nreg = rng.randint(max(lens) + (1 if malformed else 0), 5)
    form = rng.choice([0, 1, 2, 3, 3, 3])
    if form == 1 and max(lens) > 1 and not malformed:
        form = 3
    if form == 0:
        arg, toks = "[]", [0]
    elif form == 1:
        q = rng.randrange(nreg)
        arg, toks = str(q), [1, q]
    elif form == 2:
        k = max(lens) + rng.choice([0, 0, 1]) if not malformed else max(1, max(lens) - rng.choice([0, 1]))
        t = rng.sample(range(nreg), min(k, nreg))
        if malformed and rng.random() < 0.5 and len(t) > 1:
            t[-1] = t[0]
        arg, toks = repr(tuple(t)), [2, len(t)] + t
    else:
        ts = []
        for ln in lens:
            k = ln + rng.choice([0, 0, 0, 1])
            if malformed and rng.random() < 0.5:
                k = max(1, ln - 1)
            t = rng.sample(range(nreg), min(k, nreg))
            if malformed and rng.random() < 0.3 and len(t) > 1:
                t[-1] = t[0]
            ts.append(tuple(t))
        if malformed and rng.random() < 0.4 and len(ts) > 1:
            ts = ts[:-1]
        elif rng.random() < 0.15:
            ts.append(tuple(rng.sample(range(nreg), 1)))
        arg = repr(ts)
        toks = [3, len(ts)]
        for t in ts:
            toks += [len(t)] + list(t)
    toks.append(nops)
    for g in gs:
        toks += [len(g.control_qubits), len(g.qubits)] + list(g.qubits)
    return srcs, arg, toks, max(nq, nreg)


def observe(srcs, arg, cls):
    from qibo import gates

    ops = [eval(s, {"gates": gates, "np": np}) for s in srcs]
    try:
        if cls == "KrausChannel":
            ch = gates.KrausChannel(eval(arg), ops)
        else:
            ch = gates.UnitaryChannel(eval(arg), [(0.5 / len(ops), g) for g in ops])
    except Exception:  # noqa: BLE001 - the model says where the constructor raises
        return "E", None
    out = " ; ".join(f"{len(g.control_qubits)}:{','.join(str(q) for q in g.qubits)}" for g in ch.gates)
    return out + " # " + ",".join(str(q) for q in ch.target_qubits), ch


def run_suites(ctx):
    rng = ctx.rng
    n_ok, n_bad = (140, 50) if ctx.thorough else (60, 24)
    cases = [gen_case(rng) for _ in range(n_ok)] + [gen_case(rng, malformed=True) for _ in range(n_bad)]
    lines = [" ".join(str(t) for t in c[2]) for c in cases]
    outs = run_driver(lines, driver=DRIVER)
    bad = []
    for (srcs, arg, toks, nreg), want in zip(cases, outs):
        for cls in ("KrausChannel", "UnitaryChannel"):
            got, ch = observe(srcs, arg, cls)
            ctx.case(("kraus-init", cls, arg, tuple(toks)))
            ctx.stat("krausinit_" + ("raises" if got == "E" else "form%d" % toks[0]))
            if got != want.strip():
                bad.append((cls, srcs, arg, got, want))
    if bad:
        cls, srcs, arg, got, want = bad[0]
        ctx.fail("kraus-init:qubits",
                 f"gates.{cls}({arg}, …) built from Gate objects [{', '.join(s[:60] for s in srcs)}]: operators act on `{got}`, positional relabelling in declared order (model) gives `{want.strip()}`",
                 HDR + f"ops = [{', '.join(srcs)}]\ntry:\n    ch = gates.KrausChannel({arg}, ops)\n    got = ' ; '.join(f\"{{len(g.control_qubits)}}:{{','.join(str(q) for q in g.qubits)}}\" for g in ch.gates) + ' # ' + ','.join(str(q) for q in ch.target_qubits)\nexcept Exception:\n    got = 'E'\nprint(got)\nraise SystemExit(0 if got == {want.strip()!r} else 1)\n",
                 expected=want.strip(), observed=got, broken=["C17_corr_kraus_init"])
    ctx.ob("C17_corr_kraus_init", not bad, "correspondence",
           f"{len(bad)} constructions differ from the model, first: {bad[0][:4]}" if bad else "")
