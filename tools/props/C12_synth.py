"""C12 (deepening) — tableau -> circuit synthesis and the acceptance test, model <-> real code.

Two correspondence suites for the Lean models QV/Model/CliffordSynth.lean (`to_circuit("AG04")`)
and QV/Model/CliffordAccept.lean (`CliffordBackend.execute_circuit`), driven through
lean/DriverC12.lean (commands AG, EX):

  * synth:  tableaux of real Clifford circuits (all 1-qubit tableaux, all circuits up to a
    length over a generating alphabet for n = 2, 3, seeded random circuits and qibo's own
    `random_clifford` up to n = 8).  The model must return the SAME gate list as the real
    `Clifford.to_circuit("AG04")` (names, qubits, order); the real returned circuit, executed by
    the real Clifford backend, must give back the tableau (theorem T12_to_circuit_reproduces_tableau)
    and, executed by the state-vector spec, the same state up to a global phase; the object must
    not be mutated and a second call must return the same list.  The model of `to_circuit("BM20")`
    (cost functions, cost-reduction search, local part) is compared in the same way for n <= 3,
    on the whole 2-qubit Clifford group in the thorough tier (a sample in the quick tier).
  * accept: circuits mixing flagged and unflagged gates (rotations at boundary angles, controlled
    rotations at odd multiples of pi/2, gates without engine operation, measurements with and
    without collapse, Pauli noise channels, initial states): the real backend must answer exactly
    as the model does — RuntimeError (refused) / another exception / final tableau and the
    outcomes of the collapsing measurements.
    The flag of every entry is read from the gate OBJECT (never through the backend); families of
    unflagged `controlled_by` gates that keep the class of a Clifford gate (controlled-H, CCZ, C-S,
    CCCX, Fredkin, …) are placed after / between / before flagged gates of the same class, repeated,
    and after an earlier execution of such gates on the same backend object.
  * controlled_refusal_search: the same families against an own numeric test "operator maps Paulis
    to Paulis": refusal through execute_circuit (nshots 1 and default), Clifford(c), from_circuit.
"""
from __future__ import annotations

import itertools
import math

import numpy as np

from vlib.driver import run_driver

DRIVER = "DriverC12.lean"
ROT1 = ["RX", "RY", "RZ"]
ROT2 = ["CRX", "CRY", "CRZ"]
MODEL_FIXED = ["I", "H", "X", "Y", "Z", "S", "SDG", "SX", "SXDG", "CNOT", "CZ", "CY", "SWAP", "iSWAP", "FSWAP", "ECR"]
REFUSAL_MSG = "Circuit contains non-Clifford gates."


def gates_str(queue):
    return ",".join(" ".join([g.__class__.__name__] + [str(q) for q in g.init_args]) for g in queue)


def up_to_phase(a, b, tol=1e-9):
    a = np.asarray(a, dtype=complex).reshape(-1)
    b = np.asarray(b, dtype=complex).reshape(-1)
    k = int(np.argmax(np.abs(b)))
    if abs(b[k]) < tol or abs(a[k]) < tol:
        return False
    return np.allclose(a * (b[k] / a[k]), b, atol=tol)


# ----------------------------------------------------------------------------------
# synthesis
# ----------------------------------------------------------------------------------
def synth_cases(ctx, base):
    from qibo import gates
    from qibo.quantum_info import random_clifford

    rng = ctx.rng
    be = base.cliff_backend()
    seen = set()
    cases = []

    def add(n, gs, tag):
        r = be.execute_circuit(base.build(n, base.regen(gs) if gs else [gates.I(0)]))
        T = np.asarray(r.symplectic_matrix).astype(np.uint8)
        key = (n, T[:-1].tobytes())
        if key in seen:
            return
        seen.add(key)
        cases.append((n, gs, T, tag))

    for gs in base.all_one_qubit_tableaux():
        add(1, [getattr(gates, g)(0) for g in gs], "one_qubit")
    for n, depth in ((2, 3 if ctx.thorough else 2), (3, 2 if ctx.thorough else 1)):
        alphabet = [(name, (q,)) for name in ("H", "S", "X") for q in range(n)]
        alphabet += [(name, p) for name in ("CNOT", "CZ", "SWAP") for p in itertools.permutations(range(n), 2)]
        for d in range(depth + 1):
            for word in itertools.product(alphabet, repeat=d):
                add(n, [getattr(gates, nm)(*qs) for nm, qs in word], f"exh{n}")
        # one more layer, sampled
        for _ in range(150 if ctx.thorough else 60):
            word = [rng.choice(alphabet) for _ in range(depth + 1 + rng.randint(0, 2))]
            add(n, [getattr(gates, nm)(*qs) for nm, qs in word], f"exh{n}+")
    for _ in range(300 if ctx.thorough else 90):
        n = rng.randint(2, 8)
        add(n, base.random_clifford_gates(rng, n, rng.randint(1, 6 * n)), "random")
    for _ in range(120 if ctx.thorough else 40):
        n = rng.randint(2, 8)
        c = random_clifford(n, seed=rng.randrange(10**6), return_circuit=True)
        add(n, list(c.queue), "random_clifford")
    # sparse tableaux: few gates on many qubits (pivots far from the diagonal, SWAP / H branches)
    for _ in range(120 if ctx.thorough else 40):
        n = rng.randint(3, 8)
        gs = []
        for _ in range(rng.randint(1, 4)):
            nm = rng.choice(["H", "S", "SWAP", "CNOT", "CZ", "SWAP", "iSWAP"])
            gs.append(getattr(gates, nm)(*(rng.sample(range(n), 2) if nm in ("SWAP", "CNOT", "CZ", "iSWAP") else [rng.randrange(n)])))
        add(n, gs, "sparse")
    return cases


def synth_correspondence(ctx, base):
    from qibo.quantum_info.clifford import Clifford

    be = base.cliff_backend()
    cases = synth_cases(ctx, base)
    lines = [f"AG {n} {base.tab_tokens(T)}" for n, _, T, _ in cases]
    outs = run_driver(lines, driver=DRIVER)
    bad = 0
    bad_prop = 0
    for (n, gs, T, tag), out in zip(cases, outs):
        parts = out.split(" | ")
        model_gates = parts[0].strip()
        model_rerun = parts[2].split()[: 2 * n] if len(parts) == 3 else []
        ctx.case(("synth", n, T[:-1].tobytes()))
        ctx.stat(f"synth_{tag}")
        ctx.stat(f"synth_n{n}")
        descr = [base.gate_src(g) for g in gs]
        src = base.HEAD + base.circuit_src(n, gs) + "be = CliffordBackend('numpy')\nr = be.execute_circuit(c)\nT = np.array(r.symplectic_matrix, copy=True)\n" \
            "c2 = r.to_circuit('AG04')\nassert np.array_equal(T, r.symplectic_matrix)\nr2 = be.execute_circuit(c2)\n" \
            "assert np.array_equal(np.asarray(r2.symplectic_matrix)[:-1], T[:-1])\nsv = NumpyBackend().execute_circuit(c2).state()\nassert np.allclose(np.outer(sv, sv.conj()), r.state(), atol=1e-9)\n"
        try:
            obj = Clifford(np.array(T, copy=True), engine="numpy")
            c2 = obj.to_circuit("AG04")
            real_gates = gates_str(c2.queue)
            again = gates_str(obj.to_circuit("AG04").queue)
            untouched = np.array_equal(np.asarray(obj.symplectic_matrix).astype(np.uint8), T)
            r2 = be.execute_circuit(c2)
            same_tab = c2.nqubits == n and np.array_equal(np.asarray(r2.symplectic_matrix).astype(np.uint8)[:-1], T[:-1])
            same_state = True
            if n <= 6:
                same_state = up_to_phase(base.sv_state(n, list(c2.queue)), base.sv_state(n, gs)) if gs else True
            flags = all(g.clifford for g in c2.queue)
            err = None
        except Exception as e:  # noqa: BLE001
            real_gates, again, untouched, same_tab, same_state, flags, err = None, None, False, False, False, False, f"{type(e).__name__}: {e}"
        prop_ok = err is None and same_tab and same_state and untouched and flags and again == real_gates
        corr_ok = real_gates == model_gates and model_rerun == base.tab_tokens(T).split()[: 2 * n]
        if len(ctx.samples) < 10 and n >= 2 and tag in ("random", "sparse") and len(model_gates) < 200:
            ctx.sample({"kind": "to_circuit-AG04", "n": n, "tableau": base.tab_tokens(T[:-1]), "gates": model_gates})
        if not corr_ok:
            bad += 1
        if not prop_ok:
            bad_prop += 1
            ctx.fail("to_circuit:AG04:gates", f"to_circuit('AG04') of the tableau of {descr} does not reproduce the tableau / state, mutates the object or is not repeatable ({err or ''})",
                     src, expected="same tableau, same state up to phase", observed=str(real_gates)[:300],
                     broken=["C12_search_to_circuit_AG04", "C12_corr_synth"])
        elif not corr_ok:
            # the real circuit is right but differs from the model: report the first difference;
            # no failing input of the property exists for it
            ctx.log(f"AG04 gate list differs from the model for n={n} {descr}: real {real_gates} / model {model_gates}")
    ctx.ob("C12_corr_synth", bad == 0, "correspondence", f"{bad} gate lists of {len(cases)} differ from the model" if bad else f"{len(cases)} tableaux, same gate list")
    ctx.ob("C12_search_to_circuit_AG04", bad_prop == 0, "search", f"{bad_prop} tableaux not reproduced" if bad_prop else "")
    return cases


def bm20_of(T, be):
    """real `to_circuit("BM20")` on a fresh object: (gate list | 'RAISES:<type>', reproduces?, circuit)."""
    from qibo.quantum_info.clifford import Clifford

    n = (T.shape[1] - 1) // 2
    try:
        obj = Clifford(np.array(T, copy=True), engine="numpy")
        c2 = obj.to_circuit("BM20")
    except Exception as e:  # noqa: BLE001
        return f"RAISES:{type(e).__name__}", None, None
    try:
        T2 = np.asarray(be.execute_circuit(c2).symplectic_matrix).astype(np.uint8) if c2.queue else np.asarray(be.zero_state(n)).astype(np.uint8)
        ok = c2.nqubits == n and np.array_equal(T2[:-1], T[:-1]) and np.array_equal(np.asarray(obj.symplectic_matrix).astype(np.uint8), T) and all(g.clifford for g in c2.queue)
    except Exception:  # noqa: BLE001
        ok = False
    return gates_str(c2.queue), ok, c2


def bm20_correspondence(ctx, base, cases):
    """the model of `to_circuit("BM20")` against the real one on the tableaux with n <= 3 (+ refusal for n = 4)."""
    be = base.cliff_backend()
    small = [(n, gs, T, tag) for n, gs, T, tag in cases if n <= 3]
    four = [(n, gs, T, tag) for n, gs, T, tag in cases if n == 4][:3]
    sel = small + four
    outs = run_driver([f"BM {n} {base.tab_tokens(T)}" for n, _, T, _ in sel], driver=DRIVER)
    bad = bad_prop = 0
    for (n, gs, T, tag), out in zip(sel, outs):
        ctx.case(("bm20", n, T[:-1].tobytes()))
        real, ok, c2 = bm20_of(T, be)
        model = out.split(" | ")[0].strip()
        descr = [base.gate_src(g) for g in gs]
        src = base.HEAD + f"T = np.array({T.tolist()}, dtype=np.uint8)\nbe = CliffordBackend('numpy')\n" \
            "c2 = Clifford(T.copy(), engine='numpy').to_circuit('BM20')\nr2 = be.execute_circuit(c2).symplectic_matrix if c2.queue else be.zero_state(c2.nqubits)\n" \
            "assert np.array_equal(np.asarray(r2).astype(int)[:-1], T[:-1]), np.asarray(r2).astype(int).tolist()\n"
        if n > 3:
            ctx.stat("bm20_n4")
            if not (real == "RAISES:ValueError" and model == "RAISES"):
                bad += 1
            continue
        if out.strip() != "RAISES":
            ctx.stat(f"bm20_cost{out.split(' | ')[2].strip()}_n{n}")
        same_state = True
        if ok and gs and c2 is not None:
            same_state = up_to_phase(base.sv_state(n, list(c2.queue)), base.sv_state(n, gs))
        if real != model:
            bad += 1
        if not ok or not same_state:
            bad_prop += 1
            ctx.fail("to_circuit:BM20:gates", f"to_circuit('BM20') of the tableau of {descr} raises or does not reproduce the tableau / state: {str(real)[:200]}",
                     src, expected=base.tab_tokens(T[:-1]), observed=str(real)[:300], broken=["C12_search_to_circuit_BM20", "C12_corr_synth_BM20"])
    ctx.ob("C12_corr_synth_BM20", bad == 0, "correspondence", f"{bad} gate lists of {len(sel)} differ from the model" if bad else f"{len(sel)} tableaux, same gate list")
    ctx.ob("C12_search_to_circuit_BM20", bad_prop == 0, "search", f"{bad_prop} tableaux not reproduced" if bad_prop else "")


def two_qubit_group(base):
    """all 11520 two-qubit tableaux (720 symplectic matrices x 16 sign patterns), generated by
    breadth-first search with the real engine functions H, S, CNOT, X, Z."""
    be = base.cliff_backend()
    eng = be.engine
    n = 2
    start = np.asarray(be.zero_state(n)).astype(bool)
    seen = {start[:-1].tobytes(): start}
    todo = [start]
    moves = [(eng.H, (0,)), (eng.H, (1,)), (eng.S, (0,)), (eng.S, (1,)), (eng.CNOT, (0, 1)), (eng.CNOT, (1, 0)), (eng.X, (0,)), (eng.Z, (0,))]
    while todo:
        T = todo.pop()
        for f, qs in moves:
            U = np.asarray(f(np.array(T, copy=True), *qs, n)).astype(bool)
            k = U[:-1].tobytes()
            if k not in seen:
                seen[k] = U
                todo.append(U)
    return [seen[k].astype(np.uint8) for k in sorted(seen)]


def group_suite(ctx, base):
    """n = 2 exhaustively (thorough; a seeded sample in the quick tier): AG04 against the model and
    both algorithms end to end on the real code (tableau of the returned circuit = tableau)."""
    from qibo.quantum_info.clifford import Clifford

    be = base.cliff_backend()
    tabs = two_qubit_group(base)
    ctx.stat("two_qubit_group_size", len(tabs))
    if not ctx.thorough:
        tabs = ctx.rng.sample(tabs, 400)
    lines = [f"AG 2 {base.tab_tokens(T)}" for T in tabs]
    outs = run_driver(lines, driver=DRIVER)
    outs_bm = run_driver([f"BM 2 {base.tab_tokens(T)}" for T in tabs], driver=DRIVER)
    bad_corr = bad_ag = bad_bm = 0
    for T, out, out_bm in zip(tabs, outs, outs_bm):
        ctx.case(("group2", T[:-1].tobytes()))
        head = base.HEAD + f"T = np.array({T.tolist()}, dtype=np.uint8)\nbe = CliffordBackend('numpy')\n"
        for alg in ("AG04", "BM20"):
            try:
                obj = Clifford(np.array(T, copy=True), engine="numpy")
                c2 = obj.to_circuit(alg)
                r2 = be.execute_circuit(c2) if c2.queue else None
                T2 = np.asarray(r2.symplectic_matrix).astype(np.uint8) if r2 is not None else np.asarray(be.zero_state(2)).astype(np.uint8)
                ok = np.array_equal(T2[:-1], T[:-1]) and np.array_equal(np.asarray(obj.symplectic_matrix).astype(np.uint8), T) and all(g.clifford for g in c2.queue)
                lst = gates_str(c2.queue)
            except Exception as e:  # noqa: BLE001
                ok, lst = False, f"{type(e).__name__}: {e}"
            if lst != (out if alg == "AG04" else out_bm).split(" | ")[0].strip():
                bad_corr += 1
            if not ok:
                if alg == "AG04":
                    bad_ag += 1
                else:
                    bad_bm += 1
                ctx.fail(f"to_circuit:{alg}:group2", f"to_circuit({alg!r}) of the 2-qubit tableau {base.tab_tokens(T[:-1])} does not reproduce it: {lst[:200]}",
                         head + f"c2 = Clifford(T.copy(), engine='numpy').to_circuit({alg!r})\nr2 = be.execute_circuit(c2).symplectic_matrix if c2.queue else be.zero_state(2)\n"
                         "assert np.array_equal(np.asarray(r2).astype(int)[:-1], T[:-1]), np.asarray(r2).astype(int).tolist()\n",
                         expected=base.tab_tokens(T[:-1]), broken=["C12_search_group2_" + alg, "C12_corr_synth_group2"])
    ctx.ob("C12_corr_synth_group2", bad_corr == 0, "correspondence", f"{bad_corr} gate lists differ from the model" if bad_corr else f"{len(tabs)} two-qubit tableaux")
    ctx.ob("C12_search_group2_AG04", bad_ag == 0, "search", "")
    ctx.ob("C12_search_group2_BM20", bad_bm == 0, "search", "")


# ----------------------------------------------------------------------------------
# acceptance
# ----------------------------------------------------------------------------------
def angle_index(theta, period):
    """exact spec of the engine's dispatch: k with theta = k * period up to 1e-9 (in multiples)."""
    m = theta / period
    k = round(m)
    return int(k) if abs(m - k) <= 1e-9 else None


def item_of(g):
    """(driver token, python source) of a queue entry as the backend sees it; flag from the REAL gate."""
    name = g.__class__.__name__
    if name == "M":
        return f"M {1 if g.collapse else 0} {len(g.target_qubits)} " + " ".join(str(q) for q in g.target_qubits)
    if name == "PauliNoiseChannel":
        drawn = getattr(g, "_c12_drawn", None)
        return f"N 1 {drawn} {g.target_qubits[0]} 0 0" if drawn else "N 0 NONE 0 0 0"
    flag = 1 if g.clifford else 0
    op = None
    if not g.is_controlled_by:
        if name in MODEL_FIXED:
            qs = list(g.init_args) + [0]
            op = f"{name} {qs[0]} {qs[1]} 0"
        elif name in ROT1:
            k = angle_index(float(g.parameters[0]), math.pi / 2)
            if k is not None:
                op = f"{name} {g.init_args[0]} 0 {k}"
        elif name in ROT2:
            k = angle_index(float(g.parameters[0]), math.pi)
            if k is not None:
                op = f"{name} {g.init_args[0]} {g.init_args[1]} {k}"
    return f"G {flag} 1 {op}" if op else f"G {flag} 0 NONE 0 0 0"


BOUNDARY = [0.0, math.pi / 2, -math.pi / 2, math.pi, 3 * math.pi / 2, 2 * math.pi, 41 * math.pi / 2, -38 * math.pi / 2,
            math.pi / 2 + 1e-13, math.pi / 2 + 1e-10, math.pi / 2 - 1e-10, math.pi / 2 + 1e-8, math.pi + 1e-13, math.pi - 1e-8,
            math.pi / 4, 3 * math.pi / 4, 0.3, 1.0, 1e-9, 1e-14]


def accept_gate(rng, n, base, clean=False):
    from qibo import gates

    u = rng.random()
    if clean:
        # only entries the backend accepts and has an operation for
        if u < 0.62:
            return base.random_clifford_gate(rng, n)
        if u < 0.74:
            name = rng.choice(ROT1 + (ROT2 if n > 1 else []))
            k = rng.randint(-9, 9)
            if name in ROT1:
                return getattr(gates, name)(rng.randrange(n), rng.choice([k * math.pi / 2, k * math.pi / 2 + 1e-13]))
            return getattr(gates, name)(*rng.sample(range(n), 2), k * math.pi)
        u = 0.86 + (u - 0.74) * (0.14 / 0.26)
    if u < 0.45:
        return base.random_clifford_gate(rng, n)
    if u < 0.62:
        name = rng.choice(ROT1 + (ROT2 if n > 1 else []))
        th = rng.choice(BOUNDARY)
        if name in ROT1:
            return getattr(gates, name)(rng.randrange(n), th)
        return getattr(gates, name)(*rng.sample(range(n), 2), th)
    if u < 0.70 and n > 1:
        # controlled rotations at odd multiples of pi/2: flagged (K12-2) but refused by the engine
        return getattr(gates, rng.choice(ROT2))(*rng.sample(range(n), 2), rng.choice([1, 3, -1, 5]) * math.pi / 2)
    if u < 0.80:
        q = rng.randrange(n)
        pool = [lambda: gates.T(q), lambda: gates.TDG(q), lambda: gates.U3(q, 0.1, 0.2, 0.3), lambda: gates.U1(q, math.pi / 2),
                lambda: gates.GPI2(q, 0.0), lambda: gates.RX(q, 0.3)]
        if n > 1:
            a, b = rng.sample(range(n), 2)
            pool += [lambda: gates.CSX(a, b), lambda: gates.SiSWAP(a, b), lambda: gates.RZZ(a, b, math.pi / 2), lambda: gates.H(a).controlled_by(b),
                     lambda: gates.X(a).controlled_by(b), lambda: gates.fSim(a, b, 0.0, 0.0)]
        if n > 2:
            a, b, c = rng.sample(range(n), 3)
            pool += [lambda: gates.TOFFOLI(a, b, c), lambda: gates.X(a).controlled_by(b, c)]
        return rng.choice(pool)()
    if u < 0.86:
        # a unitary declared Clifford by its user: accepted by the loop, no engine operation
        q = rng.randrange(n)
        g = gates.Unitary(np.array([[1, 1], [1, -1]]) / math.sqrt(2), q)
        g.clifford = rng.random() < 0.7
        return g
    if u < 0.93:
        qs = rng.sample(range(n), rng.randint(1, n))
        return gates.M(*qs, collapse=rng.random() < 0.5)
    q = rng.randrange(n)
    p = rng.choice(["X", "Y", "Z"])
    sure = rng.random() < 0.7
    g = gates.PauliNoiseChannel(q, [(p, 1.0 if sure else 0.0)])
    g._c12_drawn = p if sure else None
    return g


def clone(g):
    from qibo import gates

    name = g.__class__.__name__
    if name == "M":
        return gates.M(*g.target_qubits, collapse=g.collapse)
    if name == "PauliNoiseChannel":
        drawn = getattr(g, "_c12_drawn", None)
        h = gates.PauliNoiseChannel(g.target_qubits[0], [(drawn or "X", 1.0 if drawn else 0.0)])
        h._c12_drawn = drawn
        return h
    if name == "Unitary":
        h = gates.Unitary(np.array([[1, 1], [1, -1]]) / math.sqrt(2), *g.target_qubits)
        h.clifford = g.clifford
        return h
    if g.is_controlled_by:
        kw = {k: v for k, v in g.init_kwargs.items() if k in ("theta", "phi", "lam")}
        extra = [q for q in g.control_qubits if q not in g.init_args]
        return g.__class__(*g.init_args, **kw).controlled_by(*extra)
    return g.__class__(*g.init_args, **g.init_kwargs)


def src_of(g, base):
    name = g.__class__.__name__
    if name == "PauliNoiseChannel":
        drawn = getattr(g, "_c12_drawn", None)
        return f"gates.PauliNoiseChannel({g.target_qubits[0]}, [({(drawn or 'X')!r}, {1.0 if drawn else 0.0})])"
    if name == "Unitary":
        return f"_u({g.target_qubits[0]}, {bool(g.clifford)})"
    return base.gate_src(g)


CTRL_BASES = {"X": 1, "Y": 1, "Z": 1, "H": 1, "S": 1, "SDG": 1, "SX": 1, "SXDG": 1, "SWAP": 2, "iSWAP": 2, "FSWAP": 2, "ECR": 2}


def controlled_variant(rng, n, name):
    """`Base(targets).controlled_by(1..3 controls)` that KEEPS the class of the base gate (an object of a
    Clifford class whose own flag is False); None if the register is too small / qibo falls back to
    another class (CNOT, CZ, CY, TOFFOLI)."""
    from qibo import gates

    nt = CTRL_BASES[name]
    for _ in range(12):
        if n - nt < 1:
            return None
        k = rng.randint(1, min(3, n - nt))
        qs = rng.sample(range(n), nt + k)
        g = getattr(gates, name)(*qs[:nt]).controlled_by(*qs[nt:])
        if g.is_controlled_by and g.__class__.__name__ == name:
            return g
    return None


def controlled_families(rng, base, count):
    """circuits in which an unflagged `controlled_by` gate shares its class with flagged gates of the
    same circuit (earlier, later, both, none) or of an earlier execution on the same backend object:
    (n, gates, prior gates or None, shape)."""
    from qibo import gates

    out = []
    shapes = ["after", "between", "before", "alone", "twice", "prior", "prior-and-after"]
    names = sorted(CTRL_BASES)
    for i in range(count):
        name = names[i % len(names)] if i < 2 * len(names) else rng.choice(names)
        nt = CTRL_BASES[name]
        n = rng.randint(nt + (3 if name == "X" else 2 if name in ("Y", "Z") else 1), 5)
        cg = controlled_variant(rng, n, name)
        if cg is None:
            continue
        shape = shapes[i % len(shapes)] if i < 3 * len(shapes) else rng.choice(shapes)

        def plain():
            return getattr(gates, name)(*rng.sample(range(n), nt))

        def fill(k):
            return [g for g in base.random_clifford_gates(rng, n, k, rotations=False)]

        def fill_other(k):
            return [g for g in fill(k) if g.__class__.__name__ != name]

        prior = None
        if shape == "after":
            gs = fill(rng.randint(0, 3)) + [plain()] + fill(rng.randint(0, 3)) + [cg] + fill(rng.randint(0, 2))
        elif shape == "between":
            gs = [plain()] + fill(rng.randint(0, 3)) + [cg] + fill(rng.randint(0, 3)) + [plain()]
        elif shape == "before":
            gs = fill_other(rng.randint(0, 3)) + [cg] + fill(rng.randint(0, 2)) + [plain()]
        elif shape == "alone":
            gs = fill_other(rng.randint(0, 4)) + [cg] + fill_other(rng.randint(0, 3))
        elif shape == "twice":
            cg2 = controlled_variant(rng, n, name) or cg
            gs = [plain(), cg] + fill(rng.randint(0, 2)) + [clone(cg2), plain()]
        elif shape == "prior":
            prior = fill(rng.randint(0, 3)) + [plain(), plain()]
            gs = fill_other(rng.randint(0, 3)) + [cg] + fill_other(rng.randint(0, 2))
        else:
            prior = [plain()] + fill(rng.randint(0, 3))
            gs = [plain()] + fill(rng.randint(0, 2)) + [cg]
        out.append((n, gs, prior, f"{shape}:{name}"))
    return out


DEMO_CONTROLLED = [
    (4, lambda g: [g.H(0), g.H(1), g.H(2).controlled_by(0)]),
    (4, lambda g: [g.H(0), g.H(1), g.H(2), g.Z(3), g.Z(2).controlled_by(0, 1)]),
    (4, lambda g: [g.H(0), g.H(1), g.S(0), g.S(1).controlled_by(0)]),
    (4, lambda g: [g.H(0), g.H(1), g.H(2), g.X(1), g.X(3).controlled_by(0, 1, 2)]),
    (4, lambda g: [g.H(0), g.H(1), g.SWAP(0, 3), g.SWAP(1, 2).controlled_by(3)]),
    (4, lambda g: [g.H(0), g.H(1), g.Y(3), g.Y(2).controlled_by(0, 1)]),
    (3, lambda g: [g.H(2).controlled_by(0), g.H(0)]),
    (3, lambda g: [g.SDG(1), g.SDG(2).controlled_by(1), g.SDG(0)]),
]


def controlled_refusal_search(ctx, base):
    """direct search on the real code: a circuit containing a `controlled_by` gate whose operator does
    not map Paulis to Paulis (own numeric test on the full matrix) must be refused through every
    entry point, wherever gates of the same class occur; if it is accepted the state is compared."""
    from qibo import gates
    from qibo.backends import CliffordBackend
    from qibo.quantum_info.clifford import Clifford
    from vlib import qgates

    rng = ctx.rng
    bad0 = len(ctx.failures)
    fams = [(n, mk(gates), None, "demo") for n, mk in DEMO_CONTROLLED]
    fams += controlled_families(rng, base, 120 if ctx.thorough else 45)
    for n, gs, prior, shape in fams:
        descr = [base.gate_src(g) for g in gs]
        ctx.case(("refuse-controlled", n, tuple(descr), None if prior is None else tuple(base.gate_src(g) for g in prior)))
        ctx.stat("refuse_controlled_" + shape.split(":")[0])
        # reference: which entries are not Clifford operators
        culprits = [g for g in gs if g.is_controlled_by and not base.is_clifford_matrix(qgates.gate_full_matrix(g, n))]
        if not culprits:
            ctx.stat("refuse_controlled_reference_clifford")
            continue
        name = culprits[0].__class__.__name__
        for how in ("backend", "backend-nshots", "Clifford", "from_circuit"):
            be = CliffordBackend("numpy")
            try:
                if prior is not None:
                    be.execute_circuit(base.build(n, [clone(g) for g in prior]))
                c = base.build(n, [clone(g) for g in gs])
                if how == "backend":
                    r = be.execute_circuit(c, nshots=1)
                elif how == "backend-nshots":
                    r = be.execute_circuit(c)
                elif how == "Clifford":
                    r = Clifford(c, engine="numpy")
                else:
                    r = Clifford.from_circuit(c, engine="numpy")
            except Exception:  # noqa: BLE001
                ctx.stat("refused_controlled")
                continue
            try:
                psi = base.sv_state(n, gs)
                same = np.allclose(np.asarray(r.state()), np.outer(psi, psi.conj()), atol=1e-9)
            except Exception:  # noqa: BLE001
                same = False
            pre = "" if prior is None else f"p = Circuit({n})\nfor g in [{', '.join(base.gate_src(g) for g in prior)}]:\n    p.add(g)\nbe.execute_circuit(p)\n"
            ctx.fail(f"accepts-nonclifford:controlled-{name}",
                     f"circuit containing the non-Clifford gate {base.gate_src(culprits[0])} (class {name} kept by controlled_by) is accepted ({how}, shape {shape}"
                     f"{', after an execution of ' + str([base.gate_src(g) for g in prior]) + ' on the same backend object' if prior is not None else ''})"
                     f"{'' if same else ' and the stabiliser state differs from the state-vector result'}: {descr}",
                     base.HEAD + "be = CliffordBackend('numpy')\n" + pre + base.circuit_src(n, gs) +
                     "try:\n    be.execute_circuit(c, nshots=1)\nexcept RuntimeError as e:\n    raise SystemExit(0 if 'non-Clifford' in str(e) else 'other error: ' + str(e))\nraise SystemExit('accepted a non-Clifford circuit')\n",
                     expected="RuntimeError: Circuit contains non-Clifford gates.", observed="accepted" + ("" if same else ", wrong state"),
                     broken=["C12_search_refuse_controlled"])
            break
    ctx.ob("C12_search_refuse_controlled", len(ctx.failures) == bad0, "search", "")


def huge_angle_circuits(rng, base, count):
    """rotations at huge multiples of the period: RX/RY/RZ at k*pi/2 (and off by a quarter period),
    CRX/CRY/CRZ at k*pi and at (k + 1/2)*pi (flag True by known finding K12-2 where the float quotient
    is an integer: the engine must raise ValueError), 10^4 <= |k| <= 10^7, after a short Clifford prefix."""
    from qibo import gates

    out = []
    decades = [(10**4, 10**5), (5 * 10**4, 2 * 10**5), (10**5, 10**6), (10**6, 10**7)]
    for i in range(count):
        lo, hi = decades[i % len(decades)]
        k = rng.randint(lo, hi) * rng.choice([1, -1])
        kind = i % 6
        n = rng.randint(2, 4)
        pre = base.random_clifford_gates(rng, n, rng.randint(0, 4), rotations=False)
        g = None
        if kind in (0, 1):
            name = rng.choice(ROT2)
            # (k + 1/2) * pi: prefer spellings whose flag is True (the interesting case), up to 30 tries
            for _ in range(30):
                th = rng.choice([(k + 0.5) * math.pi, (2 * k + 1) * (math.pi / 2), (2 * k + 1) * math.pi / 2])
                g = getattr(gates, name)(*rng.sample(range(n), 2), th)
                if g.clifford:
                    break
                k += rng.choice([1, -1])
        elif kind == 2:
            g = getattr(gates, rng.choice(ROT2))(*rng.sample(range(n), 2), rng.choice([k * math.pi, (2 * k) * (math.pi / 2)]))
        elif kind in (3, 4):
            for _ in range(30):
                g = getattr(gates, rng.choice(ROT1))(rng.randrange(n), rng.choice([k * math.pi / 2, k * (math.pi / 2), (k / 2) * math.pi]))
                if g.clifford:
                    break
                k += 1
        else:
            g = getattr(gates, rng.choice(ROT1))(rng.randrange(n), (k + rng.choice([0.5, 0.25])) * math.pi / 2)
        out.append((n, pre + [g] + base.random_clifford_gates(rng, n, rng.randint(0, 2), rotations=False)))
    return out


def accept_correspondence(ctx, base):
    from qibo import gates

    rng = ctx.rng
    np.random.seed(rng.randrange(2**32))
    be = base.cliff_backend()
    circuits = []
    # fixed boundary cases
    fixed = [
        (1, [gates.T(0)], None), (1, [gates.H(0), gates.T(0)], None), (2, [gates.T(1), gates.H(0)], None),
        (2, [gates.H(0), gates.M(0, collapse=True), gates.T(1)], None), (2, [gates.M(0), gates.T(1)], None),
        (2, [gates.CRX(0, 1, math.pi / 2)], None), (2, [gates.CRX(0, 1, math.pi)], None), (2, [gates.CRZ(1, 0, 3 * math.pi / 2), gates.T(0)], None),
        (1, [gates.RX(0, math.pi / 2 + 1e-13)], None), (1, [gates.RX(0, math.pi / 2 + 1e-10)], None), (1, [gates.RZ(0, 1e-14)], None),
        (2, [gates.H(0), gates.CNOT(0, 1), gates.M(1, 0, collapse=True)], None), (3, [gates.H(2), gates.CNOT(2, 0), gates.M(2, 0, 1, collapse=True), gates.CNOT(0, 1)], None),
        (2, [gates.H(0).controlled_by(1)], None), (1, [], None),
    ]
    for n, gs, init in fixed:
        circuits.append((n, gs, init, None))
    # unflagged controlled_by gates sharing their class with flagged gates (same circuit / earlier execution)
    for n, mk in DEMO_CONTROLLED:
        circuits.append((n, mk(gates), None, None))
    for n, gs, prior, _shape in controlled_families(rng, base, 150 if ctx.thorough else 56):
        circuits.append((n, gs, None, prior))
    for _ in range(420 if ctx.thorough else 140):
        n = rng.randint(1, 5)
        clean = rng.random() < 0.5
        gs = [accept_gate(rng, n, base, clean) for _ in range(rng.randint(1, 12 if clean else 8))]
        init = None
        if rng.random() < 0.3:
            pre = base.random_clifford_gates(rng, n, rng.randint(0, 8))
            init = np.asarray(be.execute_circuit(base.build(n, pre or [gates.I(0)])).symplectic_matrix).astype(np.uint8)
        circuits.append((n, gs, init, None))
    # HUGE multiples: k*pi/2 and (k + 1/2)*pi with |k| up to 10^7 (float spacing still resolves pi/2): the
    # engine must dispatch on the exact integer index or raise, never round a half-integer multiple of pi
    for n, gs in huge_angle_circuits(rng, base, 90 if ctx.thorough else 36):
        circuits.append((n, gs, None, None))
    # every position of one unflagged gate in an otherwise Clifford circuit (first, last, behind M)
    for _ in range(30 if ctx.thorough else 10):
        n = rng.randint(1, 4)
        body = [base.random_clifford_gate(rng, n) for _ in range(rng.randint(1, 5))]
        for pos in range(len(body) + 1):
            circuits.append((n, body[:pos] + [gates.T(rng.randrange(n))] + body[pos:], None, None))
    lines, real, kept = [], [], []
    for n, gs, init, prior in circuits:
        gs = [clone(g) for g in gs]
        try:
            c = base.build(n, gs)
            cp = None if prior is None else base.build(n, [clone(g) for g in prior])
        except Exception:  # noqa: BLE001  (Circuit.add refuses the queue: not about the backend)
            ctx.stat("accept_unbuildable")
            continue
        kept.append((n, gs, init, prior))
        init_in = None if init is None else np.array(init, copy=True)
        run_be = be
        if cp is not None:
            # an earlier execution of flagged gates of the same classes on the SAME (fresh) backend object
            from qibo.backends import CliffordBackend

            run_be = CliffordBackend("numpy")
            run_be.execute_circuit(cp, nshots=1)
        try:
            r = run_be.execute_circuit(c, initial_state=init_in, nshots=1)
            T = np.asarray(r.symplectic_matrix).astype(np.uint8)
            outs = []
            coins = []
            for g in gs:
                if g.__class__.__name__ == "M" and g.collapse:
                    bits = [int(b) for b in np.asarray(g.result.samples()[0]).reshape(-1)]
                    outs.append("".join(map(str, bits)))
                    qs = list(g.target_qubits)
                    coins += [bits[qs.index(q)] for q in sorted(qs)]
            res = ("DONE", base.tab_tokens(T), ",".join(outs))
        except RuntimeError as e:
            res = ("REFUSED",) if REFUSAL_MSG in str(e) else ("ENGINE", type(e).__name__)
            coins = []
        except Exception as e:  # noqa: BLE001
            res = ("ENGINE", type(e).__name__)
            coins = []
        if res[0] == "REFUSED":
            # the default number of shots (repeated-execution branch for collapse / noise entries) and the
            # Clifford(circuit) constructor must refuse in the same way
            for how in ("nshots", "Clifford"):
                try:
                    c3 = base.build(n, [clone(g) for g in gs])
                    if how == "nshots":
                        run_be.execute_circuit(c3, initial_state=None if init is None else np.array(init, copy=True))
                    else:
                        from qibo.quantum_info.clifford import Clifford

                        Clifford(c3, engine="numpy")
                    res = ("DONE", f"accepted-by-{how}", "")
                except RuntimeError as e:
                    if REFUSAL_MSG not in str(e):
                        res = ("ENGINE", type(e).__name__)
                except Exception as e:  # noqa: BLE001
                    res = ("ENGINE", type(e).__name__)
        items = [item_of(g) for g in gs]
        lines.append(f"EX {n} {0 if init is None else 1} {'' if init is None else base.tab_tokens(init)} {len(items)} " + " ".join(items) + f" {len(coins)} " + " ".join(map(str, coins)))
        real.append(res)
    outs = run_driver(lines, driver=DRIVER)
    bad = 0
    circuits = kept
    for (n, gs, init, prior), res, out in zip(circuits, real, outs):
        descr = [src_of(g, base) for g in gs]
        ctx.case(("accept", n, tuple(descr), None if init is None else init.tobytes(), None if prior is None else tuple(src_of(g, base) for g in prior)))
        if any(g.is_controlled_by for g in gs if g.__class__.__name__ not in ("M", "PauliNoiseChannel")):
            ctx.stat("accept_with_controlled_by" + ("_after_prior_execution" if prior is not None else ""))
        kinds = {("M" if g.__class__.__name__ == "M" else "N" if g.__class__.__name__ == "PauliNoiseChannel" else "G") for g in gs}
        ctx.stat(f"accept_{res[0]}")
        ctx.stat("accept_with_" + "".join(sorted(kinds)))
        if out.startswith("DONE"):
            body = out[5:].split(" | ")
            model = ("DONE", body[0].strip(), body[1].strip() if len(body) > 1 else "")
        else:
            model = (out.strip(),)
        ok = model[0] == res[0] and (model[0] != "DONE" or (model[1] == res[1] and model[2] == res[2]))
        if len(ctx.samples) < 14 and len(gs) <= 5 and res[0] != "DONE":
            ctx.sample({"kind": "execute_circuit", "n": n, "gates": descr, "answer": res[0] + (":" + res[1] if res[0] == "ENGINE" else "")})
        if ok:
            continue
        bad += 1
        flags = [bool(g.clifford) for g in gs if g.__class__.__name__ not in ("M", "PauliNoiseChannel")]
        body = "def _u(q, flag):\n    g = gates.Unitary(np.array([[1, 1], [1, -1]]) / np.sqrt(2), q)\n    g.clifford = flag\n    return g\n" \
            f"c = Circuit({n})\nfor g in [{', '.join(descr)}]:\n    c.add(g)\n" \
            + ("init = None\n" if init is None else f"init = np.array({init.tolist()}, dtype=np.uint8)\n") \
            + "be = CliffordBackend('numpy')\n" \
            + ("" if prior is None else f"p = Circuit({n})\nfor g in [{', '.join(src_of(g, base) for g in prior)}]:\n    p.add(g)\nbe.execute_circuit(p, nshots=1)\n")
        if model[0] == "REFUSED":
            key = "accepts-nonclifford:" + next((g.__class__.__name__ for g in gs if g.__class__.__name__ not in ("M", "PauliNoiseChannel") and not g.clifford), "?")
            if prior is not None:
                key += ":after-execution"
            what = f"circuit containing a gate with clifford == False is not refused with RuntimeError (answer {res[0]}{':' + res[1] if res[0] == 'ENGINE' else ''}): {descr}"
            test = "try:\n    be.execute_circuit(c, initial_state=init, nshots=1)\nexcept RuntimeError as e:\n    raise SystemExit(0 if 'non-Clifford' in str(e) else 'other error: ' + str(e))\nexcept Exception as e:\n    raise SystemExit('wrong exception ' + type(e).__name__)\nraise SystemExit('accepted')\n"
        elif res[0] == "REFUSED":
            key = "refuses-clifford-circuit"
            what = f"circuit whose gates all have clifford == True (flags {flags}) is refused: {descr}"
            test = "be.execute_circuit(c, initial_state=init, nshots=1)\n"
        elif model[0] == "DONE":
            key = "state:accepted-circuit"
            what = f"accepted circuit: tableau / collapse outcomes differ from the fold of the tableau operations (answer {res[0]}): {descr}"
            test = f"r = be.execute_circuit(c, initial_state=init, nshots=1)\nexpected = {model[1]!r}\n" \
                "got = ' '.join(''.join(str(int(b)) for b in row) for row in np.asarray(r.symplectic_matrix).astype(int))\nassert got == expected, got\n"
        else:
            key = "accepts-engine-refused-gate"
            what = f"a flagged gate without Clifford operation is executed instead of raising: {descr}"
            test = "try:\n    be.execute_circuit(c, initial_state=init, nshots=1)\nexcept Exception:\n    raise SystemExit(0)\nraise SystemExit('executed')\n"
        ctx.fail(key, what, base.HEAD + body + test, expected=" ".join(model)[:300], observed=" ".join(res)[:300], broken=["C12_corr_accept"])
    ctx.ob("C12_corr_accept", bad == 0, "correspondence", f"{bad} disagreements of {len(circuits)}" if bad else f"{len(circuits)} circuits")


SV_REPLAY = """
P = {'X': np.array([[0, 1], [1, 0]]), 'Y': np.array([[0, -1j], [1j, 0]]), 'Z': np.diag([1, -1])}
def full(g, n):
    cc = Circuit(n); cc.add(g); return np.asarray(cc.unitary())
def history_possible(n, prep, items, mids, final_qs, final_bits):
    psi = np.zeros(2 ** n, dtype=complex); psi[0] = 1
    for g in prep:
        psi = full(g, n) @ psi
    it = iter(mids)
    for kind, g in items:
        if kind == 'G':
            psi = full(g, n) @ psi
        elif kind == 'N':
            psi = full(g, n) @ psi
        elif kind == 'C':
            qs, bits = g, next(it)
            keep = np.array([all(((i >> (n - 1 - q)) & 1) == int(b) for q, b in zip(qs, bits)) for i in range(2 ** n)])
            psi = np.where(keep, psi, 0)
            if np.linalg.norm(psi) < 1e-9:
                return False
    p = sum(abs(psi[i]) ** 2 for i in range(2 ** n) if all(((i >> (n - 1 - q)) & 1) == int(b) for q, b in zip(final_qs, final_bits)))
    return p > 1e-9
"""


def _history_possible(base, n, prep, gs, mids, final_qs, final_bits):
    """projective state-vector simulation from the state prepared by `prep`: can the collapse outcomes
    `mids` (one list per collapsing M, gate order) and the final sample occur?"""
    from vlib import qgates

    psi = base.sv_state(n, prep) if prep else np.eye(2**n, dtype=complex)[:, 0]
    it = iter(mids)
    for g in gs:
        name = g.__class__.__name__
        if name == "M":
            if not g.collapse:
                continue
            bits = next(it)
            keep = np.array([all(((i >> (n - 1 - q)) & 1) == int(b) for q, b in zip(g.target_qubits, bits)) for i in range(2**n)])
            psi = np.where(keep, psi, 0)
            if np.linalg.norm(psi) < 1e-9:
                return False
        elif name == "PauliNoiseChannel":
            drawn = getattr(g, "_c12_drawn", None)
            if drawn:
                from qibo import gates

                psi = qgates.gate_full_matrix(getattr(gates, drawn)(g.target_qubits[0]), n) @ psi
        else:
            psi = qgates.gate_full_matrix(g, n) @ psi
    p = sum(abs(psi[i]) ** 2 for i in range(2**n) if all(((i >> (n - 1 - q)) & 1) == int(b) for q, b in zip(final_qs, final_bits)))
    return p > 1e-9


def repeated_correspondence(ctx, base):
    """`execute_circuit(circuit, initial_state, nshots)` with collapsing measurements / noise draws
    (repeated-execution path for nshots != 1) against the model `executeRepeated`: per shot the
    collapse outcomes and the final sample, the observed random bits being fed to the model as coins
    (every determined bit must then coincide), and against the projective state-vector simulation
    from the state the initial tableau was prepared in."""
    from qibo import gates
    from qibo.backends import CliffordBackend

    rng = ctx.rng
    np.random.seed(rng.randrange(2**32))
    cases = []
    # the documented situation: |10>, M(0, collapse), CNOT(0,1), M(0,1) -> 11 in every shot
    cases.append((2, [gates.X(0)], [gates.M(0, collapse=True), gates.CNOT(0, 1), gates.M(0, 1)], 5))
    ch = gates.PauliNoiseChannel(1, [("X", 1.0)])
    ch._c12_drawn = "X"
    cases.append((2, [gates.X(0)], [ch, gates.M(0, 1)], 2))
    cases.append((2, [gates.X(1), gates.H(0)], [gates.CNOT(0, 1), gates.M(1, 0, collapse=True), gates.H(0), gates.M(1), gates.M(0)], 5))
    for i in range(110 if ctx.thorough else 36):
        n = rng.randint(1, 4)
        prep = base.random_clifford_gates(rng, n, rng.randint(0, 8), rotations=False) if i % 4 else []
        if i % 4 and rng.random() < 0.5:
            prep = [gates.X(q) for q in range(n) if rng.random() < 0.6] + prep
        gs = []
        need = rng.choice(["M", "N", "MN"])
        for _ in range(rng.randint(0, 3)):
            gs.append(base.random_clifford_gate(rng, n, False))
        if "M" in need:
            gs.append(gates.M(*rng.sample(range(n), rng.randint(1, n)), collapse=True))
            for _ in range(rng.randint(0, 3)):
                gs.append(base.random_clifford_gate(rng, n, False))
        if "N" in need:
            q = rng.randrange(n)
            p = rng.choice(["X", "Y", "Z"])
            sure = rng.random() < 0.7
            g = gates.PauliNoiseChannel(q, [(p, 1.0 if sure else 0.0)])
            g._c12_drawn = p if sure else None
            gs.append(g)
            for _ in range(rng.randint(0, 2)):
                gs.append(base.random_clifford_gate(rng, n, False))
        fin = rng.sample(range(n), rng.randint(1, n))
        if len(fin) > 1 and rng.random() < 0.4:
            cut = rng.randint(1, len(fin) - 1)
            gs += [gates.M(*fin[:cut]), gates.M(*fin[cut:])]
        else:
            gs.append(gates.M(*fin))
        cases.append((n, prep, gs, rng.choice([1, 2, 5])))
    lines, meta = [], []
    for n, prep, gs, nshots in cases:
        gs = [clone(g) for g in gs]
        be = CliffordBackend("numpy")
        init = None
        if prep:
            init = np.asarray(be.execute_circuit(base.build(n, base.regen(prep))).symplectic_matrix).astype(np.uint8)
        try:
            c = base.build(n, gs)
        except Exception:  # noqa: BLE001
            ctx.stat("repeated_unbuildable")
            continue
        final_qs = [q for m in c.measurements for q in m.target_qubits]
        collapsing = [g for g in gs if g.__class__.__name__ == "M" and g.collapse]
        descr = [src_of(g, base) for g in gs]
        pdescr = [base.gate_src(g) for g in prep]
        ctx.case(("repeated", n, tuple(pdescr), tuple(descr), nshots))
        ctx.stat(f"repeated_nshots{nshots}" + ("_init" if prep else ""))
        err = None
        try:
            init_in = None if init is None else np.array(init, copy=True)
            r = be.execute_circuit(c, initial_state=init_in, nshots=nshots)
            F = np.asarray(r.samples()).astype(int).reshape(nshots, len(final_qs))
            mids = [[[int(b) for b in np.asarray(g.result.samples()[i]).reshape(-1)] for g in collapsing] for i in range(nshots)]
            untouched = init is None or np.array_equal(init_in, init)
        except Exception as e:  # noqa: BLE001
            err = f"{type(e).__name__}: {e}"
        if err is None:
            shots = []
            for i in range(nshots):
                coins = []
                for g, bits in zip(collapsing, mids[i]):
                    qs = list(g.target_qubits)
                    coins += [bits[qs.index(q)] for q in sorted(qs)]
                shots.append(f"{len(coins)} " + " ".join(map(str, coins)) + " " + " ".join(str(int(b)) for b in F[i]))
            items = [item_of(g) for g in gs]
            lines.append(f"RP {n} {0 if init is None else 1} {'' if init is None else base.tab_tokens(init)} {len(items)} " + " ".join(items)
                         + f" {len(final_qs)} " + " ".join(map(str, final_qs)) + f" {nshots} " + " ".join(shots))
        else:
            lines.append("")
        meta.append((n, prep, gs, nshots, final_qs, err, None if err else (F, mids, untouched), descr, pdescr))
    outs = run_driver([l for l in lines if l], driver=DRIVER)
    oi = iter(outs)
    bad = 0
    for (n, prep, gs, nshots, final_qs, err, obs, descr, pdescr), line in zip(meta, lines):
        out = next(oi) if line else None
        ok = err is None
        why = err or ""
        if ok:
            F, mids, untouched = obs
            real = " / ".join(",".join("".join(map(str, b)) for b in mids[i]) + ";" + "".join(str(int(b)) for b in F[i]) for i in range(nshots))
            if out.strip() != real:
                ok, why = False, f"model {out.strip()} / real {real}"
            elif not untouched:
                ok, why = False, "initial_state mutated"
            else:
                for i in range(nshots):
                    if not _history_possible(base, n, prep, gs, mids[i], final_qs, F[i]):
                        ok, why = False, f"shot {i} impossible for the state-vector simulation: {real}"
                        break
        if ok:
            continue
        bad += 1
        key = ("repeated:initial-state" if prep else "repeated:history") + ("" if nshots != 1 else ":single-run")
        items_src = ", ".join(("('C', %r)" % (list(g.target_qubits),)) if (g.__class__.__name__ == "M" and g.collapse)
                              else ("('N', gates.%s(%d))" % (g._c12_drawn, g.target_qubits[0])) if g.__class__.__name__ == "PauliNoiseChannel" and getattr(g, "_c12_drawn", None)
                              else ("('G', %s)" % base.gate_src(g)) for g in gs
                              if not (g.__class__.__name__ == "M" and not g.collapse) and not (g.__class__.__name__ == "PauliNoiseChannel" and not getattr(g, "_c12_drawn", None)))
        mvars = [f"m{j}" for j, g in enumerate(gs) if g.__class__.__name__ == "M" and g.collapse]
        build_lines = []
        j = 0
        for idx, g in enumerate(gs):
            if g.__class__.__name__ == "M" and g.collapse:
                build_lines.append(f"m{idx} = gates.M({', '.join(map(str, g.target_qubits))}, collapse=True)\nc.add(m{idx})\n")
            else:
                build_lines.append(f"c.add({src_of(g, base)})\n")
        py = base.HEAD + SV_REPLAY + f"np.random.seed(7)\nn = {n}\nprep = [{', '.join(pdescr)}]\nbe = CliffordBackend('numpy')\n" \
            + ("init = None\n" if not prep else f"p = Circuit(n)\nfor g in prep:\n    p.add(g)\ninit = be.execute_circuit(p).symplectic_matrix\n") \
            + "c = Circuit(n)\n" + "".join(build_lines) \
            + f"r = be.execute_circuit(c, initial_state=None if init is None else np.copy(init), nshots={nshots if nshots == 1 else max(nshots, 5)})\nF = np.asarray(r.samples()).reshape(-1, len({final_qs}))\n" \
            + f"final_qs = {final_qs}\nitems = [{items_src}]\nmgs = [{', '.join(mvars)}]\n" \
            + "for i, row in enumerate(F):\n    mids = [np.asarray(m.result.samples()[i]).reshape(-1) for m in mgs]\n" \
            + "    assert history_possible(n, prep, items, mids, final_qs, row), (i, [list(map(int, m)) for m in mids], list(map(int, row)))\n"
        ctx.fail(key, f"execute_circuit(initial_state prepared by {pdescr}, nshots={nshots}) of {descr}: {why[:300]}", py,
                 expected="every shot a possible history from the prepared state, determined bits as in the model", observed=why[:300], broken=["C12_corr_repeated"])
    ctx.ob("C12_corr_repeated", bad == 0, "correspondence", f"{bad} disagreements of {len(meta)}" if bad else f"{len(meta)} executions")


def stim_controlled_search(ctx, base):
    """the stim engine must refuse (or simulate correctly) unflagged `controlled_by` gates whose class
    name it knows: they are not Clifford operations."""
    try:
        import stim  # noqa: F401
    except Exception:  # noqa: BLE001
        return
    from qibo import gates

    bad0 = len(ctx.failures)
    be = base.cliff_backend("stim")
    cases = [(3, [gates.H(0), gates.H(1).controlled_by(0)]), (3, [gates.H(0), gates.S(1).controlled_by(0)]),
             (3, [gates.H(0), gates.H(1), gates.Z(2).controlled_by(0, 1)]), (4, [gates.H(0), gates.H(1), gates.H(2), gates.X(3).controlled_by(0, 1, 2)]),
             (3, [gates.H(0), gates.H(1), gates.Y(2).controlled_by(0, 1)]), (2, [gates.H(0), gates.SX(1).controlled_by(0)]),
             (2, [gates.H(1).controlled_by(0), gates.H(0)])]
    for n, gs in cases:
        ctx.case(("stim-controlled", n, tuple(base.gate_src(g) for g in gs)))
        try:
            r = be.execute_circuit(base.build(n, [clone(g) for g in gs]))
        except Exception:  # noqa: BLE001
            ctx.stat("stim_refused_controlled")
            continue
        psi = base.sv_state(n, gs)
        try:
            same = np.allclose(np.asarray(r.state()), np.outer(psi, psi.conj()), atol=1e-9)
        except Exception:  # noqa: BLE001
            same = False
        if same:
            ctx.stat("stim_controlled_right_state")
            continue
        ctx.fail("stim-accepts-nonclifford:controlled_by",
                 f"the stim engine accepts the non-Clifford circuit {[base.gate_src(g) for g in gs]} and executes the controlled gate as the uncontrolled gate on controls and targets (wrong state)",
                 base.HEAD + base.circuit_src(n, gs) + "try:\n    r = CliffordBackend('stim').execute_circuit(c)\nexcept Exception:\n    raise SystemExit(0)\n"
                 "sv = NumpyBackend().execute_circuit(c).state()\nassert np.allclose(r.state(), np.outer(sv, sv.conj()), atol=1e-9), 'accepted, wrong state'\n",
                 expected="RuntimeError: Circuit contains non-Clifford gates.", observed="accepted, wrong state", broken=["C12_search_stim_controlled"])
    ctx.ob("C12_search_stim_controlled", len(ctx.failures) == bad0, "search", "")


def result_order_search(ctx, base):
    """qubit ORDER of the views of a Clifford result: samples / frequencies / registers follow the order
    of the measurement gates, `probabilities(qubits)` the REQUESTED order, for every ordered subset of
    the measured qubits (all permutations of all subsets), against the state-vector marginal."""
    import itertools as it

    from qibo import gates

    rng = ctx.rng
    np.random.seed(rng.randrange(2**32))
    bad0 = len(ctx.failures)
    be = base.cliff_backend()
    cases = [(3, [gates.X(2)], [[2, 0]]), (3, [gates.X(2)], [[2], [0]]), (3, [gates.X(0), gates.H(1)], [[1, 2, 0]])]
    for i in range(60 if ctx.thorough else 22):
        n = rng.randint(2, 5)
        gs = [gates.X(q) for q in range(n) if rng.random() < 0.5]
        for _ in range(rng.randint(0, 4)):
            gs.append(rng.choice([lambda: gates.CNOT(*rng.sample(range(n), 2)), lambda: gates.SWAP(*rng.sample(range(n), 2)),
                                  lambda: gates.X(rng.randrange(n)), lambda: gates.Z(rng.randrange(n))])())
        if i % 3 == 0:  # a superposed part: support checks
            gs += [gates.H(rng.randrange(n)), gates.CNOT(*rng.sample(range(n), 2))]
        measured = rng.sample(range(n), rng.randint(2, min(n, 4)))
        if sorted(measured) == measured:
            measured.reverse()
        cuts = sorted(rng.sample(range(1, len(measured)), rng.randint(0, min(2, len(measured) - 1))))
        groups = [measured[a:b] for a, b in zip([0] + cuts, cuts + [len(measured)])]
        cases.append((n, gs, groups))
    for n, gs, groups in cases:
        measured = [q for g in groups for q in g]
        mgates = [gates.M(*g) for g in groups]
        descr = [base.gate_src(g) for g in gs] + [f"gates.M({', '.join(map(str, g))})" for g in groups]
        ctx.case(("result-order", n, tuple(descr)))
        psi = base.sv_state(n, gs)
        born = np.abs(psi) ** 2

        def marginal(qs):
            out = np.zeros(2 ** len(qs))
            for i, p in enumerate(born):
                idx = 0
                for q in qs:
                    idx = 2 * idx + ((i >> (n - 1 - q)) & 1)
                out[idx] += p
            return out

        head = base.HEAD + f"c = Circuit({n})\nfor g in [{', '.join(descr)}]:\n    c.add(g)\n" \
            "np.random.seed(3)\nr = CliffordBackend('numpy').execute_circuit(c, nshots=64)\n"
        try:
            r = be.execute_circuit(base.build(n, base.regen(gs) + mgates), nshots=64)
            S = np.asarray(r.samples()).astype(int)
            deterministic = np.max(marginal(measured)) > 1 - 1e-9
            ok_s = S.shape == (64, len(measured)) and all(marginal(measured)[int("".join(map(str, row)), 2)] > 1e-9 for row in S)
            freq = r.frequencies()
            ok_f = sum(freq.values()) == 64 and all(marginal(measured)[int(k, 2)] > 1e-9 for k in freq)
            regs = r.frequencies(registers=True)
            ok_r = all(all(marginal(list(m.target_qubits))[int(k, 2)] > 1e-9 for k in regs[m.register_name]) for m in mgates)
        except Exception as e:  # noqa: BLE001
            ok_s = ok_f = ok_r = False
            deterministic = False
            ctx.stat(f"result_order_raises_{type(e).__name__}")
        if not (ok_s and ok_f and ok_r):
            ctx.fail("views:order:samples" if not ok_s else "views:order:frequencies",
                     f"samples / frequencies / register frequencies of {descr} contain an outcome of Born probability zero in the order of the measurement gates",
                     head + f"n, measured = {n}, {measured}\n"
                     "from qibo import Circuit as _C\nu = _C(n)\n"
                     f"for g in [{', '.join(base.gate_src(g) for g in gs)}]:\n    u.add(g)\n"
                     "psi = np.asarray(NumpyBackend().execute_circuit(u).state()) if u.queue else np.eye(2 ** n)[:, 0]\n"
                     "for row in np.asarray(r.samples()).astype(int):\n    p = sum(abs(psi[i]) ** 2 for i in range(2 ** n) if all(((i >> (n - 1 - q)) & 1) == b for q, b in zip(measured, row)))\n    assert p > 1e-9, row\n"
                     "for k in r.frequencies():\n    p = sum(abs(psi[i]) ** 2 for i in range(2 ** n) if all(((i >> (n - 1 - q)) & 1) == int(b) for q, b in zip(measured, k)))\n    assert p > 1e-9, k\n",
                     broken=["C12_search_result_order"])
            continue
        subsets = [list(perm) for k in range(1, len(measured) + 1) for comb in it.combinations(measured, k) for perm in it.permutations(comb)]
        if len(subsets) > 40:
            full = [list(p) for p in it.permutations(measured)]
            subsets = rng.sample(full, min(len(full), 14)) + rng.sample(subsets, 26)
        for qs in subsets + [None]:
            ctx.stat("result_order_probabilities_" + ("all" if qs is None else "full" if len(qs) == len(measured) else "subset"))
            want = marginal(measured if qs is None else qs)
            try:
                got = np.asarray(r.probabilities(None if qs is None else list(qs)), dtype=float).reshape(-1)
                ok = got.shape == want.shape and abs(got.sum() - 1) < 1e-9 and np.all(got[want < 1e-9] < 1e-9)
                if ok and deterministic:
                    ok = np.allclose(got, want, atol=1e-9)
                got_s = got.tolist()
            except Exception as e:  # noqa: BLE001
                ok, got_s = False, f"{type(e).__name__}: {e}"
            if not ok:
                ctx.fail("views:probabilities:qubit-order",
                         f"Clifford.probabilities({qs}) of {descr}: probability on an outcome of Born probability zero (requested order {qs}, measured order {measured})",
                         head + "from qibo import Circuit as _C\nu = _C(%d)\n" % n
                         + f"for g in [{', '.join(base.gate_src(g) for g in gs)}]:\n    u.add(g)\n"
                         f"n, qs = {n}, {measured if qs is None else list(qs)}\n"
                         "psi = np.asarray(NumpyBackend().execute_circuit(u).state()) if u.queue else np.eye(2 ** n)[:, 0]\n"
                         "want = np.zeros(2 ** len(qs))\nfor i, a in enumerate(psi):\n    idx = 0\n    for q in qs:\n        idx = 2 * idx + ((i >> (n - 1 - q)) & 1)\n    want[idx] += abs(a) ** 2\n"
                         f"got = np.asarray(r.probabilities({None if qs is None else list(qs)}), dtype=float).reshape(-1)\n"
                         "assert got.shape == want.shape and np.all(got[want < 1e-9] < 1e-9), (got.tolist(), want.tolist())\n",
                         expected=str(want.tolist()), observed=str(got_s)[:300], broken=["C12_search_result_order"])
                break
    ctx.ob("C12_search_result_order", len(ctx.failures) == bad0, "search", "")


def large_register_search(ctx, base):
    """registers beyond 128 / 256 rows: determined, correlated and collapsing measurements on
    n in {130, 160, 200, 260} qubits against closed-form expectations (basis states made by X layers and
    CNOT/SWAP permutations: every bit is known; GHZ chains with X masks: one coin decides every bit), and
    the measurement of a few high qubits against the Lean model's bit-exact run (driver command M)."""
    from qibo import gates

    rng = ctx.rng
    np.random.seed(rng.randrange(2**32))
    bad0 = len(ctx.failures)
    be = base.cliff_backend()
    sizes = [130, 160, 200, 260] if ctx.thorough else [130, rng.choice([160, 200]), 260]
    lines, meta = [], []
    for n in sizes:
        for kind in ("basis", "ghz", "collapse"):
            ctx.case(("large", n, kind))
            ctx.stat(f"large_{kind}_n{n}")
            mask = [rng.random() < 0.55 for _ in range(n)]
            if kind == "basis":
                mask = [True] * n if rng.random() < 0.5 else mask
            gs, src = [], []
            if kind in ("basis", "collapse"):
                bits = list(mask)
                for q in range(n):
                    if mask[q]:
                        gs.append(gates.X(q))
                src.append(f"mask = {[int(b) for b in mask]}\nfor q in range(n):\n    if mask[q]:\n        c.add(gates.X(q))\n")
                pairs = [tuple(rng.sample(range(n), 2)) for _ in range(12)]
                for a, b in pairs:
                    gs.append(gates.CNOT(a, b))
                    bits[b] = bits[b] ^ bits[a]
                src.append(f"for a, b in {pairs}:\n    c.add(gates.CNOT(a, b))\n")
                expect = lambda row, bits=bits: all(int(row[q]) == int(bits[q]) for q in range(n))  # noqa: E731
                exp_descr = "the bits of the basis state"
            else:
                gs.append(gates.H(0))
                for q in range(n - 1):
                    gs.append(gates.CNOT(q, q + 1))
                for q in range(n):
                    if mask[q]:
                        gs.append(gates.X(q))
                src.append("c.add(gates.H(0))\nfor q in range(n - 1):\n    c.add(gates.CNOT(q, q + 1))\n"
                           f"mask = {[int(b) for b in mask]}\nfor q in range(n):\n    if mask[q]:\n        c.add(gates.X(q))\n")
                expect = lambda row, mask=mask: len({int(row[q]) ^ int(mask[q]) for q in range(n)}) == 1  # noqa: E731
                exp_descr = "a GHZ outcome (all bits equal after removing the X mask)"
            order = list(range(n))
            if rng.random() < 0.5:
                order.reverse()
            nshots = 3
            py = base.HEAD + f"n = {n}\nc = Circuit(n)\n" + "".join(src)
            try:
                if kind == "collapse":
                    hi = rng.sample(range(n // 2, n), 3)
                    mg = gates.M(*hi, collapse=True)
                    c = base.build(n, gs + [mg, gates.M(*order)])
                    r = be.execute_circuit(c, nshots=nshots)
                    S = np.asarray(r.samples()).astype(int)
                    mids = [np.asarray(x).reshape(-1).astype(int) for x in mg.result.samples()]
                    ok = all(all(int(m[j]) == int(bits[q]) for j, q in enumerate(hi)) for m in mids)
                    py += f"mg = gates.M({', '.join(map(str, hi))}, collapse=True)\nc.add(mg)\n"
                else:
                    c = base.build(n, gs + [gates.M(*order)])
                    r = be.execute_circuit(c, nshots=nshots)
                    S = np.asarray(r.samples()).astype(int)
                    ok = True
                rows = [{q: row[j] for j, q in enumerate(order)} for row in S]
                ok = ok and S.shape == (nshots, n) and all(expect(row) for row in rows)
                obs = "".join(str(int(rows[0][q])) for q in range(n)) if len(rows) else ""
            except Exception as e:  # noqa: BLE001
                ok, obs = False, f"{type(e).__name__}: {e}"
            if not ok:
                test = f"c.add(gates.M(*{order}))\nnp.random.seed(5)\nr = CliffordBackend('numpy').execute_circuit(c, nshots=3)\nS = np.asarray(r.samples()).astype(int)\norder = {order}\n"
                if kind == "ghz":
                    test += "for row in S:\n    assert len({int(row[j]) ^ mask[q] for j, q in enumerate(order)}) == 1, row.tolist()\n"
                else:
                    test += f"bits = {[int(b) for b in bits]}\nfor row in S:\n    assert all(int(row[j]) == bits[q] for j, q in enumerate(order)), row.tolist()\n"
                    if kind == "collapse":
                        test += f"for m in mg.result.samples():\n    assert [int(x) for x in np.asarray(m).reshape(-1)] == {[int(bits[q]) for q in hi]}\n"
                ctx.fail(f"large-register:{kind}", f"{n}-qubit register ({kind}): a measured outcome is not {exp_descr} (Born probability zero)", py + test,
                         expected=exp_descr, observed=str(obs)[:300], broken=["C12_search_large_register"])
            # the Lean model on the same tableau: a few qubits, high ones included
            if kind != "collapse" and (n in (130, 260) or ctx.thorough):
                T = np.asarray(be.execute_circuit(base.build(n, base.regen(gs))).symplectic_matrix).astype(np.uint8)
                qs = [n - 1, rng.randrange(n // 2, n), rng.randrange(0, n // 2), n - 2]
                out = np.asarray(be.sample_shots(np.array(T, copy=True), tuple(qs), n, 1)).astype(int).reshape(-1)
                lines.append(f"M {n} {base.tab_tokens(T)} {len(qs)} " + " ".join(map(str, qs)) + " " + " ".join(str(int(b)) for b in out))
                meta.append((n, kind, qs, out, py))
    outs = run_driver(lines, driver=DRIVER) if lines else []
    badm = 0
    for (n, kind, qs, out, py), o in zip(meta, outs):
        model = o.split()[0]
        real = "".join(str(int(b)) for b in out)
        ctx.stat("large_model_measure")
        if model != real:
            badm += 1
            ctx.fail(f"large-register:{kind}:model", f"{n}-qubit register ({kind}): sample_shots on qubits {qs} returns {real}, the tableau model (random bits forced) {model}",
                     py + f"r = CliffordBackend('numpy').execute_circuit(c)\nout = CliffordBackend('numpy').sample_shots(np.array(r.symplectic_matrix), {tuple(qs)}, n, 1)\n"
                     f"got = ''.join(str(int(b)) for b in np.asarray(out).reshape(-1))\n"
                     + ("assert got == %r, got\n" % model if kind == "basis" else f"mask = mask\nassert len({{int(b) ^ mask[q] for b, q in zip(got, {qs})}}) == 1, got\n"),
                     expected=model, observed=real, broken=["C12_corr_large_register"])
    ctx.ob("C12_corr_large_register", badm == 0, "correspondence", f"{badm} disagreements" if badm else f"{len(meta)} measurements on registers up to 260 qubits")
    ctx.ob("C12_search_large_register", len([f for f in ctx.failures[bad0:] if not f["key"].endswith(":model")]) == 0, "search", "")


def zero_prob_channel_search(ctx, base):
    """Pauli noise channels whose term list contains probabilities exactly 0.0 and exactly one term of
    probability 1.0 (in every position): the applied Pauli string is deterministic, so every outcome
    sampled by the Clifford backend must have non-zero Born probability in the state vector obtained by
    applying that Pauli string as gates (and equal the outcome when it is deterministic)."""
    from qibo import gates

    rng = ctx.rng
    np.random.seed(rng.randrange(2**32))
    bad0 = len(ctx.failures)
    be = base.cliff_backend()
    nshots = 20
    cases = []
    for i in range(90 if ctx.thorough else 36):
        n = rng.randint(1, 3)
        pre = []
        for _ in range(rng.randint(0, 5) if i >= 6 else 0):
            kind = rng.choice(["H", "S", "X", "CNOT"] if n > 1 else ["H", "S", "X"])
            pre.append(("CNOT", tuple(rng.sample(range(n), 2))) if kind == "CNOT" else (kind, (rng.randrange(n),)))
        k = rng.randint(1, min(2, n))
        qs = tuple(rng.sample(range(n), k))
        strings = ["".join(t) for t in itertools.product("IXYZ", repeat=k) if set(t) != {"I"}]
        terms = rng.sample(strings, rng.randint(2, min(4, len(strings))))
        hot = i % len(terms)  # the probability-1 term takes every position
        cases.append((n, pre, qs, terms, hot))
    for n, pre, qs, terms, hot in cases:
        ops = [(t, 1.0 if j == hot else 0.0) for j, t in enumerate(terms)]
        pre_src = [f"gates.{nm}({', '.join(map(str, q))})" for nm, q in pre]
        chan_src = f"gates.PauliNoiseChannel({qs if len(qs) > 1 else qs[0]}, {ops})"
        pauli_src = [f"gates.{P}({q})" for P, q in zip(terms[hot], qs) if P != "I"]
        ctx.case(("zero-prob-channel", n, tuple(pre_src), chan_src))
        ctx.stat("zero_prob_channel_hot_position_%d_of_%d" % (hot, len(terms)))
        mk = lambda srcs: [eval(s_, {"gates": gates}) for s_ in srcs]  # noqa: E731
        psi = np.asarray(base.sv_state(n, mk(pre_src + pauli_src))).reshape(-1)
        born = np.abs(psi) ** 2
        deterministic = born.max() > 1 - 1e-9
        py = base.HEAD + f"c = Circuit({n})\nfor g in [{', '.join(pre_src + [chan_src, 'gates.M(*range(%d))' % n])}]:\n    c.add(g)\n" \
            f"np.random.seed(3)\nr = CliffordBackend('numpy').execute_circuit(c, nshots={nshots})\n" \
            f"from qibo import Circuit as _C\nu = _C({n})\nfor g in [{', '.join(pre_src + pauli_src)}]:\n    u.add(g)\n" \
            f"psi = np.asarray(NumpyBackend().execute_circuit(u).state()) if u.queue else np.eye({2 ** n})[:, 0]\n" \
            "for row in np.asarray(r.samples()).astype(int):\n    assert abs(psi[int(''.join(map(str, row)), 2)]) ** 2 > 1e-9, row\n"
        try:
            r = be.execute_circuit(base.build(n, mk(pre_src + [chan_src, "gates.M(*range(%d))" % n])), nshots=nshots)
            S = np.asarray(r.samples()).astype(int)
            idx = [int("".join(map(str, row)), 2) for row in S]
            ok = S.shape == (nshots, n) and all(born[i] > 1e-9 for i in idx)
            if ok and deterministic:
                ok = all(i == int(np.argmax(born)) for i in idx)
            obs = str(sorted({format(i, "0%db" % n) for i in idx}))
        except Exception as e:  # noqa: BLE001
            ok, obs = False, f"{type(e).__name__}: {e}"[:300]
        if not ok:
            ctx.fail("noise:zero-probability-term",
                     f"CliffordBackend, {pre_src} then {chan_src} (the term {terms[hot]!r} has probability 1, the others exactly 0): a sampled outcome has Born probability zero after applying {terms[hot]!r}",
                     py, expected="outcomes in " + str([format(i, "0%db" % n) for i in range(2 ** n) if born[i] > 1e-9]), observed=obs,
                     broken=["C12_search_zero_probability_terms"])
    ctx.ob("C12_search_zero_probability_terms", len(ctx.failures) == bad0, "search", "")


def run_suites(ctx, base):
    cases = synth_correspondence(ctx, base)
    bm20_correspondence(ctx, base, cases)
    group_suite(ctx, base)
    accept_correspondence(ctx, base)
    controlled_refusal_search(ctx, base)
    repeated_correspondence(ctx, base)
    result_order_search(ctx, base)
    large_register_search(ctx, base)
    stim_controlled_search(ctx, base)
    zero_prob_channel_search(ctx, base)
