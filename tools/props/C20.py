"""C20 — library circuit constructors build exactly what they document
(QFT, computational-basis / phase / unary / Hamming-weight / binary encoders, GHZ)."""
from __future__ import annotations

import itertools
import math

import numpy as np

from vlib import qgates
from vlib.driver import run_driver
from vlib.proofs import build_and_audit, registry

PROP = "C20"
DRIVER = "DriverC20.lean"
TOL = 1e-8
# binary_encoder(complex data, "hopf") used to return silently a wrong circuit (imaginary parts dropped);
# repaired in /repo 79289df74 (NotImplementedError): the case is searched under the key binary_encoder:hopf:complex
HOPF_COMPLEX = True

PRE = """import sys, math, warnings
import numpy as np
warnings.simplefilter('ignore')
from qibo.backends import NumpyBackend
from qibo.models import QFT
from qibo.models import encodings as E
nb = NumpyBackend()
def run(c, init=None):
    return np.asarray(nb.execute_circuit(c, initial_state=init).state())
def unary_target(x):
    x = np.asarray(x); n = len(x); t = np.zeros(2**n, dtype=complex)
    t[[2**k for k in range(n)]] = x / np.linalg.norm(x); return t
def hw_target(x, n, k):
    idx = [i for i in range(2**n) if bin(i).count('1') == k]
    t = np.zeros(2**n, dtype=complex); t[idx] = np.asarray(x) / np.linalg.norm(x); return t
def bad(s, t):
    s = np.asarray(s)
    return s.shape != np.asarray(t).shape or (not np.all(np.isfinite(s))) or (not np.allclose(s, t, atol=1e-8))
def bad_rel(s, t, rtol, atol):
    # entrywise |s - t| <= atol + rtol |t| (allclose with explicit tolerances)
    s = np.asarray(s); t = np.asarray(t)
    return s.shape != t.shape or (not np.all(np.isfinite(s))) or (not np.all(np.isfinite(t))) or (not np.allclose(s, t, rtol=rtol, atol=atol))
"""


def _exec_pre():
    ns = {}
    exec(PRE, ns)
    return ns


_NS = None


def ns():
    global _NS
    if _NS is None:
        _NS = _exec_pre()
    return _NS


def arr_repr(x):
    x = np.asarray(x)
    if np.iscomplexobj(x):
        return "np.array(" + repr([complex(v) for v in x]) + ", dtype=complex)"
    return "np.array(" + repr([float(v) for v in x]) + ")"


# ---------------------------------------------------------------------------
# canonical text of a real gate / queue (must match GD.show of the Lean model)
# ---------------------------------------------------------------------------

def cu1_exponent(theta):
    if theta <= 0:
        return None
    e = round(math.log2(math.pi / theta))
    if e >= 0 and theta == math.pi / 2**e:
        return e
    return None


def queue_text(queue):
    out = []
    npar = 0
    for g in queue:
        name = g.name
        cs, ts = tuple(g.control_qubits), tuple(g.target_qubits)
        if name == "h" and not cs:
            s = f"h {ts[0]}"
        elif name == "x" and not cs:
            s = f"x {ts[0]}"
        elif name == "cx" and len(cs) == 1:
            s = f"cx {cs[0]} {ts[0]}"
        elif name == "cu1" and len(cs) == 1:
            e = cu1_exponent(float(g.parameters[0]))
            s = f"cu1 {cs[0]} {ts[0]} {e if e is not None else repr(float(g.parameters[0]))}"
        elif name == "swap" and not cs:
            s = f"swap {ts[0]} {ts[1]}"
        elif name == "rbs":
            s = f"rbs {ts[0]} {ts[1]} {npar}"
            if cs:
                s += " c " + " ".join(str(c) for c in sorted(cs))
        else:
            s = f"{name} t{ts} c{tuple(sorted(cs))} p{tuple(float(np.real(p)) for p in g.parameters)}"
        if g.parameters and name != "cu1":
            npar += 1
        out.append(s)
    return ";".join(out)


def canon(text):
    """CU1 and SWAP are symmetric in their two qubits (diag(1,1,1,e^{i theta}) / exchange):
    the order in which the constructor names them is not observable, so it is normalised
    on both sides before comparing."""
    out = []
    for item in text.split(";"):
        t = item.split()
        if len(t) >= 3 and t[0] in ("cu1", "swap"):
            a, b = sorted((t[1], t[2]), key=lambda v: int(v) if v.isdigit() else -1)
            t[1], t[2] = a, b
        out.append(" ".join(t))
    return ";".join(out)


def real(fn):
    """text produced by the real code, or the exception it raised (then the suite disagrees
    and the direct search looks for the failing input)."""
    try:
        return fn()
    except Exception as e:  # noqa: BLE001
        return f"raised {type(e).__name__}: {e}"


# ---------------------------------------------------------------------------
# correspondence: Lean generators vs the real constructors' queues
# ---------------------------------------------------------------------------

def corr_suite(ctx, name, cases):
    """cases: list of (driver line, text of the real code, description)."""
    outs = run_driver([c[0] for c in cases], driver=DRIVER)
    bad = []
    for (line, rtxt, descr), out in zip(cases, outs):
        ctx.case((name, line))
        ctx.stat(f"{name}")
        if canon(out) != canon(rtxt):
            bad.append((line, rtxt, out, descr))
    if bad:
        line, rtxt, out, descr = bad[0]
        ctx.log(f"{name}: model and implementation disagree on {descr}: model={out[:300]} real={rtxt[:300]}")
    ctx.ob(f"C20_corr_{name}", not bad, "correspondence",
           f"{len(bad)} disagreements; first: {bad[0][3]}: model={bad[0][2][:200]} real={bad[0][1][:200]}" if bad else "")
    return bad


def correspondence(ctx):
    ev = ns()
    QFT, E = ev["QFT"], ev["E"]
    rng = ctx.rng
    nmax = 14 if ctx.thorough else 12
    # -- QFT
    cases = []
    for n in list(range(1, nmax + 1)) + [16, 20, 24] + ([32, 40] if ctx.thorough else []):
        for ws in (1, 0):
            cases.append((f"QFT {n} {ws}", real(lambda: queue_text(QFT(n, with_swaps=bool(ws)).queue)), f"QFT({n}, with_swaps={bool(ws)})"))
    accs = ({"/GPU:0": 2}, {"/GPU:0": 1, "/GPU:1": 1}, {"/GPU:0": 2, "/GPU:1": 2}, {"/GPU:0": 4}, {"/GPU:0": 4, "/GPU:1": 4})
    for n in list(range(1, nmax + 1)) + [16, 20]:
        for acc in accs:
            ng = int(math.log2(sum(acc.values())))
            if n < ng + 2 or n // 2 + n % 2 < ng or (n > 8 and rng.random() < 0.5):
                continue

            def dtxt():
                c = QFT(n, accelerators=dict(acc))
                return queue_text(c.queue)
            cases.append((f"QFTD {n}", real(dtxt), f"QFT({n}, accelerators={acc})"))
    cases.append(("QFT 5 1", real(lambda: queue_text(QFT(5).queue)), "QFT(5)"))  # default argument
    cases.append(("QFT 4 1", real(lambda: queue_text(QFT(4, True, None, density_matrix=True).queue)), "QFT(4, True, None, density_matrix=True)"))
    ctx.sample({"suite": "qft", "line": cases[4][0], "queue": cases[4][1]})
    corr_suite(ctx, "qft", cases)
    # -- comp_basis_encoder
    cases = []
    allbits = [bits for n in range(1, 6) for bits in itertools.product((0, 1), repeat=n)]
    allbits += [tuple(rng.randint(0, 1) for _ in range(rng.randint(6, nmax))) for _ in range(40)]
    for bits in allbits:
        n = len(bits)
        line = f"CB {n} " + " ".join(map(str, bits))
        kind = rng.choice(["str", "list", "tuple", "liststr"])
        arg = {"str": "".join(map(str, bits)), "list": list(bits), "tuple": tuple(bits), "liststr": [str(b) for b in bits]}[kind]
        cases.append((line, real(lambda: queue_text(E.comp_basis_encoder(arg).queue)), f"comp_basis_encoder({arg!r})"))
        v = int("".join(map(str, bits)), 2)
        cases.append((f"CBI {n} {v}", real(lambda: queue_text(E.comp_basis_encoder(v, nqubits=n).queue)), f"comp_basis_encoder({v}, nqubits={n})"))
    corr_suite(ctx, "comp_basis", cases)
    # -- GHZ
    cases = [(f"GHZ {n}", real(lambda: queue_text(E.ghz_state(n).queue)), f"ghz_state({n})") for n in range(2, nmax + 1)]
    corr_suite(ctx, "ghz", cases)
    # -- RBS pairs / unary skeleton
    cases = []
    sizes = [(n, 0) for n in range(2, nmax + 1)] + [(n, 1) for n in (2, 4, 8, 16, 32)]
    for n, tree in sizes:
        arch = "tree" if tree else "diagonal"
        def ptxt():
            circ, pairs = E._generate_rbs_pairs(n, arch)
            flat = [p for row in pairs for p in row]
            assert queue_text(circ.queue) == ";".join(f"rbs {int(a)} {int(b)} {k}" for k, (a, b) in enumerate(flat)), "circuit of _generate_rbs_pairs differs from its pair list"
            return "|".join(" ".join(f"{int(a)},{int(b)}" for a, b in row) for row in pairs)
        cases.append((f"PAIRS {n} {tree}", real(ptxt), f"_generate_rbs_pairs({n}, {arch!r})[1]"))
        if n <= 16:
            data = np.array([rng.uniform(-1, 1) for _ in range(n)])
            cases.append((f"UNARY {n} {tree}", real(lambda: queue_text(E.unary_encoder(data, arch).queue)), f"unary_encoder(<{n} reals>, {arch!r})"))
    ctx.sample({"suite": "rbs_pairs", "line": cases[-2][0], "pairs": cases[-2][1]})
    corr_suite(ctx, "rbs_pairs", cases)
    # -- Ehrlich walk
    cases = []
    emax = 11 if ctx.thorough else 9
    inits = []
    for n in range(2, emax + 1):
        for k in range(1, n):
            inits.append([1] * k + [0] * (n - k))
    # initial strings used by the hyperspherical binary encoder (recorded from the real code)
    rec = []
    orig = getattr(E, "_ehrlich_algorithm", None)
    if orig is None:
        ctx.ob("C20_corr_ehrlich", False, "correspondence", "models/encodings.py has no _ehrlich_algorithm any more")
        ctx.ob("C20_corr_hw_skeleton", False, "correspondence", "not run")
        return

    def spy(initial_string, return_indices=True):
        rec.append([int(b) for b in initial_string])
        return orig(initial_string, return_indices)

    E._ehrlich_algorithm = spy
    try:
        for n in range(2, 7):
            real(lambda: E.binary_encoder(np.arange(1.0, 2**n + 1), "hyperspherical"))
    finally:
        E._ehrlich_algorithm = orig
    for b in rec:
        if b not in inits and 0 < sum(b) < len(b):
            inits.append(b)
            ctx.stat("ehrlich_nondefault_init")
    for init in inits:
        n = len(init)
        def etxt():
            strings, cat = orig(np.array(init))
            return " ".join(strings) + " # " + ";".join(
                f"{int(q[0])} {int(q[1])} " + ",".join(str(int(c)) for c in sorted(cs)) for q, cs in cat)
        cases.append((f"EHR {n} " + " ".join(map(str, init)), real(etxt), f"_ehrlich_algorithm(np.array({init}))"))
    ctx.sample({"suite": "ehrlich", "line": cases[4][0], "answer": cases[4][1]})
    corr_suite(ctx, "ehrlich", cases)
    # -- Hamming-weight encoder skeleton
    cases = []
    hmax = 8 if ctx.thorough else 7
    for n in range(2, hmax + 1):
        for k in range(1, n):
            d = math.comb(n, k)
            for oc in (1, 0):
                for fh in (0, 1):
                    data = np.array([rng.uniform(-1, 1) for _ in range(d)])
                    cases.append((f"HW {n} {k} {oc} {fh}", real(lambda: queue_text(E.hamming_weight_encoder(data, n, k, full_hwp=bool(fh), optimize_controls=bool(oc)).queue)),
                                  f"hamming_weight_encoder(<{d} reals>, {n}, {k}, full_hwp={bool(fh)}, optimize_controls={bool(oc)})"))
    ctx.sample({"suite": "hw_skeleton", "line": cases[10][0], "queue": cases[10][1]})
    corr_suite(ctx, "hw_skeleton", cases)


# ---------------------------------------------------------------------------
# direct search on the real code
# ---------------------------------------------------------------------------

def check_state(ctx, key, what, expr, target_expr, setup="", ob="C20_search", cmp="bad", also=()):
    """evaluate `expr` (a python expression in the PRE namespace after `setup`) and compare
    with `target_expr`; report a failing input with a self-contained replay."""
    env = dict(ns())
    ctx.case((key, setup, expr))
    ctx.stat("search:" + key.split(":")[0])
    try:
        exec(setup, env)
        s = eval(expr, env)
        t = eval(target_expr, env)
        failed = bool(eval(cmp, env)(s, t))
        observed = np.asarray(s).tolist() if np.asarray(s).size <= 64 else "…"
    except Exception as e:  # documented input raised
        failed, observed, t = True, f"raised {type(e).__name__}: {e}", None
    if failed:
        py = PRE + setup + f"\ntry:\n    s = {expr}\nexcept Exception as e:\n    print('raised', repr(e)); sys.exit(1)\nt = {target_expr}\nprint(s); print(t)\nsys.exit(1 if ({cmp})(s, t) else 0)\n"
        ctx.fail(key, what, py, expected=(np.asarray(t).tolist() if t is not None and np.asarray(t).size <= 64 else "see replay"),
                 observed=str(observed)[:800], broken=[ob, *also])
    return not failed


def expect_raises(ctx, key, exc, stmt, ob="C20_search_errors"):
    env = dict(ns())
    ctx.case((key, stmt))
    ctx.stat("search:errors")
    try:
        exec(stmt, env)
    except Exception as e:
        if isinstance(e, eval(exc)):
            return True
        got = type(e).__name__
    else:
        got = "no exception"
    py = PRE + f"try:\n    {stmt}\nexcept {exc}:\n    sys.exit(0)\nexcept Exception as e:\n    print(repr(e)); sys.exit(1)\nsys.exit(1)\n"
    ctx.fail(key, f"`{stmt}` should raise {exc} (documented admissibility check), got {got}", py,
             expected=exc, observed=got, broken=[ob])
    return False


def search_qft(ctx):
    ok = True
    nmax = 9 if ctx.thorough else 8
    setup_dft = ("def dft(n):\n    N = 2**n\n    j = np.arange(N)\n    return np.exp(2j*np.pi*np.outer(j, j)/N)/np.sqrt(N)\n"
                 "def rev(n):\n    return [int(format(i, f'0{n}b')[::-1], 2) for i in range(2**n)]\n")
    for n in range(1, nmax + 1):
        ok &= check_state(ctx, "QFT:with_swaps", f"QFT({n}).unitary() is not the DFT matrix", f"QFT({n}).unitary()", f"dft({n})", setup_dft, "C20_search_qft")
        ok &= check_state(ctx, "QFT:no_swaps", f"QFT({n}, with_swaps=False) is not the bit-reversed DFT",
                          f"QFT({n}, with_swaps=False).unitary()", f"dft({n})[rev({n}), :]", setup_dft, "C20_search_qft")
    # execution on a random state = inverse FFT * sqrt(N); second construction identical
    for n in (3, 5, 11 if ctx.thorough else 10):
        seed = ctx.rng.randint(0, 10**6)
        setup = setup_dft + f"r = np.random.default_rng({seed}); v = r.normal(size=2**{n}) + 1j*r.normal(size=2**{n}); v /= np.linalg.norm(v)\nQFT({n})\n"
        ok &= check_state(ctx, "QFT:execute", f"QFT({n}) executed on a random state is not its DFT", f"run(QFT({n}), v.copy())",
                          f"np.fft.ifft(v)*np.sqrt(2**{n})", setup, "C20_search_qft")
        ok &= check_state(ctx, "QFT:execute_no_swaps", f"QFT({n}, with_swaps=False) executed on a random state", f"run(QFT({n}, with_swaps=False), v.copy())",
                          f"(np.fft.ifft(v)*np.sqrt(2**{n}))[rev({n})]", setup, "C20_search_qft")
    ok &= check_state(ctx, "QFT:density_matrix", "QFT(3, density_matrix=True) on |0><0|", "run(QFT(3, density_matrix=True))", "np.full((8, 8), 1/8)", "", "C20_search_qft")
    # QFT(n, accelerators=...) = _DistributedQFT: same matrix, gates reordered so that no gate targets a global qubit
    accs = ({"/GPU:0": 2}, {"/GPU:0": 1, "/GPU:1": 1}, {"/GPU:0": 2, "/GPU:1": 2}, {"/GPU:0": 4},
            {"/GPU:0": 1, "/GPU:1": 1, "/GPU:2": 1, "/GPU:3": 1}, {"/GPU:0": 4, "/GPU:1": 4})
    for n in range(2, (10 if ctx.thorough else 9)):
        for acc in accs:
            nglobal = int(math.log2(sum(acc.values())))
            if n < nglobal + 2:
                continue   # every gate of a distributed circuit (incl. two-qubit ones) needs local targets
            if n // 2 + n % 2 < nglobal:
                expect_raises(ctx, "QFT:distributed:errors", "NotImplementedError", f"QFT({n}, accelerators={acc})")
                continue
            ok &= check_state(ctx, "QFT:distributed", f"QFT({n}, accelerators={acc}).unitary() is not the DFT matrix",
                              f"QFT({n}, accelerators={acc}).unitary(nb)", f"dft({n})", setup_dft, "C20_search_qft", also=("C20_corr_qft",))
            ctx.stat(f"qft_distributed:nglobal{nglobal}")
    expect_raises(ctx, "QFT:accelerators_no_swaps", "NotImplementedError", "QFT(4, with_swaps=False, accelerators={'/GPU:0': 2})")
    ctx.ob("C20_search_qft", ok, "search", "" if ok else "QFT differs from the DFT on the real code")


def search_simple(ctx):
    rng = ctx.rng
    ok = True
    # comp_basis_encoder: every bit string n<=4 with every input type, random longer ones
    allbits = [bits for n in range(1, 5) for bits in itertools.product((0, 1), repeat=n)]
    allbits += [tuple(rng.randint(0, 1) for _ in range(rng.randint(5, 10))) for _ in range(12)]
    for bits in allbits:
        n = len(bits)
        s = "".join(map(str, bits))
        tgt = f"np.eye(2**{n})[int('{s}', 2)]"
        for arg in (repr(s), repr(list(bits)), repr(tuple(bits)), repr([str(b) for b in bits]), f"int('{s}', 2), nqubits={n}"):
            ok &= check_state(ctx, "comp_basis_encoder", f"comp_basis_encoder({arg}) does not prepare |{s}>", f"run(E.comp_basis_encoder({arg}))", tgt, "", "C20_search_simple")
    # explicit nqubits larger than the string: the remaining qubits stay 0
    ok &= check_state(ctx, "comp_basis_encoder:nqubits", "comp_basis_encoder('101', nqubits=5)", "run(E.comp_basis_encoder('101', nqubits=5))", "np.eye(32)[int('10100', 2)]", "", "C20_search_simple")
    ok &= check_state(ctx, "comp_basis_encoder:nqubits", "comp_basis_encoder(5, nqubits=5)", "run(E.comp_basis_encoder(5, nqubits=5))", "np.eye(32)[5]", "", "C20_search_simple")
    ok &= check_state(ctx, "comp_basis_encoder:density_matrix", "density_matrix=True", "run(E.comp_basis_encoder('011', density_matrix=True))", "np.outer(np.eye(8)[3], np.eye(8)[3])", "", "C20_search_simple")
    ok &= check_state(ctx, "phase_encoder:density_matrix", "density_matrix=True", "run(E.phase_encoder([np.pi, 0.0], density_matrix=True))", "np.outer(np.eye(4)[2], np.eye(4)[2])", "", "C20_search_simple")
    expect_raises(ctx, "comp_basis_encoder:errors", "TypeError", "E.comp_basis_encoder(2.5)")
    expect_raises(ctx, "comp_basis_encoder:errors", "ValueError", "E.comp_basis_encoder('0120')")
    expect_raises(ctx, "comp_basis_encoder:errors", "ValueError", "E.comp_basis_encoder([0, 3])")
    expect_raises(ctx, "comp_basis_encoder:errors", "TypeError", "E.comp_basis_encoder('01', nqubits=2.0)")
    expect_raises(ctx, "comp_basis_encoder:errors", "ValueError", "E.comp_basis_encoder(3)")
    # ghz
    for n in range(2, 11):
        ok &= check_state(ctx, "ghz_state", f"ghz_state({n}) is not (|0..0>+|1..1>)/sqrt2", f"run(E.ghz_state({n}))",
                          f"(np.eye(2**{n})[0] + np.eye(2**{n})[-1])/np.sqrt(2)", "", "C20_search_simple")
    ok &= check_state(ctx, "ghz_state:density_matrix", "ghz_state(3, density_matrix=True)", "run(E.ghz_state(3, density_matrix=True))",
                      "np.outer(np.eye(8)[0] + np.eye(8)[-1], np.eye(8)[0] + np.eye(8)[-1])/2", "", "C20_search_simple")
    expect_raises(ctx, "ghz_state:errors", "ValueError", "E.ghz_state(1)")
    expect_raises(ctx, "ghz_state:errors", "ValueError", "E.ghz_state(0)")
    # phase encoder: product of single-qubit rotations of |0>
    setup = ("def phase_target(x, rot):\n    t = np.ones(1, dtype=complex)\n    for a in x:\n"
             "        v = {'RY': [np.cos(a/2), np.sin(a/2)], 'RX': [np.cos(a/2), -1j*np.sin(a/2)], 'RZ': [np.exp(-0.5j*a), 0]}[rot]\n"
             "        t = np.kron(t, np.array(v, dtype=complex))\n    return t\n")
    for rot in ("RY", "RX", "RZ"):
        for n in (1, 2, 3, 5):
            x = [round(rng.uniform(-7, 7), 6) for _ in range(n)]
            if n == 3:
                x[rng.randrange(3)] = 0.0
            for arg in (repr(x), f"np.array({x})"):
                ok &= check_state(ctx, f"phase_encoder:{rot}", f"phase_encoder({arg}, {rot!r})", f"run(E.phase_encoder({arg}, rotation={rot!r}))",
                                  f"phase_target({x}, {rot!r})", setup, "C20_search_simple")
    ok &= check_state(ctx, "phase_encoder:default", "phase_encoder default rotation is RY", "run(E.phase_encoder([0.3, -1.1]))", "phase_target([0.3, -1.1], 'RY')", setup, "C20_search_simple")
    expect_raises(ctx, "phase_encoder:errors", "TypeError", "E.phase_encoder(np.zeros((2, 2)))")
    expect_raises(ctx, "phase_encoder:errors", "TypeError", "E.phase_encoder([0.1], rotation=1)")
    expect_raises(ctx, "phase_encoder:errors", "ValueError", "E.phase_encoder([0.1], rotation='RW')")
    ctx.ob("C20_search_simple", ok, "search", "" if ok else "comp-basis / GHZ / phase encoder differ from their documentation")


def data_vectors(rng, d, complex_ok, count):
    """structured data: dense, negative, zeros leading / trailing / isolated / paired, one-hot."""
    out = []
    kinds = ["dense", "negative", "lead0", "trail0", "iso0", "half0", "onehot", "onehot-", "pair0", "ints"]
    for i in range(count):
        kind = kinds[i % len(kinds)]
        x = np.array([rng.uniform(0.1, 1) for _ in range(d)])
        if kind != "dense":
            x = x * np.array([rng.choice([-1, 1]) for _ in range(d)])
        if kind == "lead0":
            x[: rng.randint(1, max(1, d - 1))] = 0
        elif kind == "trail0":
            x[d - rng.randint(1, max(1, d - 1)):] = 0
        elif kind == "iso0":
            x[rng.randrange(d)] = 0
        elif kind == "half0":
            for j in range(d):
                if rng.random() < 0.5:
                    x[j] = 0
        elif kind in ("onehot", "onehot-"):
            j = rng.randrange(d)
            x = np.zeros(d)
            x[j] = 1.0 if kind == "onehot" else -1.0
        elif kind == "pair0" and d >= 2:
            j = 2 * rng.randrange(d // 2)
            x[j] = x[j + 1] = 0
        elif kind == "ints":
            x = np.array([float(rng.randint(-3, 3)) for _ in range(d)])
        if not x.any():
            x[rng.randrange(d)] = 1.0
        x = np.round(x, 6)
        if complex_ok and rng.random() < 0.5:
            ph = np.array([rng.choice([1, -1, 1j, -1j, np.exp(1j * rng.uniform(0, 6.28))]) for _ in range(d)])
            x = np.round(x.astype(complex) * ph, 6)
            kind += "+complex"
        out.append((kind, x))
    return out


# magnitudes at which every encoder must behave the same (the encoders are scale invariant: the
# target is x/|x|); 1e-12 .. 1e12 is far inside the range where float64 squares neither
# underflow nor overflow (the clean tree is accurate to 1e-14 relative from 1e-150 to 1e150)
SCALES = (1e-12, 1e-9, 1e-6, 1.0, 1e6, 1e12)
# comparators: uniform scale: relative 1e-9 per entry; mixed magnitudes inside one vector, angles from
# arctan2 (diagonal / Hamming-weight / hyperspherical): relative 1e-4 per entry (cos of an angle next to
# pi/2 carries the relative error eps/|x_k|); angles from acos (tree / Hopf): acos(1 - eps) resolves only
# sqrt(eps) ~ 1.5e-8, so entries much smaller than their sibling are lost on the unchanged tree (reported
# as an observation): absolute 1e-7 there
CMP_SCALE = "lambda s, t: bad_rel(s, t, 1e-9, 1e-13)"
CMP_MIXED = "lambda s, t: bad_rel(s, t, 1e-4, 1e-13)"
CMP_MIXED_ACOS = "lambda s, t: bad_rel(s, t, 0.0, 1e-7)"


def scale_vectors(rng, d, complex_ok, mixed=True):
    """one direction v (dense, both signs, in one variant with zeros) at every magnitude of SCALES, and the
    same direction with entries of mixed magnitudes 1e-9 .. 1 inside the vector."""
    out = []
    for variant in ("dense", "zeros"):
        v = np.array([rng.uniform(0.1, 1) * rng.choice([-1, 1]) for _ in range(d)])
        if variant == "zeros":
            for j in range(d):
                if rng.random() < 0.35:
                    v[j] = 0.0
            if not v.any():
                v[rng.randrange(d)] = 0.7
        ph = None
        if complex_ok and rng.random() < 0.5:
            ph = np.array([np.exp(1j * rng.uniform(0, 6.28)) for _ in range(d)])
        for sc in SCALES:
            x = v * sc
            out.append((f"scale:{sc:g}", (x.astype(complex) * ph) if ph is not None else x, CMP_SCALE))
        if mixed and variant == "dense":
            for tag, w in (("mixed:decades", np.array([10.0 ** (-rng.randint(0, 9)) for _ in range(d)])),
                           ("mixed:two-levels", np.array([rng.choice([1.0, 1e-9]) for _ in range(d)]))):
                x = v * w
                out.append((tag, (x.astype(complex) * ph) if ph is not None else x, None))
    return out


def search_scales(ctx):
    """scale invariance of every encoder: x and c*x prepare the same state x/|x|, for tiny and huge c and
    for vectors whose entries span nine decades (absolute thresholds on partial norms, underflow of
    squares, float32 intermediates ... break exactly this)."""
    rng = ctx.rng
    ok = True
    sizes_u = (4, 8) if not ctx.thorough else (2, 4, 8, 16)
    for arch in ("diagonal", "tree"):
        for n in sizes_u + ((5,) if arch == "diagonal" else ()):
            for tag, x, cmp in scale_vectors(rng, n, False):
                cmp = cmp or (CMP_MIXED if arch == "diagonal" else CMP_MIXED_ACOS)
                ok &= check_state(ctx, f"unary_encoder:{arch}:scale", f"unary_encoder(x, {arch!r}) is not scale invariant ({tag}): x={x.tolist()}",
                                  f"run(E.unary_encoder(x, {arch!r}))", "unary_target(x0)", f"x = {arr_repr(x)}\nx0 = x.copy()\n", "C20_search_scales", cmp)
                ctx.stat(f"scale:unary:{tag}")
    for n, k in ((3, 1), (4, 2), (5, 2)) + (((6, 3),) if ctx.thorough else ()):
        for tag, x, cmp in scale_vectors(rng, math.comb(n, k), True):
            oc = rng.random() < 0.5
            ok &= check_state(ctx, "hamming_weight_encoder:scale", f"hamming_weight_encoder(x, {n}, {k}, optimize_controls={oc}) is not scale invariant ({tag}): x={x.tolist()}",
                              f"run(E.hamming_weight_encoder(x, {n}, {k}, optimize_controls={oc}))", f"hw_target(x0, {n}, {k})", f"x = {arr_repr(x)}\nx0 = x.copy()\n",
                              "C20_search_scales", cmp or CMP_MIXED)
            ctx.stat(f"scale:hw:{tag}")
    for par in ("hyperspherical", "hopf"):
        for n in (1, 2, 3) + ((4, 5) if ctx.thorough else (4,)):
            for tag, x, cmp in scale_vectors(rng, 2**n, par == "hyperspherical"):
                cmp = cmp or (CMP_MIXED if par == "hyperspherical" else CMP_MIXED_ACOS)
                ok &= check_state(ctx, f"binary_encoder:{par}:scale", f"binary_encoder(x, {par!r}) is not scale invariant ({tag}): x={x.tolist()}",
                                  f"run(E.binary_encoder(x, {par!r}))", "x0/np.linalg.norm(x0)", f"x = {arr_repr(x)}\nx0 = x.copy()\n", "C20_search_scales", cmp)
                ctx.stat(f"scale:binary:{tag}")
    ctx.ob("C20_search_scales", ok, "search", "" if ok else "an encoder is not scale invariant (x and c*x must prepare the same state x/|x|)")


def has_zero_pair(x):
    x = np.asarray(x)
    return any(x[2 * j] == 0 and x[2 * j + 1] == 0 for j in range(len(x) // 2))


def search_unary(ctx):
    rng = ctx.rng
    ok = True
    nmax = 12 if ctx.thorough else 10
    for arch in ("diagonal", "tree"):
        sizes = [n for n in range(2, nmax + 1) if arch == "diagonal" or n & (n - 1) == 0] + ([16] if arch == "tree" else [])
        for n in sizes:
            for kind, x in data_vectors(rng, n, False, (40 if ctx.thorough else 20) if n <= 8 else 10):
                cls = "zero-pair" if (arch == "tree" and has_zero_pair(x)) else ("sparse" if (x == 0).any() else "dense")
                arg = arr_repr(x) if rng.random() < 0.7 else repr([float(v) for v in x])
                setup = f"x = {arg}\nx0 = np.array(x, copy=True)\n"
                good = check_state(ctx, f"unary_encoder:{arch}:{cls}", f"unary_encoder({[float(v) for v in x]}, {arch!r}) does not give x/|x| on the one-hot states",
                                   f"run(E.unary_encoder(x, {arch!r}))", "unary_target(x0)", setup, "C20_search_unary")
                ok &= good
                ctx.stat(f"unary:{arch}:{kind}")
    # large registers in the one-hot subspace (T20_unary_network: an RBS network acts on the
    # amplitude vector by Givens rotations, so 2^n amplitudes are never needed)
    amp = ("def unary_amps(c, n):\n    q = c.queue\n    assert q[0].name == 'x' and q[0].target_qubits == (n - 1,) and not q[0].control_qubits\n"
           "    A = np.zeros(n); A[n - 1] = 1.0\n    for g in q[1:]:\n        assert g.name == 'rbs' and not g.control_qubits\n"
           "        a, b = g.target_qubits; t = float(g.parameters[0])\n        A[a], A[b] = np.cos(t)*A[a] - np.sin(t)*A[b], np.sin(t)*A[a] + np.cos(t)*A[b]\n"
           "    return A[::-1]\n")
    for arch in ("diagonal", "tree"):
        big = ([32, 64] + ([128] if ctx.thorough else [])) if arch == "tree" else [13, 17, 33, 64]
        for n in [8] + big:
            for kind, x in data_vectors(rng, n, False, 10):
                cls = "zero-pair" if (arch == "tree" and has_zero_pair(x)) else ("sparse" if (x == 0).any() else "dense")
                setup = amp + f"x = {arr_repr(x)}\nx0 = x.copy()\n"
                ok &= check_state(ctx, f"unary_encoder:{arch}:{cls}", f"unary_encoder on {n} qubits ({arch}), amplitude vector in the one-hot subspace",
                                  f"unary_amps(E.unary_encoder(x, {arch!r}), {n})", "x0/np.linalg.norm(x0)", setup, "C20_search_unary")
                ctx.stat(f"unary_big:{arch}:n{n}")
        # the subspace simulation agrees with the full execution
        setup = amp + "x = np.array([3., -1., 0., 5., 1., 1., -4., 2.])\n"
        ok &= check_state(ctx, f"unary_encoder:{arch}:subspace", "full state vs one-hot amplitude simulation",
                          f"run(E.unary_encoder(x, {arch!r}))[[2**k for k in range(8)]]", f"unary_amps(E.unary_encoder(x, {arch!r}), 8)", setup, "C20_search_unary")
    # exhaustive tiny integer data for n = 4 (all sign / zero patterns)
    for arch in ("diagonal", "tree"):
        for pat in itertools.product((-1.0, 0.0, 2.0), repeat=4):
            if not any(pat):
                continue
            x = np.array(pat)
            cls = "zero-pair" if (arch == "tree" and has_zero_pair(x)) else ("sparse" if (x == 0).any() else "dense")
            ok &= check_state(ctx, f"unary_encoder:{arch}:{cls}", f"unary_encoder({list(pat)}, {arch!r})", f"run(E.unary_encoder(x, {arch!r}))", "unary_target(x)",
                              f"x = {arr_repr(x)}\n", "C20_search_unary")
    ok &= check_state(ctx, "unary_encoder:default", "default architecture is the tree", "run(E.unary_encoder(np.array([1., -2., 3., 4.])))", "unary_target([1., -2., 3., 4.])", "", "C20_search_unary")
    ok &= check_state(ctx, "unary_encoder:density_matrix", "unary_encoder(..., density_matrix=True)", "run(E.unary_encoder(np.array([1., -2., 3., 4.]), 'diagonal', density_matrix=True))",
                      "np.outer(unary_target([1., -2., 3., 4.]), unary_target([1., -2., 3., 4.]).conj())", "", "C20_search_unary")
    # the input array is not modified, a second call gives the same circuit
    ok &= check_state(ctx, "unary_encoder:second-call", "second call / input mutation", "run(E.unary_encoder(x, 'tree'))", "unary_target(x0)",
                      "x = np.array([3., -1., 2., 5., 1., 1., -4., 2.])\nx0 = x.copy()\nE.unary_encoder(x, 'tree'); E.unary_encoder(x, 'diagonal')\nassert (x == x0).all()\n", "C20_search_unary")
    for arch in ("diagonal", "tree"):
        ok &= check_state(ctx, f"unary_encoder:{arch}:int-dtype", "integer-valued ndarray", f"run(E.unary_encoder(np.array([1, -2, 0, 3]), {arch!r}))", "unary_target([1., -2., 0., 3.])", "", "C20_search_unary")
    expect_raises(ctx, "unary_encoder:errors", "ValueError", "E.unary_encoder(np.ones(6), 'tree')")
    expect_raises(ctx, "unary_encoder:errors", "ValueError", "E.unary_encoder(np.ones(4), 'semi')")
    expect_raises(ctx, "unary_encoder:errors", "TypeError", "E.unary_encoder(np.ones((2, 2)), 'tree')")
    expect_raises(ctx, "unary_encoder:errors", "TypeError", "E.unary_encoder(np.ones(4), True)")
    # random gaussian loader: shape only
    setup = ("def onehot_ok(s, n):\n    s = np.asarray(s)\n    idx = [2**k for k in range(n)]\n    m = np.ones(len(s), bool); m[idx] = False\n"
             "    return float(np.all(np.isfinite(s)) and np.abs(s[m]).max() < 1e-9 and abs(np.linalg.norm(s) - 1) < 1e-9 and np.abs(s.imag).max() < 1e-9)\n")
    for n in (2, 4, 8):
        sd = rng.randint(0, 10**6)
        ok &= check_state(ctx, "unary_encoder_random_gaussian:shape", f"unary_encoder_random_gaussian({n}) leaves the one-hot subspace / is not normalised",
                          f"[onehot_ok(run(E.unary_encoder_random_gaussian({n}, seed={sd})), {n})]", "[1.0]", setup, "C20_search_unary")
        ok &= check_state(ctx, "unary_encoder_random_gaussian:seed", "same integer seed gives different circuits",
                          f"run(E.unary_encoder_random_gaussian({n}, seed={sd}))", f"run(E.unary_encoder_random_gaussian({n}, seed={sd}))", "", "C20_search_unary")
    expect_raises(ctx, "unary_encoder_random_gaussian:errors", "ValueError", "E.unary_encoder_random_gaussian(3)")
    expect_raises(ctx, "unary_encoder_random_gaussian:errors", "ValueError", "E.unary_encoder_random_gaussian(-1)")
    expect_raises(ctx, "unary_encoder_random_gaussian:errors", "TypeError", "E.unary_encoder_random_gaussian('1')")
    expect_raises(ctx, "unary_encoder_random_gaussian:errors", "NotImplementedError", "E.unary_encoder_random_gaussian(4, architecture='diagonal')")
    expect_raises(ctx, "unary_encoder_random_gaussian:errors", "TypeError", "E.unary_encoder_random_gaussian(4, seed='seed')")
    ctx.ob("C20_search_unary", ok, "search", "" if ok else "unary encoder differs from x/|x| on the one-hot states")


def search_hw(ctx):
    rng = ctx.rng
    ok = True
    nmax = 8 if ctx.thorough else 7
    for n in range(2, nmax + 1):
        for k in range(1, n):
            d = math.comb(n, k)
            for kind, x in data_vectors(rng, d, True, (20 if ctx.thorough else 10) if n <= 6 else 6):
                oc = rng.random() < 0.6
                cplx = np.iscomplexobj(x)
                cls = ("complex" if cplx else "real") + (":sparse" if (x == 0).any() else "")
                setup = f"x = {arr_repr(x)}\nx0 = x.copy()\n"
                ok &= check_state(ctx, f"hamming_weight_encoder:{cls}", f"hamming_weight_encoder(x, {n}, {k}, optimize_controls={oc}) with x={x.tolist()}",
                                  f"run(E.hamming_weight_encoder(x, {n}, {k}, optimize_controls={oc}))", f"hw_target(x0, {n}, {k})", setup, "C20_search_hw")
                ctx.stat(f"hw:{kind.split('+')[0]}")
            # full_hwp: the circuit expects the first weight-k string as input
            x = np.round(np.array([rng.uniform(-1, 1) for _ in range(d)]), 6)
            first = sum(2**j for j in range(k))
            setup = f"x = {arr_repr(x)}\ninit = np.eye(2**{n}, dtype=complex)[{first}]\n"
            ok &= check_state(ctx, "hamming_weight_encoder:full_hwp", f"hamming_weight_encoder(x, {n}, {k}, full_hwp=True) applied to the first weight-{k} string",
                              f"run(E.hamming_weight_encoder(x, {n}, {k}, full_hwp=True), init)", f"hw_target(x, {n}, {k})", setup, "C20_search_hw")
    # input array untouched, second call identical, Circuit kwargs passed on
    ok &= check_state(ctx, "hamming_weight_encoder:second-call", "input mutated / second call differs",
                      "run(E.hamming_weight_encoder(x, 4, 2))", "hw_target(x0, 4, 2)",
                      "x = np.array([1., -2., 0., 3., 0.5, -1.]) * np.exp(1j*np.arange(6))\nx0 = x.copy()\nE.hamming_weight_encoder(x, 4, 2); E.hamming_weight_encoder(x, 4, 2, optimize_controls=False)\nassert (x == x0).all()\n", "C20_search_hw")
    ok &= check_state(ctx, "hamming_weight_encoder:density_matrix", "density_matrix=True", "run(E.hamming_weight_encoder(np.array([1., -2., 2.]), 3, 2, density_matrix=True))",
                      "np.outer(hw_target([1., -2., 2.], 3, 2), hw_target([1., -2., 2.], 3, 2).conj())", "", "C20_search_hw")
    # the walk itself on the real code: C(n,k) pairwise different strings of weight k, one 1 moved per step
    setup = ("def walk_ok(n, k):\n    s = E._ehrlich_algorithm(np.array([1]*k + [0]*(n-k)), False)\n"
             "    good = len(s) == math.comb(n, k) and len(set(s)) == len(s) and all(len(t) == n and t.count('1') == k for t in s)\n"
             "    return float(good and all(sum(a != b for a, b in zip(u, v)) == 2 for u, v in zip(s, s[1:])))\n")
    wmax = 12 if ctx.thorough else 10
    for n in range(2, wmax + 1):
        ok &= check_state(ctx, "_ehrlich_algorithm:gray", f"_ehrlich_algorithm for n={n} is not a one-move walk through all weight-k strings",
                          f"[walk_ok({n}, k) for k in range(1, {n})]", f"[1.0]*({n}-1)", setup, "C20_search_hw")
    ctx.ob("C20_search_hw", ok, "search", "" if ok else "Hamming-weight encoder differs from x/|x| on the weight-k states (ascending order)")


def chain_hypotheses(ctx):
    """hypotheses of T20_hw_chain on the REAL circuits (real data): gate k is an RBS on
    (a, b) controlled on cs; with v_k the k-th Ehrlich string read as a basis label it must
    find v_k with a=1, b=0, controls on, produce v_{k+1} by exchanging a and b, and leave
    every earlier v_j alone (a control off, or equal bits at a and b)."""
    E = ns()["E"]
    rng = ctx.rng
    bad = []
    nmax = 9 if ctx.thorough else 8
    for n in range(2, nmax + 1):
        for k in range(1, n):
            for oc in (True, False):
                ctx.case(("chain-hyp", n, k, oc))
                ctx.stat("chain_hypotheses")
                try:
                    d = math.comb(n, k)
                    data = np.array([rng.uniform(-1, 1) for _ in range(d)])
                    c = E.hamming_weight_encoder(data, n, k, optimize_controls=oc)
                    strings = E._ehrlich_algorithm(np.array([1] * k + [0] * (n - k)), False)
                    v = [[ch == "1" for ch in st] for st in strings]
                    gs = [g for g in c.queue if g.name != "x"]
                    xs = sorted(g.target_qubits[0] for g in c.queue if g.name == "x")
                    good = xs == [q for q in range(n) if v[0][q]] and len(gs) == d - 1 and all(g.name == "rbs" for g in gs)
                    for i, g in enumerate(gs):
                        if not good:
                            break
                        a, b = g.target_qubits
                        cs = list(g.control_qubits)
                        good &= a != b and a not in cs and b not in cs
                        good &= v[i][a] and not v[i][b] and all(v[i][q] for q in cs)
                        nxt = list(v[i])
                        nxt[a], nxt[b] = nxt[b], nxt[a]
                        good &= nxt == v[i + 1]
                        good &= all((not all(v[j][q] for q in cs)) or v[j][a] == v[j][b] for j in range(i))
                except Exception as e:  # noqa: BLE001
                    good = False
                if not good:
                    bad.append((n, k, oc))
    ctx.ob("C20_hw_chain_hypotheses", not bad, "correspondence",
           f"the gates of hamming_weight_encoder do not form a loading chain along the Ehrlich strings for (n, k, optimize_controls) in {bad[:5]}" if bad else "")


def search_binary(ctx):
    rng = ctx.rng
    ok = True
    nmax = 7 if ctx.thorough else 6
    for par in ("hyperspherical", "hopf"):
        for n in range(1, nmax + 1):
            d = 2**n
            for kind, x in data_vectors(rng, d, par == "hyperspherical", (40 if ctx.thorough else 20) if n <= 4 else 10):
                cplx = np.iscomplexobj(x)
                if par == "hopf" and has_zero_pair(x):
                    cls = "zero-pair"
                else:
                    cls = ("complex" if cplx else "real") + (":sparse" if (x == 0).any() else "")
                setup = f"x = {arr_repr(x)}\nx0 = x.copy()\n"
                ok &= check_state(ctx, f"binary_encoder:{par}:{cls}", f"binary_encoder(x, {par!r}) with x={x.tolist()}",
                                  f"run(E.binary_encoder(x, {par!r}))", "x0/np.linalg.norm(x0)", setup, "C20_search_binary")
                ctx.stat(f"binary:{par}:{kind.split('+')[0]}")
    for par in ("hyperspherical", "hopf"):
        ok &= check_state(ctx, f"binary_encoder:{par}:second-call", "input mutated / second call differs", f"run(E.binary_encoder(x, {par!r}))", "x0/np.linalg.norm(x0)",
                          f"x = np.array([1., -2., 0., 3., 0.5, -1., 2., 0.25])\nx0 = x.copy()\nE.binary_encoder(x, {par!r}); E.binary_encoder(x, {par!r})\nassert (x == x0).all()\n", "C20_search_binary")
        ok &= check_state(ctx, f"binary_encoder:{par}:density_matrix", "density_matrix=True", f"run(E.binary_encoder(np.array([1., -2., 2., 4.]), {par!r}, density_matrix=True))",
                          "np.outer([1., -2., 2., 4.], [1., -2., 2., 4.])/25", "", "C20_search_binary")
    if HOPF_COMPLEX:
        # complex data in Hopf coordinates: either the normalised data or the documented refusal
        setup = ("x = np.array([1+1j, 2, -1j, 3+0.5j])\ntry:\n    s = run(E.binary_encoder(x, 'hopf'))\nexcept NotImplementedError:\n    s = x/np.linalg.norm(x)\n")
        ok &= check_state(ctx, "binary_encoder:hopf:complex", "binary_encoder(complex data, 'hopf') neither loads the data nor raises NotImplementedError", "s", "x/np.linalg.norm(x)", setup, "C20_search_binary")
    ok &= check_state(ctx, "binary_encoder:default", "default parametrisation", "run(E.binary_encoder(np.array([1., -2., 0., 4.])))", "np.array([1., -2., 0., 4.])/np.sqrt(21)", "", "C20_search_binary")
    expect_raises(ctx, "binary_encoder:errors", "ValueError", "E.binary_encoder(np.ones(5))")
    expect_raises(ctx, "binary_encoder:errors", "ValueError", "E.binary_encoder(np.ones(6), 'hopf')")
    ctx.ob("C20_search_binary", ok, "search", "" if ok else "binary encoder differs from x/|x|")


# ---------------------------------------------------------------------------
# round 5: the same mathematical input in every representation the API accepts
# ---------------------------------------------------------------------------

DATA_FORMS = {
    "float64": ("np.array(v, dtype=np.float64)", True),
    "float32": ("np.array(v, dtype=np.float32)", True),
    "int64": ("np.array(v, dtype=np.int64)", True),
    "int32": ("np.array(v, dtype=np.int32)", True),
    "complex128-zero-imag": ("np.array(v, dtype=np.complex128)", False),
    "complex64-zero-imag": ("np.array(v, dtype=np.complex64)", False),
    "circuit-state": ("np.asarray(v, dtype=float) + 0j", False),
    "list": ("list(v)", False),
    "int-list": ("[int(t) for t in v]", False),
    "tuple": ("tuple(v)", False),
}


def search_dtypes(ctx):
    """one signed integer-valued vector handed to every encoder as float64 / float32 / int / complex dtype
    with identically zero imaginary part / list / tuple: the encoder must load the SIGNED normalised data
    or refuse the input (ndarray of a real dtype -- and a list for unary_encoder -- must be accepted)."""
    rng = ctx.rng
    ok = True
    encs = [
        ("unary_encoder:diagonal", (3, 4, 6), lambda n: n, "E.unary_encoder(x, 'diagonal')", "unary_target(v)", ("list", "int-list")),
        ("unary_encoder:tree", (2, 4, 8), lambda n: n, "E.unary_encoder(x, 'tree')", "unary_target(v)", ("list", "int-list")),
        ("hamming_weight_encoder", (3, 4, 5), lambda n: math.comb(n, 2), "E.hamming_weight_encoder(x, NN, 2)", "hw_target(v, NN, 2)", ()),
        ("binary_encoder:hyperspherical", (1, 2, 3), lambda n: 2**n, "E.binary_encoder(x, 'hyperspherical')", "np.asarray(v, dtype=float)/np.linalg.norm(v)", ()),
        ("binary_encoder:hopf", (1, 2, 3, 4), lambda n: 2**n, "E.binary_encoder(x, 'hopf')", "np.asarray(v, dtype=float)/np.linalg.norm(v)", ()),
    ]
    for name, sizes, dim, ctor, target, extra_must in encs:
        for n in sizes:
            d = dim(n)
            for rep in range(2 if ctx.thorough else 1):
                v = [float(rng.choice([-4, -3, -2, -1, 1, 2, 3, 5])) for _ in range(d)]
                v[rng.randrange(d)] = -abs(v[0]) - 1.0           # at least one negative entry
                if d > 2 and rng.random() < 0.5:
                    v[rng.randrange(d)] = 0.0
                if not any(t < 0 for t in v):
                    v[0] = -2.0
                for form, (expr, must) in DATA_FORMS.items():
                    must = must or form in extra_must
                    c_, t_ = ctor.replace("NN", str(n)), target.replace("NN", str(n))
                    setup = f"v = {v}\nx = {expr}\nrefused = None\ntry:\n    s = run({c_})\nexcept Exception as e:\n    refused = e\n    s = {t_}\n"
                    if must:
                        setup += "if refused is not None:\n    raise refused\n"
                    good = check_state(ctx, f"{name}:dtype:{form}", f"{name} given the vector {v} as {form} neither loads the signed normalised data nor refuses it",
                                       "s", t_, setup, "C20_search_dtypes", "lambda s, t: bad_rel(s, t, 1e-6, 1e-6)")
                    ok &= good
                    ctx.stat(f"dtype:{form}")
    ctx.ob("C20_search_dtypes", ok, "search", "" if ok else "an encoder loads different states for the same vector in different dtypes / containers")


BOOL_FLAGS = (("np.bool_(True)", True), ("(np.arange(3) >= 0).all()", True), ("1", True), ("np.int64(1)", True), ("np.int8(1)", True),
              ("np.bool_(False)", False), ("(np.arange(3) > 5).any()", False), ("0", False), ("np.int64(0)", False))


def search_boolflags(ctx):
    """boolean keywords given as numpy booleans / 0 / 1 / numpy integers: same circuit as for the python
    bool of the same truth value (identity tests `flag is True`, `flag == 1.0` on arrays ... break this)."""
    ok = True
    setup_dft = ("def dft(n):\n    N = 2**n\n    j = np.arange(N)\n    return np.exp(2j*np.pi*np.outer(j, j)/N)/np.sqrt(N)\n"
                 "def qtxt(c):\n    return [(g.name, tuple(g.control_qubits), tuple(g.target_qubits), tuple(float(np.real(p)) for p in g.parameters)) for g in c.queue]\n")
    for flag, truth in BOOL_FLAGS:
        for n in (2, 3, 5):
            ok &= check_state(ctx, "QFT:with_swaps:bool-like", f"QFT({n}, with_swaps={flag}) differs from QFT({n}, with_swaps={truth})",
                              f"QFT({n}, with_swaps={flag}).unitary(nb)", f"QFT({n}, with_swaps={truth}).unitary(nb)", setup_dft, "C20_search_boolflags")
            ok &= check_state(ctx, "QFT:with_swaps:bool-like", f"QFT({n}, {flag}) (positional) differs from QFT({n}, {truth})",
                              f"[float(qtxt(QFT({n}, {flag})) == qtxt(QFT({n}, {truth})))]", "[1.0]", setup_dft, "C20_search_boolflags")
        if truth:
            ok &= check_state(ctx, "QFT:with_swaps:bool-like", f"QFT(4, with_swaps={flag}, accelerators=...) is not the DFT",
                              f"QFT(4, with_swaps={flag}, accelerators={{'/GPU:0': 2}}).unitary(nb)", "dft(4)", setup_dft, "C20_search_boolflags")
        else:
            ok &= expect_raises(ctx, "QFT:with_swaps:bool-like", "NotImplementedError", f"QFT(4, with_swaps={flag}, accelerators={{'/GPU:0': 2}})", "C20_search_boolflags")
        for kw in ("full_hwp", "optimize_controls", "phase_correction"):
            for data in ("np.array([1., -2., 0.5, 3., -1., 2.])", "np.array([1., -2., 0.5, 3., -1., 2.]) * np.exp(1j*np.arange(6))"):
                ok &= check_state(ctx, f"hamming_weight_encoder:{kw}:bool-like", f"hamming_weight_encoder(…, {kw}={flag}) differs from {kw}={truth}",
                                  f"[float(qtxt(E.hamming_weight_encoder({data}, 4, 2, {kw}={flag})) == qtxt(E.hamming_weight_encoder({data}, 4, 2, {kw}={truth})))]", "[1.0]",
                                  setup_dft, "C20_search_boolflags")
        # (entangling_layer documents a TypeError for a closed_boundary that is not a python bool: not driven here)
        ok &= check_state(ctx, "_ehrlich_algorithm:return_indices:bool-like", f"_ehrlich_algorithm(…, return_indices={flag}) differs from return_indices={truth}",
                          f"[float(repr(E._ehrlich_algorithm(np.array([1, 1, 0, 0]), {flag})) == repr(E._ehrlich_algorithm(np.array([1, 1, 0, 0]), {truth})))]", "[1.0]",
                          setup_dft, "C20_search_boolflags")
        ok &= check_state(ctx, "Circuit-kwargs:density_matrix:bool-like", f"ghz_state(3, density_matrix={flag}) differs from density_matrix={truth}",
                          f"run(E.ghz_state(3, density_matrix={flag}))", f"run(E.ghz_state(3, density_matrix={truth}))", setup_dft, "C20_search_boolflags")
    ctx.ob("C20_search_boolflags", ok, "search", "" if ok else "a boolean keyword given as a numpy bool / 0 / 1 builds a different circuit than the python bool")


def search_lengths(ctx):
    """admissibility checks at LARGE sizes: lengths just above / below a power of two must be refused
    with the documented ValueError exactly as small ones (construction only; nothing is executed)."""
    bad = 0
    kmax = 17 if ctx.thorough else 16
    for k in range(2, kmax + 1):
        for m in (1, -1, 2, -2, 3):
            L = 2**k + m
            if L < 1 or L & (L - 1) == 0:
                continue
            stmts = [f"E.binary_encoder(np.ones({L}), 'hopf')", f"E.binary_encoder(np.ones({L}))"]
            if m in (1, -1):
                stmts += [f"E.binary_encoder(np.ones({L}, dtype=complex), 'hyperspherical')", f"E.unary_encoder(np.ones({L}), 'tree')",
                          f"E.unary_encoder(np.ones({L}).tolist(), 'tree')"]
            for stmt in stmts:
                if bad >= 3:
                    break          # a tree that accepts such lengths builds huge circuits: three replays are enough
                if not expect_raises(ctx, "length-validation:large", "ValueError", stmt, "C20_search_lengths"):
                    bad += 1
            ctx.stat(f"length_validation:k{k}")
    ctx.ob("C20_search_lengths", bad == 0, "search", "" if bad == 0 else "a length that is not a power of two is accepted")


def search_independence(ctx):
    """two circuits built by the same constructor for different data / sizes are independent
    objects: building the second must not change what the first prepares (shared gate
    objects, cached layouts), and executing in any order gives each its own target."""
    rng = ctx.rng
    ok = True

    def vec(d, cplx=False):
        x = np.array([rng.choice([-2., -1., .5, 1., 2., 3.]) for _ in range(d)])
        if cplx:
            x = x + 1j * np.array([rng.choice([-1., 0., .5, 2.]) for _ in range(d)])
        return x

    fams = [
        ("binary_encoder:hyperspherical", lambda n: 2**n, "E.binary_encoder({x}, 'hyperspherical')", "{x}/np.linalg.norm({x})", (1, 2, 3), True),
        ("binary_encoder:hopf", lambda n: 2**n, "E.binary_encoder({x}, 'hopf')", "{x}/np.linalg.norm({x})", (1, 2, 3), False),
        ("unary_encoder:diagonal", lambda n: n, "E.unary_encoder({x}, 'diagonal')", "unary_target({x})", (2, 3, 4), False),
        ("unary_encoder:tree", lambda n: n, "E.unary_encoder({x}, 'tree')", "unary_target({x})", (2, 4), False),
        ("hamming_weight_encoder", lambda n: n * (n - 1) // 2, "E.hamming_weight_encoder({x}, NN, 2)", "hw_target({x}, NN, 2)", (3, 4), True),
        ("phase_encoder", lambda n: n, "E.phase_encoder({x}, 'RY')", None, (2, 3), False),
    ]
    for name, dim, ctor, target, sizes, cplx_ok in fams:
        for n in sizes:
            for cplx in ([False, True] if cplx_ok else [False]):
                d = dim(n)
                a, b = vec(d, cplx), vec(d, cplx)
                c_ = ctor.replace("NN", str(n))
                t_ = target.replace("NN", str(n)) if target else None
                setup = (f"a = {arr_repr(a)}\nb = {arr_repr(b)}\nca = {c_.format(x='a')}\nsa0 = run(ca)\ncb = {c_.format(x='b')}\n"
                         "sb = run(cb)\nsa = run(ca)\nsb2 = run(cb)\n")
                tgt = t_.format(x="a") if t_ else "sa0"
                ok &= check_state(ctx, f"independence:{name}", f"{name}: the circuit built first changes when a second one of the same size is built (data {a.tolist()} then {b.tolist()})",
                                  "sa", tgt, setup, "C20_search_independence")
                ok &= check_state(ctx, f"independence:{name}", f"{name}: second circuit / repeated execution", "sb2", "sb", setup, "C20_search_independence")
                # the user retunes the first circuit (its parameters are public and settable):
                # a later construction from the same data must still prepare the target
                setup3 = (f"a = {arr_repr(a)}\nca = {c_.format(x='a')}\nsa0 = run(ca)\n"
                          "k = len(ca.get_parameters('flatlist'))\nca.set_parameters([0.37 * (i + 1) for i in range(k)])\n"
                          f"run(ca)\nca2 = {c_.format(x='a')}\n")
                ok &= check_state(ctx, f"independence:{name}", f"{name}: a circuit built after the parameters of an earlier one of the same size were changed",
                                  "run(ca2)", tgt, setup3, "C20_search_independence")
    setup_dft = ("def dft(n):\n    N = 2**n\n    j = np.arange(N)\n    return np.exp(2j*np.pi*np.outer(j, j)/N)/np.sqrt(N)\n"
                 "def rev(n):\n    return [int(format(i, f'0{n}b')[::-1], 2) for i in range(2**n)]\n")
    for n in (2, 3, 5):
        setup3 = setup_dft + (f"q = QFT({n})\nk = len(q.get_parameters('flatlist'))\nq.set_parameters([0.37 * (i + 1) for i in range(k)])\n"
                              f"q.unitary(nb)\nq1 = QFT({n}, with_swaps=False)\nq1.set_parameters([0.11 * (i + 1) for i in range(k)])\n")
        ok &= check_state(ctx, "independence:QFT", f"QFT({n}) built after the parameters of an earlier QFT({n}) were changed is not the DFT",
                          f"QFT({n}).unitary(nb)", f"dft({n})", setup3, "C20_search_independence")
        ok &= check_state(ctx, "independence:QFT", f"QFT({n}, with_swaps=False) built after the parameters of an earlier one were changed",
                          f"QFT({n}, with_swaps=False).unitary(nb)", f"dft({n})[rev({n}), :]", setup3, "C20_search_independence")
    # QFT circuits of different sizes / options built interleaved
    setup = "q3 = QFT(3)\nq4 = QFT(4, with_swaps=False)\nq3b = QFT(3)\nu = np.asarray(q3.unitary(nb))\nq4.unitary(nb)\n"
    ok &= check_state(ctx, "independence:QFT", "QFT circuits of different sizes/options built interleaved", "np.asarray(q3b.unitary(nb))", "u", setup, "C20_search_independence")
    ctx.ob("C20_search_independence", ok, "search", "" if ok else "a constructed circuit depends on other constructions")


def search_layers(ctx):
    """entangling_layer: the documented nearest-neighbour patterns (gate pairs only)."""
    E = ns()["E"]
    ok = True
    for n in range(2, 9):
        spec = {
            "diagonal": [(q, q + 1) for q in range(n - 1)],
            "even_layer": [(q, q + 1) for q in range(0, n - 1, 2)],
            "odd_layer": [(q, q + 1) for q in range(1, n - 1, 2)],
            "shifted": [(q, q + 1) for q in range(0, n - 1, 2)] + [(q, q + 1) for q in range(1, n - 1, 2)],
            "next_nearest": [(q, q + 2) for q in range(n - 2)],
        }
        for arch, pairs in spec.items():
            for closed in (False, True):
                exp = pairs + ([(n - 1, 0)] if closed else [])
                for gname in ("CNOT", "RBS"):
                    ctx.case(("layer", n, arch, closed, gname))
                    ctx.stat("search:entangling_layer")
                    try:
                        c = E.entangling_layer(n, arch, gname, closed)
                        got = [tuple(g.qubits) for g in c.queue]
                        pars_ok = all(all(p == 0.0 for p in g.parameters) for g in c.queue) and all(g.__class__.__name__ == gname for g in c.queue)
                    except Exception as e:  # noqa: BLE001
                        got, pars_ok = f"raised {type(e).__name__}: {e}", False
                    if got != exp or not pars_ok:
                        ok = False
                        py = PRE + f"c = E.entangling_layer({n}, {arch!r}, {gname!r}, {closed})\nsys.exit(0 if [tuple(g.qubits) for g in c.queue] == {exp} else 1)\n"
                        ctx.fail(f"entangling_layer:{arch}", f"entangling_layer({n}, {arch!r}, {gname!r}, {closed}) gate pairs", py, expected=exp, observed=got, broken=["C20_search_layers"])
    ctx.ob("C20_search_layers", ok, "search", "")


# ---------------------------------------------------------------------------
# phase 2: closed forms used by the general theorems vs the real code
# ---------------------------------------------------------------------------

def se_valid(kind, w, z):
    return kind == 0 or (kind == 1 and (w % 2 == 0 or z == 0)) or (kind == 2 and (w % 2 == 1 or z <= 1))


def se_start(kind, w, z):
    return {0: [1] * w + [0] * z, 1: [0] + [1] * w + [0] * z, 2: [0] * z + [1] * w}[kind]


def show_bits(bits):
    return "".join(str(int(b)) for b in list(bits)[::-1])


def deepen(ctx):
    """executable definitions introduced for the all-n theorems, run against the real code:
    `treeGates` (T20_unary_tree_gates), `seStart/seEnd/seValid/ehrLast` (T20_ehrlich_subwalk,
    T20_ehrlich_complete_shapes), `hsInits/hsInitClosed` (initial strings of the hyperspherical
    binary encoder), and the defining relations of the tree angles (hypotheses of T20_unary_tree)."""
    ev = ns()
    E = ev["E"]
    rng = ctx.rng
    # -- tree loader, closed form
    cases = []
    for m in range(1, (8 if ctx.thorough else 7)):
        n = 2**m
        data = np.array([rng.uniform(-1, 1) for _ in range(n)])
        cases.append((f"TREE {m}", real(lambda: queue_text(E.unary_encoder(data, "tree").queue)), f"unary_encoder(<{n} reals>, 'tree')"))
    ctx.sample({"suite": "tree_closed_form", "line": cases[1][0], "queue": cases[1][1]})
    corr_suite(ctx, "tree_closed_form", cases)
    # -- admissible initial strings of the Ehrlich walk and where the walk ends
    orig = getattr(E, "_ehrlich_algorithm", None)
    if orig is None:
        ctx.ob("C20_corr_ehrlich_shapes", False, "correspondence", "models/encodings.py has no _ehrlich_algorithm any more")
        ctx.ob("C20_corr_hs_inits", False, "correspondence", "not run")
    else:
        lmax = 12 if ctx.thorough else 10
        cases = []
        for kind in (0, 1, 2):
            for w in range(0, lmax + 1):
                for z in range(0, lmax + 1):
                    L = w + z + (1 if kind == 1 else 0)
                    if not (2 <= L <= lmax) or not se_valid(kind, w, z):
                        continue
                    start = se_start(kind, w, z)
                    if not 0 < sum(start) < L:
                        continue   # python returns a one-element list for constant strings
                    ctx.stat(f"ehrlich_shape:{'ABC'[kind]}")

                    def stxt():
                        strings = orig(np.array(start), False)
                        complete = (len(strings) == math.comb(L, sum(start)) and len(set(strings)) == len(strings)
                                    and all(len(t) == L and t.count("1") == sum(start) for t in strings)
                                    and all(sum(a != b for a, b in zip(u, v)) == 2 for u, v in zip(strings, strings[1:])))
                        if not complete:
                            py = PRE + (f"s = E._ehrlich_algorithm(np.array({start}), False)\n"
                                        f"ok = len(s) == math.comb({L}, {sum(start)}) and len(set(s)) == len(s) and all(len(t) == {L} and t.count('1') == {sum(start)} for t in s) "
                                        "and all(sum(a != b for a, b in zip(u, v)) == 2 for u, v in zip(s, s[1:]))\nprint(s)\nsys.exit(0 if ok else 1)\n")
                            ctx.fail("_ehrlich_algorithm:shapes", f"_ehrlich_algorithm(np.array({start})) is not a one-move walk through all strings of its weight",
                                     py, expected=f"{math.comb(L, sum(start))} pairwise different strings", observed=str(strings)[:400], broken=["C20_corr_ehrlich_shapes"])
                        return f"true {show_bits(start)} {strings[-1]} {strings[-1]} {len(strings)}"
                    cases.append((f"SHAPE {kind} {w} {z}", real(stxt), f"_ehrlich_algorithm(np.array({start}), False): last string and length"))
        ctx.sample({"suite": "ehrlich_shapes", "line": cases[7][0], "answer": cases[7][1]})
        corr_suite(ctx, "ehrlich_shapes", cases)
        # -- initial strings of the Hamming-weight blocks of the hyperspherical binary encoder
        cases = []
        for n in range(2, (9 if ctx.thorough else 8)):
            rec = []

            def spy(initial_string, return_indices=True):
                if return_indices:
                    rec.append([int(b) for b in initial_string])
                return orig(initial_string, return_indices)

            def htxt():
                E._ehrlich_algorithm = spy
                try:
                    E.binary_encoder(np.arange(1.0, 2**n + 1), "hyperspherical")
                finally:
                    E._ehrlich_algorithm = orig
                t = " ".join(show_bits(b) for b in rec)
                return t + " # " + t
            cases.append((f"HSINITS {n}", real(htxt), f"initial strings passed to _ehrlich_algorithm by binary_encoder(<{2**n} reals>, 'hyperspherical')"))
        corr_suite(ctx, "hs_inits", cases)
    # -- defining relations of the tree angles (hypotheses of T20_unary_tree) on the real angle function
    gen = getattr(E, "_generate_rbs_angles", None)
    bad = []
    relsetup = ("def heap_norms(x):\n    n = len(x); R = np.zeros(2*n - 1); R[n-1:] = x\n    for e in range(n - 2, -1, -1):\n        R[e] = math.hypot(R[2*e+1], R[2*e+2])\n    return R\n"
                "def rel_defect(x):\n    x = np.asarray(x, dtype=float); n = len(x); R = heap_norms(x)\n    th = np.asarray(E._generate_rbs_angles(x, 'tree', n), dtype=float)\n"
                "    c = E.unary_encoder(x, 'tree')\n    par = np.array([float(p[0]) for p in c.get_parameters()])\n"
                "    assert th.shape == (n - 1,) and np.array_equal(par, th), 'circuit parameters are not the angles in queue order'\n"
                "    return max(max(abs(R[e]*math.cos(th[e]) - R[2*e+1]), abs(R[e]*math.sin(th[e]) - R[2*e+2])) for e in range(n - 1)) / R[0]\n")
    if gen is None:
        ctx.ob("C20_tree_angle_relations", False, "correspondence", "models/encodings.py has no _generate_rbs_angles any more")
        return
    env = dict(ev)
    exec(relsetup, env)
    for n in (2, 4, 8, 16, 32):
        for kind, x in list(data_vectors(rng, n, False, 12 if ctx.thorough else 6)) + [(t_, x_) for t_, x_, _ in scale_vectors(rng, n, False, mixed=False)]:
            ctx.case(("tree-angles", n, kind, tuple(float(v) for v in x)))
            ctx.stat(f"tree_angles:n{n}")
            try:
                d = env["rel_defect"](x)
                good = np.isfinite(d) and d <= 1e-9
                obs = f"defect {d}"
            except Exception as e:  # noqa: BLE001
                good, obs = False, f"raised {type(e).__name__}: {e}"
            if not good:
                bad.append((n, obs))
                py = PRE + relsetup + f"x = {arr_repr(x)}\nd = rel_defect(x)\nprint(d)\nsys.exit(0 if np.isfinite(d) and d <= 1e-9 else 1)\n"
                ctx.fail("_generate_rbs_angles:tree-relations", f"tree angles of {[float(v) for v in x]} violate r_e cos = r_left / r_e sin = r_right (heap order), or are not the circuit parameters in queue order",
                         py, expected="defect <= 1e-9", observed=obs, broken=["C20_tree_angle_relations"])
        # index structure, exact: changing data[p] changes exactly the angles of the ancestors of leaf p
        x = np.array([rng.uniform(0.5, 2.0) for _ in range(n)])
        try:
            th0 = np.asarray(gen(x, "tree", n), dtype=float)
            for p_ in range(n):
                y = x.copy()
                y[p_] = y[p_] * 1.37 + 0.11
                th1 = np.asarray(gen(y, "tree", n), dtype=float)
                changed = {e for e in range(n - 1) if th0[e] != th1[e]}
                anc, e = set(), n - 1 + p_
                while e > 0:
                    e = (e - 1) // 2
                    anc.add(e)
                ctx.case(("tree-angle-index", n, p_))
                if changed != anc:
                    bad.append((n, f"data[{p_}] influences angles {sorted(changed)}, ancestors of its leaf are {sorted(anc)}"))
        except Exception as e:  # noqa: BLE001
            bad.append((n, f"raised {type(e).__name__}: {e}"))
    ctx.ob("C20_tree_angle_relations", not bad, "correspondence",
           f"{len(bad)} violations; first: n={bad[0][0]}: {bad[0][1]}" if bad else "")


# ---------------------------------------------------------------------------
# phase 2b: phase_encoder, binary encoders (hyperspherical / Hopf), complex Hamming-weight
# encoder inside the model (QV/Model/EncodingsB.lean): verbatim queues with symbolic angle
# indices, gate semantics, and the hypotheses of the loading-chain / tree theorems on the
# real circuits
# ---------------------------------------------------------------------------

CTRL_ALIASES = {"crx": "rx", "cry": "ry", "crz": "rz", "cu3": "u3"}


def base_name(g):
    return CTRL_ALIASES.get(g.name, g.name)


def bq_text(queue, nqubits=None):
    """canonical text of a real queue in the format of `BG.show` (QV/Model/EncodingsB.lean).
    Symbolic indices are derived from the STRUCTURE of the queue only: `k` counts the steps
    (RBS / RY / RX / U3 gates and free-standing RZ gates) in queue order; the two RZ gates that
    follow an RBS on its two targets with the same controls belong to its step (`-k` on the
    first target, `+k` on the second: that the parameters are really -phi and +phi is checked by
    value in `chain_relations`); a controlled RZ that closes the queue is the phase correction
    (`+2*k`; any qubit outside its controls is equivalent -- numpy's argsort picks one -- so the
    smallest is printed); a U3 that closes the queue is the `u3l` of the complex encoder."""
    out = []
    q = list(queue)
    k = 0
    pending = []
    for pos, g in enumerate(q):
        nm = base_name(g)
        cs = sorted(int(c) for c in g.control_qubits)
        ts = [int(t) for t in g.target_qubits]
        ctl = (" c " + " ".join(map(str, cs))) if cs else ""
        if nm == "x" and not cs:
            s = f"x {ts[0]}"
        elif nm in ("rx", "ry"):
            s = f"{nm} {ts[0]} {k}{ctl}"
            k += 1
            pending = []
        elif nm == "rbs":
            s = f"rbs {ts[0]} {ts[1]} {k}{ctl}"
            pending = [(ts[0], "-", cs, k), (ts[1], "+", cs, k)]
            k += 1
        elif nm == "u3":
            s = (f"u3l {ts[0]} {k}{ctl}" if pos == len(q) - 1 else f"u3 {ts[0]} {k} {k}{ctl}")
            k += 1
            pending = []
        elif nm == "rz" and pending and pending[0][0] == ts[0] and pending[0][2] == cs:
            _, sign, _, kk = pending.pop(0)
            s = f"rz {ts[0]} {sign}{kk}{ctl}"
        elif nm == "rz" and cs and pos == len(q) - 1 and ts[0] not in cs:
            free = [r for r in range(nqubits if nqubits is not None else max(cs + ts) + 1) if r not in cs]
            s = f"rz {min(free)} +2*{k}{ctl}"
        elif nm == "rz" and not cs:
            s = f"rz {ts[0]} +{k}"
            k += 1
            pending = []
        else:
            s = f"{g.name} t{tuple(ts)} c{tuple(cs)} p{tuple(float(np.real(p)) for p in g.parameters)}"
        out.append(s)
    return ";".join(out)


PRIMES = {2: "c", 3: "s", 5: "p", 7: "m", 11: "i", 13: "lp0", 17: "lm0", 19: "lp1", 23: "lm1"}


def decode_entry(v, val):
    """integer matrix entry of the model over Z (scalars = distinct primes) -> complex number."""
    if v == 0:
        return 0.0
    z = -1.0 if v < 0 else 1.0
    v = abs(v)
    for p, nm in PRIMES.items():
        while v % p == 0:
            z = z * val[nm]
            v //= p
    if v != 1:
        raise ValueError("model matrix entry is not a product of the scalars")
    return z


def gate_semantics(ctx):
    """`BG.sem` (the matrices the theorems are about) vs the matrices of the real gate classes,
    at random angles: the model's matrix is evaluated by the Lean driver over the integers with the
    scalars replaced by distinct primes and decoded here."""
    ev = ns()
    nb = ev["nb"]
    from qibo import gates
    rng = ctx.rng
    kinds = [("x", 0, 0, 0), ("rx", 1, 0, 0), ("ry", 2, 0, 0), ("rz", 3, 0, 0), ("rz-", 3, 1, 0), ("rz2", 3, 0, 1),
             ("rz-2", 3, 1, 1), ("rbs", 4, 0, 0), ("u3", 5, 0, 0), ("u3l", 6, 0, 0)]
    outs = run_driver([f"MAT {k} {ng} {db}" for _, k, ng, db in kinds], driver=DRIVER)
    bad = []
    for (nm, k, ng, db), out in zip(kinds, outs):
        for rep in range(6):
            th, ph, ph2, lam = (rng.uniform(-7, 7) for _ in range(4))
            if rep == 0:
                th, ph = 0.0, 0.0
            val = {"c": math.cos(th), "s": math.sin(th), "p": np.exp(0.5j * ph), "m": np.exp(-0.5j * ph), "i": 1j,
                   "lp0": np.exp(0.5j * (ph2 + lam)), "lm0": np.exp(-0.5j * (ph2 + lam)),
                   "lp1": np.exp(0.5j * (ph2 - lam)), "lm1": np.exp(-0.5j * (ph2 - lam))}
            ctx.case(("gate-sem", nm, rep))
            ctx.stat("gate_semantics")
            try:
                model = np.array([[decode_entry(int(t), val) for t in row.split()] for row in out.split(";")], dtype=complex)
                g = {"x": lambda: gates.X(0), "rx": lambda: gates.RX(0, 2 * th), "ry": lambda: gates.RY(0, 2 * th),
                     "rz": lambda: gates.RZ(0, ph), "rz-": lambda: gates.RZ(0, -ph), "rz2": lambda: gates.RZ(0, 2 * ph),
                     "rz-2": lambda: gates.RZ(0, -2 * ph), "rbs": lambda: gates.RBS(0, 1, th),
                     "u3": lambda: gates.U3(0, 2 * th, 2 * ph, 0.0), "u3l": lambda: gates.U3(0, 2 * th, ph2, lam)}[nm]()
                realm = np.asarray(g.matrix(nb))
                good = realm.shape == model.shape and np.allclose(realm, model, atol=1e-12)
                obs = "" if good else f"model {np.round(model, 6).tolist()} real {np.round(realm, 6).tolist()}"
            except Exception as e:  # noqa: BLE001
                good, obs = False, f"raised {type(e).__name__}: {e}"
            if not good:
                bad.append((nm, obs))
    ctx.ob("C20_corr_gate_semantics", not bad, "correspondence",
           f"{len(bad)} disagreements; first: gate {bad[0][0]}: {bad[0][1][:300]}" if bad else "")


def rand_data(rng, d, cplx):
    x = np.array([rng.uniform(0.1, 1) * rng.choice([-1, 1]) for _ in range(d)])
    if cplx:
        x = x.astype(complex) * np.array([np.exp(1j * rng.uniform(0, 6.28)) for _ in range(d)])
    return x


def correspondence_b(ctx):
    ev = ns()
    E = ev["E"]
    rng = ctx.rng
    # -- phase_encoder
    cases = []
    for n in list(range(1, 13)) + [20, 33]:
        for r, rot in enumerate(("RX", "RY", "RZ")):
            x = [rng.uniform(-7, 7) for _ in range(n)]
            arg = x if rng.random() < 0.5 else np.array(x)

            def ptxt():
                c = E.phase_encoder(arg, rotation=rot)
                pars = [float(g.parameters[0]) for g in c.queue]
                assert len(c.queue) == n and pars == [float(v) for v in x], "parameter q of phase_encoder is not data[q]"
                assert c.nqubits == n
                return bq_text(c.queue)
            cases.append((f"PHASE {n} {r}", real(ptxt), f"phase_encoder(<{n} reals>, {rot!r})"))
    ctx.sample({"suite": "phase_encoder", "line": cases[7][0], "queue": cases[7][1]})
    corr_suite(ctx, "phase_encoder", cases)
    # -- hyperspherical binary encoder, real and complex data
    cases = []
    hmax = 10 if ctx.thorough else 9
    for n in range(1, hmax + 1):
        for cplx in (0, 1):
            x = rand_data(rng, 2**n, cplx)
            cases.append((f"HS {n} {cplx}", real(lambda: bq_text(E.binary_encoder(x, "hyperspherical").queue)),
                          f"binary_encoder(<{2**n} {'complex' if cplx else 'real'}s>, 'hyperspherical')"))
    ctx.sample({"suite": "hyperspherical", "line": cases[4][0], "queue": cases[4][1]})
    extra = sorted({int(b[0].split()[1]) for b in corr_suite(ctx, "hyperspherical", cases)})
    # -- Hopf binary encoder
    cases = []
    for n in range(1, hmax + 1):
        x = rand_data(rng, 2**n, 0)
        cases.append((f"HOPF {n}", real(lambda: bq_text(E.binary_encoder(x, "hopf").queue)), f"binary_encoder(<{2**n} reals>, 'hopf')"))
    ctx.sample({"suite": "hopf", "line": cases[1][0], "queue": cases[1][1]})
    corr_suite(ctx, "hopf", cases)
    # -- Hamming-weight encoder, every option, real and complex data
    cases = []
    wmax = 7 if ctx.thorough else 6
    for n in range(2, wmax + 1):
        for k in range(1, n):
            d = math.comb(n, k)
            for oc, fh, cplx, pc in itertools.product((1, 0), (0, 1), (0, 1), (1, 0)):
                if not cplx and not pc and rng.random() < 0.5:
                    continue
                x = rand_data(rng, d, cplx)
                cases.append((f"HWB {n} {k} {oc} {fh} {cplx} {pc}",
                              real(lambda: bq_text(E.hamming_weight_encoder(x, n, k, full_hwp=bool(fh), optimize_controls=bool(oc), phase_correction=bool(pc)).queue, n)),
                              f"hamming_weight_encoder(<{d} {'complex' if cplx else 'real'}s>, {n}, {k}, full_hwp={bool(fh)}, optimize_controls={bool(oc)}, phase_correction={bool(pc)})"))
    ctx.sample({"suite": "hw_complex", "line": cases[6][0], "queue": cases[6][1]})
    corr_suite(ctx, "hw_encoder_b", cases)
    return extra


# -- hypotheses of T20_loading_chain / T20_hw_phase_correction / T20_loading_chain_amplitudes
#    on the REAL circuits

CHAIN_SETUP = '''
def base_matrix(g):
    M = np.asarray(g.matrix(nb))
    if g.name in ("crx", "cry", "crz", "cu3"):
        assert np.allclose(M[:2, :2], np.eye(2)) and np.allclose(M[:2, 2:], 0) and np.allclose(M[2:, :2], 0)
        M = M[2:, 2:]
    return M
def bname(g):
    return {"crx": "rx", "cry": "ry", "crz": "rz", "cu3": "u3"}.get(g.name, g.name)
def parse_chain(queue):
    q = list(queue); i = 0; xs = []; steps = []; corr = None
    while i < len(q) and q[i].name == "x" and not q[i].control_qubits:
        xs.append(int(q[i].target_qubits[0])); i += 1
    while i < len(q):
        g = q[i]; nm = bname(g); cs = sorted(int(c) for c in g.control_qubits); ts = [int(t) for t in g.target_qubits]
        if nm == "rbs":
            st = dict(add=False, a=ts[0], b=ts[1], cs=cs, g=g, rz=[])
            if i + 2 <= len(q) - 1 and bname(q[i+1]) == "rz" and bname(q[i+2]) == "rz" \\
                    and [int(t) for t in q[i+1].target_qubits] == [ts[0]] and [int(t) for t in q[i+2].target_qubits] == [ts[1]] \\
                    and sorted(int(c) for c in q[i+1].control_qubits) == cs and sorted(int(c) for c in q[i+2].control_qubits) == cs:
                st["rz"] = [q[i+1], q[i+2]]; i += 2
            steps.append(st)
        elif nm in ("ry", "u3"):
            steps.append(dict(add=True, a=ts[0], b=None, cs=cs, g=g, kind=nm, last=(i == len(q) - 1)))
        elif nm == "rz" and i == len(q) - 1 and cs:
            corr = dict(z=ts[0], cs=cs, g=g)
        else:
            raise ValueError(f"unexpected gate {g.name} at position {i}")
        i += 1
    return xs, steps, corr
def chain_check(c, n, v0, cplx):
    """hypotheses okAt / next / fixes of T20_loading_chain on the queue of `c`; returns the visited
    labels (tuples of bits, qubit 0 first), the coefficients A_k, B_k read off the real gate matrices
    and the factor of the phase correction."""
    xs, steps, corr = parse_chain(c.queue)
    v = [tuple(v0)]
    assert len(xs) == len(set(xs))
    if xs:
        w = list(v0)
        for t in xs:
            w[t] = 1 - w[t]
        v = [tuple(w)]
    A, B = [], []
    for k, st in enumerate(steps):
        cur = v[-1]; a, b, cs = st["a"], st["b"], st["cs"]
        assert a not in cs and all(cur[r] for r in cs), f"step {k}: controls not on"
        if st["add"]:
            assert cur[a] == 0, f"step {k}: target bit already 1"
            nxt = list(cur); nxt[a] = 1
            for j in range(k):
                assert not all(v[j][r] for r in cs), f"step {k} touches the earlier state {j}"
            M = base_matrix(st["g"])
            if st["kind"] == "u3" and not st["last"]:
                assert float(st["g"].parameters[2]) == 0.0, "U3 inside the chain has lambda != 0"
            assert (st["kind"] == "u3") == cplx
            A.append(M[0, 0]); B.append(M[1, 0])
        else:
            assert a != b and b not in cs and cur[a] == 1 and cur[b] == 0, f"step {k}: RBS does not find its string"
            nxt = list(cur); nxt[a], nxt[b] = 0, 1
            for j in range(k):
                assert (not all(v[j][r] for r in cs)) or v[j][a] == v[j][b], f"step {k} touches the earlier state {j}"
            M = base_matrix(st["g"])
            assert M.shape == (4, 4)
            Ak, Bk = M[2, 2], M[1, 2]
            assert bool(st["rz"]) == cplx, "RZ pair present iff the data are complex"
            if st["rz"]:
                p1, p2 = float(st["rz"][0].parameters[0]), float(st["rz"][1].parameters[0])
                assert p1 == -p2, f"step {k}: the two RZ parameters are not -phi, +phi"
                Z1, Z2 = base_matrix(st["rz"][0]), base_matrix(st["rz"][1])
                assert abs(Z1[0, 1]) + abs(Z1[1, 0]) + abs(Z2[0, 1]) + abs(Z2[1, 0]) == 0
                Ak = Ak * Z1[1, 1] * Z2[0, 0]; Bk = Bk * Z1[0, 0] * Z2[1, 1]
            A.append(Ak); B.append(Bk)
        v.append(tuple(nxt))
    d = 1.0
    if corr is not None:
        z, cs = corr["z"], corr["cs"]
        assert z not in cs and all(v[-1][r] for r in cs) and v[-1][z] == 0, "phase correction misplaced"
        for j in range(len(v) - 1):
            assert not all(v[j][r] for r in cs), f"phase correction touches the earlier state {j}"
        Z = base_matrix(corr["g"]); assert abs(Z[0, 1]) + abs(Z[1, 0]) == 0
        d = Z[0, 0]
    return v, A, B, d, corr is not None
def chain_amps(A, B, d):
    out = []; acc = 1.0
    for a, b in zip(A, B):
        out.append(acc * a); acc = acc * b
    out.append(acc * d)
    return np.array(out)
def label_index(lab):
    return int("".join(str(int(b)) for b in lab), 2)
def binary_defect(x, par):
    """state predicted by T20_loading_chain (+ amplitudes) from the real gate list vs x/|x|, and the walk covers every basis state once."""
    x = np.asarray(x); n = int(round(math.log2(len(x)))); cplx = np.iscomplexobj(x)
    c = E.binary_encoder(x, par)
    v, A, B, d, hascorr = chain_check(c, n, [0] * n, cplx)
    assert not hascorr
    idx = [label_index(l) for l in v]
    assert sorted(idx) == list(range(2**n)), "the walk does not visit every basis state exactly once"
    amps = chain_amps(A, B, 1.0)
    return float(np.abs(amps - x[idx] / np.linalg.norm(x)).max()), [("".join(map(str, l))) for l in v]
def hw_defect(x, n, k, oc, pc):
    x = np.asarray(x); cplx = np.iscomplexobj(x)
    c = E.hamming_weight_encoder(x, n, k, optimize_controls=oc, phase_correction=pc)
    v, A, B, d, hascorr = chain_check(c, n, [0] * n, cplx)
    assert hascorr == (cplx and pc)
    idx = [label_index(l) for l in v]
    basis = [i for i in range(2**n) if bin(i).count("1") == k]
    assert sorted(idx) == basis, "the walk does not visit every weight-k basis state exactly once"
    amps = chain_amps(A, B, d)
    tgt = np.asarray(x)[[basis.index(i) for i in idx]] / np.linalg.norm(x)
    if cplx and not pc:   # without the correction the last amplitude keeps a phase: compare moduli there
        amps = np.append(amps[:-1], abs(amps[-1])); tgt = np.append(tgt[:-1], abs(tgt[-1]))
    return float(np.abs(amps - tgt).max())
def hopf_defect(x):
    """hypotheses of T20_binary_hopf on the real circuit: parameter e is twice the e-th tree angle in heap order and R_e cos = R_(2e+1), R_e sin = R_(2e+2)."""
    x = np.asarray(x, dtype=float); d = len(x); n = int(round(math.log2(d)))
    c = E.binary_encoder(x, "hopf")
    par = np.array([float(g.parameters[0]) for g in c.queue if g.parameters])
    th = np.asarray(E._generate_rbs_angles(x, "tree", d), dtype=float)
    assert par.shape == (d - 1,) and np.array_equal(par, 2 * th), "parameters of the Hopf circuit are not twice the tree angles in queue order"
    R = np.zeros(2 * d - 1); R[d - 1:] = x
    for e in range(d - 2, -1, -1):
        R[e] = math.hypot(R[2*e+1], R[2*e+2])
    return max(max(abs(R[e]*math.cos(par[e]/2) - R[2*e+1]), abs(R[e]*math.sin(par[e]/2) - R[2*e+2])) for e in range(d - 1)) / R[0]
'''


def chain_relations(ctx, extra=()):
    """the decidable hypotheses of T20_loading_chain (okAt / next / fixes), of
    T20_hw_phase_correction and the numerical ones of T20_loading_chain_amplitudes
    (r_k A_k = x_k, r_k B_k = r_(k+1): equivalently the chain amplitudes computed from the real
    gate parameters equal x/|x| to 1e-9), on the real circuits; and the walk of the model
    (`hsWalk`) vs the order in which the real circuit writes the basis states."""
    ev = dict(ns())
    exec(CHAIN_SETUP, ev)
    rng = ctx.rng
    bad = []
    walks = {}

    def one(key, what, expr, setup, tol=1e-9, also=()):
        ctx.case((key, setup, expr))
        ctx.stat("chain:" + key.split(":")[0])
        env = dict(ev)
        try:
            exec(setup, env)
            res = eval(expr, env)
            dfc = res[0] if isinstance(res, tuple) else res
            good = bool(np.isfinite(dfc) and dfc <= tol)
            obs = f"defect {dfc}"
        except Exception as e:  # noqa: BLE001
            good, obs, res = False, f"raised {type(e).__name__}: {e}", None
        if not good:
            bad.append((key, obs))
            py = PRE + CHAIN_SETUP + setup + f"\ntry:\n    r = {expr}\nexcept Exception as e:\n    print('raised', repr(e)); sys.exit(1)\nd = r[0] if isinstance(r, tuple) else r\nprint(d)\nsys.exit(0 if np.isfinite(d) and d <= {tol} else 1)\n"
            ctx.fail(key, what, py, expected=f"defect <= {tol} and all chain hypotheses hold", observed=obs[:600], broken=["C20_chain_relations", *also])
        return res

    nmax = 9 if ctx.thorough else 8
    # sizes on which the gate list differs from the model are searched for a failing input as well
    for n in list(range(1, nmax + 1)) + [m for m in extra if m > nmax]:
        for kind, x in list(data_vectors(rng, 2**n, True, 8 if n <= 5 else (4 if n <= 7 else 2))) + ([(t_, x_) for t_, x_, _ in scale_vectors(rng, 2**n, True)] if n <= 5 else []):
            cplx = np.iscomplexobj(x)
            cls = ("complex" if cplx else "real") + (":sparse" if (x == 0).any() else "")
            res = one(f"binary_encoder:hyperspherical:chain:{cls}", f"the gates of binary_encoder(x, 'hyperspherical') with x={x.tolist()[:16]} do not form a loading chain that writes x/|x|",
                      "binary_defect(x, 'hyperspherical')", f"x = {arr_repr(x)}\n", also=("C20_corr_hyperspherical", "C20_corr_hs_walk"))
            if isinstance(res, tuple):
                walks.setdefault(n, res[1])
    hw = 7 if ctx.thorough else 6
    for n in range(2, hw + 1):
        for k in range(1, n):
            d = math.comb(n, k)
            for kind, x in list(data_vectors(rng, d, True, 6 if n <= 5 else 3)) + ([(t_, x_) for t_, x_, _ in scale_vectors(rng, d, True)] if n <= 4 else []):
                cplx = np.iscomplexobj(x)
                oc, pc = rng.random() < 0.5, rng.random() < 0.8
                cls = ("complex" if cplx else "real") + (":sparse" if (x == 0).any() else "")
                one(f"hamming_weight_encoder:chain:{cls}", f"the gates of hamming_weight_encoder(x, {n}, {k}, optimize_controls={oc}, phase_correction={pc}) with x={x.tolist()[:16]} do not form a loading chain that writes x/|x|",
                    f"hw_defect(x, {n}, {k}, {oc}, {pc})", f"x = {arr_repr(x)}\n", also=("C20_corr_hw_encoder_b",))
    for n in range(1, nmax + 1):
        for kind, x in list(data_vectors(rng, 2**n, False, 6 if n <= 5 else 3)) + ([(t_, x_) for t_, x_, _ in scale_vectors(rng, 2**n, False, mixed=False)] if n <= 5 else []):
            cls = "zero-pair" if has_zero_pair(x) else ("sparse" if (x == 0).any() else "dense")
            one(f"binary_encoder:hopf:tree-relations:{cls}", f"angles of binary_encoder(x, 'hopf') with x={x.tolist()[:16]} violate the tree relations / heap order",
                "hopf_defect(x)", f"x = {arr_repr(x)}\n", also=("C20_corr_hopf",))
    ctx.ob("C20_chain_relations", not bad, "correspondence",
           f"{len(bad)} violations; first: {bad[0][0]}: {bad[0][1][:300]}" if bad else "")
    # -- the walk of the model vs the order in which the real circuits write the basis states
    cases = []
    for n, w in sorted(walks.items()):
        cases.append((f"HSWALK {n}", " ".join(w), f"order in which binary_encoder(<{2**n} values>, 'hyperspherical') writes the basis states"))
    corr_suite(ctx, "hs_walk", cases)


def run(ctx):
    MODULES, THEOREMS = registry(PROP)
    ctx.theorems = THEOREMS
    build_and_audit(ctx, PROP, MODULES, THEOREMS)
    correspondence(ctx)
    deepen(ctx)
    gate_semantics(ctx)
    extra = correspondence_b(ctx)
    chain_relations(ctx, extra or ())
    search_qft(ctx)
    search_simple(ctx)
    search_unary(ctx)
    search_hw(ctx)
    chain_hypotheses(ctx)
    search_binary(ctx)
    search_scales(ctx)
    search_dtypes(ctx)
    search_boolflags(ctx)
    search_lengths(ctx)
    search_independence(ctx)
    search_layers(ctx)
    ctx.notes.append(
        "correspondence: Lean gate-list generators vs the real constructors' queues, verbatim (class, control/target qubits, CU1 exponent, RBS parameter index): "
        "QFT n<=12 with/without swaps, comp_basis_encoder all strings n<=5 x input types + int inputs, ghz n<=12, _generate_rbs_pairs diagonal n<=12 / tree n<=32, "
        "unary_encoder queues, _ehrlich_algorithm strings + (targets, controls) for all (n<=9, k) and the initial strings the hyperspherical encoder uses, "
        "hamming_weight_encoder skeleton n<=7 all k x optimize_controls x full_hwp; "
        "closed forms behind the all-n theorems: tree loader X::treeGates m vs unary_encoder queues n = 2..64, admissible initial strings of the Ehrlich walk (seStart/seEnd/ehrLast) vs the real walk's last string, "
        "length and completeness for all shapes of length <= 10, hsInits/hsInitClosed vs the initial strings recorded from binary_encoder(hyperspherical) n <= 7, "
        "defining relations r_e cos = r_(2e+1), r_e sin = r_(2e+2) of _generate_rbs_angles(tree) (tolerance 1e-9) and its exact index structure (data[p] influences exactly the ancestors of leaf p) n <= 32; "
        "hypotheses of T20_hw_chain verified on the real hamming_weight_encoder circuits n<=8 all k, with/without optimize_controls; "
        "search: QFT unitary vs DFT n<=8 with/without swaps, every encoder applied to |0..0> vs normalised target on the documented basis states with dense / negative / "
        "zero-containing / one-hot / complex data, documented errors")
    ctx.assumptions.append("gate classes act as documented (C01); arctan2 / acos angle formulas are tied to the data numerically (search, C20_tree_angle_relations), in the theorems the cos/sin of the RBS angles are abstract scalars constrained by r_k c_k = x_k, r_k s_k = r_(k+1) (diagonal) / r_e c_e = r_(2e+1), r_e s_e = r_(2e+2) (tree)")
    ctx.notes.append(
        "phase 2b: QV/Model/EncodingsB.lean (phase_encoder, hyperspherical and Hopf binary encoders, real/complex Hamming-weight encoder with RZ pairs and phase correction) vs the real queues, "
        "verbatim with symbolic angle indices derived from the queue structure: phase_encoder n<=12,20,33 x RX/RY/RZ (+ parameter q == data[q]), binary_encoder hyperspherical n<=9 real and complex, Hopf n<=9, "
        "hamming_weight_encoder n<=6 all k x optimize_controls x full_hwp x complex x phase_correction; gate matrices of the model (BG.sem, evaluated by the driver over Z with the scalars replaced by primes) vs the matrices of the real gate classes; "
        "hypotheses of T20_loading_chain / T20_hw_phase_correction / T20_loading_chain_amplitudes on the real circuits (okAt / next / fixes of every step, RZ parameters exactly -phi,+phi, lambda == 0 inside the chain, "
        "every basis state visited once, chain amplitudes computed from the real gate matrices == x/|x| to 1e-9) for binary_encoder n<=8 and hamming_weight_encoder n<=6 with dense / sparse / negative / complex data; "
        "order of the written basis states vs hsWalk n<=8; Hopf: parameter e == 2 * tree angle e in heap order and tree relations to 1e-9, n<=8")
    ctx.assumptions.append("complex data: P.p f * P.m f = 1 is the only relation assumed of the phase scalars; arg / mod-2pi bookkeeping of the phases is tied numerically (chain amplitudes from the real gate matrices vs x/|x|, 1e-9)")
    ctx.assumptions.append("hamming_weight_encoder with optimize_controls=True: non-interference of the pruned controls is a decidable hypothesis of T20_loading_chain verified on the real circuits (n<=8), not proved for every n")
