"""C17 — channel representations convert without changing the channel.

Ingredients
  * theorems about the index model `lean/QV/Model/Superop.lean` (QV/Props/C17.lean);
  * exact correspondence model <-> real code on Gaussian-integer data (vectorization,
    unvectorization, _reshuffling, kraus_to_choi/liouville/chi, Channel.to_choi/to_liouville,
    comp_basis_to_pauli, liouville_to_pauli, pauli_to_liouville, choi_to_chi, chi_to_choi,
    kraus_to_stinespring, stinespring_to_kraus);
  * direct search on the real code against an independent executable SPEC (`Ref` below):
    every a_to_b function, every order, Pauli orderings, both normalisations; Stinespring;
    to_* helpers; gates.Channel.to_*; QuantumChannel.apply / link product / composition.
"""
from __future__ import annotations

import itertools
import math

import numpy as np

from vlib.driver import gi_tokens, parse_gi, run_driver
from vlib.proofs import build_and_audit, registry

PROP = "C17"
DRIVER = "DriverC17.lean"
ORDERS = ("row", "column", "system")
ONUM = {"row": 0, "column": 1, "system": 2}
TOL = 1e-8
ALL_PO = ["".join(p) for p in itertools.permutations("IXYZ")]


# ---------------------------------------------------------------------------
# SPEC: independent reference implementation (plain index arithmetic, no qibo)


class Ref:
    PAULI = {
        "I": np.eye(2, dtype=complex),
        "X": np.array([[0, 1], [1, 0]], dtype=complex),
        "Y": np.array([[0, -1j], [1j, 0]], dtype=complex),
        "Z": np.array([[1, 0], [0, -1]], dtype=complex),
    }

    @staticmethod
    def vidx(order, d):
        """V[i, j] = position of entry (i, j) in the vectorisation."""
        i, j = np.meshgrid(np.arange(d), np.arange(d), indexing="ij")
        if order == "row":
            return i * d + j
        if order == "column":
            return j * d + i
        n = int(round(math.log2(d)))
        assert 2**n == d
        out = np.zeros((d, d), dtype=int)
        for q in range(n):
            ib = (i >> (n - 1 - q)) & 1
            jb = (j >> (n - 1 - q)) & 1
            out = (out << 2) | (jb << 1) | ib
        return out

    @staticmethod
    def vec(A, order):
        d = A.shape[0]
        v = np.zeros(d * d, dtype=complex)
        v[Ref.vidx(order, d).reshape(-1)] = np.asarray(A).reshape(-1)
        return v

    @staticmethod
    def unvec(v, order):
        d = int(round(math.sqrt(len(v))))
        return np.asarray(v)[Ref.vidx(order, d)]

    @staticmethod
    def embed(K, qubits, n):
        """full 2^n matrix of K acting on the ordered `qubits` (qubit 0 = most significant)."""
        k = len(qubits)
        d = 2**n
        rest = [q for q in range(n) if q not in qubits]
        F = np.zeros((d, d), dtype=complex)

        def bits(x, qs):
            r = 0
            for q in qs:
                r = (r << 1) | ((x >> (n - 1 - q)) & 1)
            return r

        for x in range(d):
            for y in range(d):
                if bits(x, rest) == bits(y, rest):
                    F[x, y] = K[bits(x, qubits), bits(y, qubits)]
        return F

    @staticmethod
    def full_kraus(kraus, n):
        return [Ref.embed(np.asarray(K), list(qs), n) for qs, K in kraus]

    @staticmethod
    def apply_kraus(Ks, rho):
        return sum(K @ rho @ K.conj().T for K in Ks)

    @staticmethod
    def choi(Ks, order):
        return sum(np.outer(Ref.vec(K, order), Ref.vec(K, order).conj()) for K in Ks)

    @staticmethod
    def liouville(Ks, order):
        d = Ks[0].shape[0]
        V = Ref.vidx(order, d)
        L = np.zeros((d * d, d * d), dtype=complex)
        for K in Ks:
            # L[V[a,c], V[b,e]] += K[a,b] conj(K[c,e])
            T = np.einsum("ab,ce->acbe", K, K.conj())
            np.add.at(L, (V[:, :, None, None], V[None, None, :, :]), T)
        return L

    @staticmethod
    def apply_choi(C, rho, order):
        d = rho.shape[0]
        V = Ref.vidx(order, d)
        T = C[V[:, :, None, None], V[None, None, :, :]]  # T[a,b,c,e] = C[V[a,b],V[c,e]]
        return np.einsum("abce,be->ac", T, rho)

    @staticmethod
    def apply_liouville(L, rho, order):
        return Ref.unvec(L @ Ref.vec(rho, order), order)

    _pc = {}

    @staticmethod
    def paulis(n, po):
        key = (n, po)
        if key not in Ref._pc:
            out = []
            for ks in itertools.product(range(4), repeat=n):
                m = np.eye(1, dtype=complex)
                for k in ks:
                    m = np.kron(m, Ref.PAULI[po[k]])
                out.append(m)
            Ref._pc[key] = out
        return Ref._pc[key]

    @staticmethod
    def cfac(n, normalize):
        """B B† = c·1 for the comp->Pauli matrix B."""
        return 1.0 if normalize else float(2**n)

    @staticmethod
    def bmat(n, normalize, po):
        """row k = conj(row-vectorised Pauli string k)/s, s = sqrt(d) if normalised else 1."""
        s = math.sqrt(2**n) if normalize else 1.0
        return np.array([p.reshape(-1).conj() / s for p in Ref.paulis(n, po)])

    @staticmethod
    def pauli(Ks, n, normalize, po):
        """documented Pauli-Liouville matrix P[k,l] = tr(P_k† Φ(P_l)) / s² (independent of the
        vectorisation order), computed as B L B† with the row-order SPEC Liouville matrix."""
        B = Ref.bmat(n, normalize, po)
        return B @ Ref.liouville(Ks, "row") @ B.conj().T

    @staticmethod
    def pauli_slow(Ks, n, normalize, po):
        ps = Ref.paulis(n, po)
        s2 = 2**n if normalize else 1.0
        return np.array([[np.trace(pk.conj().T @ Ref.apply_kraus(Ks, pl)) / s2 for pl in ps] for pk in ps])

    @staticmethod
    def chi(Ks, n, normalize, po):
        """chi[k,l] = Σ_K c_k(K) conj(c_l(K)), c_k(K) = tr(P_k† K)/s."""
        B = Ref.bmat(n, normalize, po)
        cs = [B @ K.reshape(-1) for K in Ks]
        return sum(np.outer(c, c.conj()) for c in cs)

    @staticmethod
    def apply_pauli(P, rho, n, normalize, po):
        """r_k = tr(P_k† ρ)/s ; o = P r ; out = Σ o_k P_k / (s c²)."""
        B = Ref.bmat(n, normalize, po)
        c = Ref.cfac(n, normalize)
        d = rho.shape[0]
        o = P @ (B @ rho.reshape(-1))
        return (B.conj().T @ o).reshape(d, d) / (c * c)

    @staticmethod
    def apply_pauli_slow(P, rho, n, normalize, po):
        ps = Ref.paulis(n, po)
        s = math.sqrt(2**n) if normalize else 1.0
        c = Ref.cfac(n, normalize)
        r = np.array([np.trace(p.conj().T @ rho) / s for p in ps])
        o = P @ r
        return sum(ok * p for ok, p in zip(o, ps)) / (s * c * c)

    @staticmethod
    def apply_chi(X, rho, n, normalize, po):
        """out = Σ_kl X[k,l] P_k ρ P_l† / (s² c²)."""
        B = Ref.bmat(n, normalize, po)
        c = Ref.cfac(n, normalize)
        C = B.conj().T @ X @ B / (c * c)
        return Ref.apply_choi(C, rho, "row")

    @staticmethod
    def apply_chi_slow(X, rho, n, normalize, po):
        ps = Ref.paulis(n, po)
        s = math.sqrt(2**n) if normalize else 1.0
        c = Ref.cfac(n, normalize)
        out = np.zeros_like(rho, dtype=complex)
        for k, pk in enumerate(ps):
            for l, pl in enumerate(ps):
                if X[k, l] != 0:
                    out = out + X[k, l] * (pk @ rho @ pl.conj().T)
        return out / (s * s * c * c)

    @staticmethod
    def apply_stinespring(S, v, rho):
        e = len(v)
        big = S @ np.kron(rho, np.outer(v, v.conj())) @ S.conj().T
        d = rho.shape[0]
        return np.einsum("iaja->ij", big.reshape(d, e, d, e))


# ---------------------------------------------------------------------------
# generators


def gi_matrix(rng, r, c=None, lo=-2, hi=2):
    c = r if c is None else c
    return np.array([[complex(rng.randint(lo, hi), rng.randint(lo, hi)) for _ in range(c)] for _ in range(r)])


def cmatrix(rng, r, c=None):
    c = r if c is None else c
    return np.array([[complex(rng.gauss(0, 1), rng.gauss(0, 1)) for _ in range(c)] for _ in range(r)])


def rand_targets(rng, n, k):
    return tuple(rng.sample(range(n), k))


def gi_kraus_set(rng, n, nops, force_top=True):
    """integer Kraus operators on random ordered (possibly descending / non-adjacent) target
    lists inside n qubits; the highest qubit is used so that qibo infers nqubits = n."""
    out = []
    for a in range(nops):
        k = rng.randint(1, n)
        qs = rand_targets(rng, n, k)
        if a == 0 and force_top and (n - 1) not in qs:
            qs = qs[:-1] + (n - 1,)
        out.append((qs, gi_matrix(rng, 2**k)))
    return out


def tp_kraus_full(rng, d, rank):
    """random trace-preserving Kraus set of the given rank on dimension d (from an isometry)."""
    g = cmatrix(rng, d * rank, d)
    q, _ = np.linalg.qr(g)
    return [q[a * d:(a + 1) * d, :] for a in range(rank)]


def kraus_tokens(kraus):
    parts = [str(len(kraus))]
    for qs, K in kraus:
        parts.append(f"{len(qs)} {' '.join(map(str, qs))} {gi_tokens(K)}")
    return " ".join(parts)


def po_tokens(po):
    return " ".join(str("IXYZ".index(ch)) for ch in po)


def arr_src(a):
    return "np.array(" + repr(np.asarray(a).tolist()) + ")"


def kraus_src(kraus):
    return "[" + ", ".join(f"({tuple(qs)!r}, {arr_src(K)})" for qs, K in kraus) + "]"


HDR = "import numpy as np\nfrom qibo import gates, set_backend\nset_backend('numpy')\nimport qibo.quantum_info as qi\nfrom qibo.quantum_info import superoperator_transformations as st, basis\n"


def replay_eq(call_src, expected, exact=True):
    cmp_ = "np.array_equal(out, exp)" if exact else "out.shape == exp.shape and np.allclose(out, exp, atol=1e-8)"
    return HDR + f"out = np.asarray({call_src})\nexp = {arr_src(expected)}\nassert {cmp_}, (out, exp)\n"


# ---------------------------------------------------------------------------
# correspondence suites (exact, Gaussian integers)


def nomut(f, *arrs, **kw):
    """call f on copies of the arrays; an input modified in place is a failure."""
    copies = [a.copy() for a in arrs]
    out = f(*copies, **kw)
    out = np.array(out) if isinstance(out, list) else out
    for a, c in zip(arrs, copies):
        if not np.array_equal(a, c):
            raise AssertionError("the function modified its input array in place")
    return out


def nomut_kraus(f, kraus, **kw):
    ks = [(q, K.copy()) for q, K in kraus]
    out = f(ks, **kw)
    for (_, a), (_, c) in zip(kraus, ks):
        if not np.array_equal(a, c):
            raise AssertionError("the function modified a Kraus operator in place")
    return out


class Suite:
    def __init__(self, ctx, name):
        self.ctx, self.name = ctx, name
        self.lines, self.meta = [], []

    def add(self, line, real_fn, key, call_src, what):
        """real_fn() -> array (run now, on the real code); compared with the model's answer."""
        self.lines.append(line)
        self.meta.append((real_fn, key, call_src, what))

    def run(self):
        ctx = self.ctx
        outs = run_driver(self.lines, driver=DRIVER)
        bad = 0
        for (real_fn, key, call_src, what), out in zip(self.meta, outs):
            model = parse_gi(out)
            try:
                real = np.asarray(real_fn()).reshape(-1)
                err = None
            except Exception as e:  # the real code refused a documented input
                real, err = None, e
            ctx.case((self.name,) + tuple(key))
            ctx.stat(f"{self.name}:{key[0]}")
            if real is None or real.shape != model.shape or not np.array_equal(real, model):
                bad += 1
                ctx.fail(f"{key[0]}:{key[1]}", f"{what}: real code differs from the index model / SPEC"
                         + (f" (raised {type(err).__name__}: {err})" if err else ""),
                         replay_eq(call_src, model), expected=str(model.tolist())[:400],
                         observed=(str(real.tolist())[:400] if real is not None else repr(err)),
                         broken=[f"C17_corr_{self.name}"])
        ctx.ob(f"C17_corr_{self.name}", bad == 0, "correspondence", f"{bad} disagreements" if bad else "")
        return bad


def corr_vec(ctx):
    from qibo.quantum_info import superoperator_transformations as st

    s = Suite(ctx, "vec")
    rng = ctx.rng
    dims = [2, 3, 4, 8, 16] + ([5, 6, 32] if ctx.thorough else [])
    reps = 4 if ctx.thorough else 2
    for order in ORDERS:
        for d in dims:
            n = int(round(math.log2(d)))
            if order == "system" and 2**n != d:
                continue
            for _ in range(reps):
                A = gi_matrix(rng, d, lo=-3, hi=3)
                v = gi_matrix(rng, 1, d * d, lo=-3, hi=3)[0]
                s.add(f"VEC {ONUM[order]} {d} {n} {gi_tokens(A)}",
                      lambda A=A, order=order: nomut(st.vectorization, A, order=order),
                      ("vectorization", f"{order}:d{d}"), f"st.vectorization({arr_src(A)}, order={order!r})",
                      f"vectorization order={order} d={d}")
                s.add(f"UNVEC {ONUM[order]} {d} {n} {gi_tokens(v)}",
                      lambda v=v, order=order: nomut(st.unvectorization, v, order=order),
                      ("unvectorization", f"{order}:d{d}"), f"st.unvectorization({arr_src(v)}, order={order!r})",
                      f"unvectorization order={order} d={d}")
            # state-vector input: vectorises |psi><psi|
            psi = gi_matrix(rng, 1, d)[0]
            s.add(f"VEC {ONUM[order]} {d} {n} {gi_tokens(np.outer(psi, psi.conj()))}",
                  lambda psi=psi, order=order: st.vectorization(psi.copy(), order=order),
                  ("vectorization-state", f"{order}:d{d}"), f"st.vectorization({arr_src(psi)}, order={order!r})",
                  f"vectorization of a state vector order={order} d={d}")
            # batch inputs (N, d, d) and (N, 1, d)
            if d <= 4:
                N = 3
                batch = np.array([gi_matrix(rng, d) for _ in range(N)])
                for b in range(N):
                    s.add(f"VEC {ONUM[order]} {d} {n} {gi_tokens(batch[b])}",
                          lambda batch=batch, order=order, b=b: st.vectorization(batch.copy(), order=order)[b],
                          ("vectorization-batch", f"{order}:d{d}:{b}"),
                          f"st.vectorization({arr_src(batch)}, order={order!r})[{b}]",
                          f"vectorization of a batch order={order} d={d}")
                sb = np.array([gi_matrix(rng, 1, d) for _ in range(N)])
                for b in range(N):
                    s.add(f"VEC {ONUM[order]} {d} {n} {gi_tokens(np.outer(sb[b, 0], sb[b, 0].conj()))}",
                          lambda sb=sb, order=order, b=b: st.vectorization(sb.copy(), order=order)[b],
                          ("vectorization-statebatch", f"{order}:d{d}:{b}"),
                          f"st.vectorization({arr_src(sb)}, order={order!r})[{b}]",
                          f"vectorization of a batch of states order={order} d={d}")
    s.run()


def corr_reshuffle(ctx):
    from qibo.quantum_info import superoperator_transformations as st

    s = Suite(ctx, "reshuffle")
    rng = ctx.rng
    for order in ("row", "column"):
        for d in (2, 4, 8):
            for rep in range(2 if d < 8 or ctx.thorough else 1):
                M = gi_matrix(rng, d * d, lo=-3, hi=3)
                base = f"RESH {ONUM[order]} {d} {gi_tokens(M)}"
                for fname in ("_reshuffling", "choi_to_liouville", "liouville_to_choi"):
                    s.add(base, lambda M=M, order=order, fname=fname: nomut(getattr(st, fname), M, order=order),
                          (fname, f"{order}:d{d}"), f"st.{fname}({arr_src(M)}, order={order!r})",
                          f"{fname} order={order} d={d}")
    s.run()


def corr_kraus(ctx):
    from qibo import gates
    from qibo.quantum_info import superoperator_transformations as st

    s = Suite(ctx, "kraus")
    rng = ctx.rng
    cases = []
    # exhaustive small layouts: every ordered target tuple in n<=3, single operator
    for n in (1, 2, 3):
        for k in range(1, n + 1):
            for qs in itertools.permutations(range(n), k):
                if (n - 1) in qs:
                    cases.append((n, [(qs, gi_matrix(rng, 2**k))]))
    # random sets, ranks 1..d^2 (n<=2), several ops on different target lists
    for n in (1, 2, 3):
        ranks = list(range(1, 4**n + 1)) if n <= 2 else ([1, 2, 5] + ([9, 17] if ctx.thorough else []))
        for r in ranks:
            cases.append((n, gi_kraus_set(rng, n, r)))
    if not ctx.thorough:
        keep = [c for c in cases if c[0] < 3]
        big = [c for c in cases if c[0] == 3]
        rng.shuffle(big)
        cases = keep + big[:8]
    for n, kraus in cases:
        toks = kraus_tokens(kraus)
        descr = ";".join(f"{qs}" for qs, _ in kraus)[:60]
        for order in ORDERS:
            s.add(f"KCHOI {ONUM[order]} {n} {toks}",
                  lambda kraus=kraus, order=order: nomut_kraus(st.kraus_to_choi, kraus, order=order),
                  ("kraus_to_choi", f"{order}:n{n}:{descr}"), f"st.kraus_to_choi({kraus_src(kraus)}, order={order!r})",
                  f"kraus_to_choi order={order} on {descr}")
            if order != "system":
                s.add(f"KLIOU {ONUM[order]} {n} {toks}",
                      lambda kraus=kraus, order=order: nomut_kraus(st.kraus_to_liouville, kraus, order=order),
                      ("kraus_to_liouville", f"{order}:n{n}:{descr}"),
                      f"st.kraus_to_liouville({kraus_src(kraus)}, order={order!r})",
                      f"kraus_to_liouville order={order} on {descr}")
        # the same operators given as gates (first branch of _set_gate_and_target_qubits)
        order = rng.choice(ORDERS)
        gsrc = "[" + ", ".join(f"gates.Unitary({arr_src(K)}, *{list(qs)!r}, check_unitary=False)" for qs, K in kraus) + "]"
        s.add(f"KCHOI {ONUM[order]} {n} {toks}",
              lambda kraus=kraus, order=order: st.kraus_to_choi([gates.Unitary(K.copy(), *qs, check_unitary=False) for qs, K in kraus], order=order),
              ("kraus_to_choi-gates", f"{order}:n{n}:{descr}"), f"st.kraus_to_choi({gsrc}, order={order!r})",
              f"kraus_to_choi on Unitary gates order={order} on {descr}")
        # the same operators as a gates.KrausChannel, in a register with one more qubit
        order = rng.choice(ORDERS)
        big = n + (1 if n < 3 else 0)
        qlist = [tuple(qs) for qs, _ in kraus]
        ops = [K for _, K in kraus]
        src = f"gates.KrausChannel({qlist!r}, [{', '.join(arr_src(K) for K in ops)}])"
        s.add(f"KCHOI {ONUM[order]} {big} {toks}",
              lambda qlist=qlist, ops=ops, order=order, big=big: gates.KrausChannel(list(qlist), [K.copy() for K in ops]).to_choi(nqubits=big, order=order),
              ("Channel.to_choi", f"{order}:n{big}:{descr}"), f"{src}.to_choi(nqubits={big}, order={order!r})",
              f"KrausChannel.to_choi nqubits={big} order={order} on {descr}")
        if order != "system":
            s.add(f"KLIOU {ONUM[order]} {big} {toks}",
                  lambda qlist=qlist, ops=ops, order=order, big=big: gates.KrausChannel(list(qlist), [K.copy() for K in ops]).to_liouville(nqubits=big, order=order),
                  ("Channel.to_liouville", f"{order}:n{big}:{descr}"), f"{src}.to_liouville(nqubits={big}, order={order!r})",
                  f"KrausChannel.to_liouville nqubits={big} order={order} on {descr}")
    s.run()


def corr_pauli(ctx):
    from qibo.quantum_info import basis
    from qibo.quantum_info import superoperator_transformations as st

    s = Suite(ctx, "pauli")
    rng = ctx.rng
    for n in (1, 2, 3) if ctx.thorough else (1, 2):
        pos = ALL_PO if (n == 1 or ctx.thorough and n == 2) else ["IXYZ"] + rng.sample(ALL_PO, 5 if n == 2 else 2)
        for order in ORDERS:
            for po in pos:
                s.add(f"BASIS {ONUM[order]} {n} {po_tokens(po)}",
                      lambda n=n, order=order, po=po: basis.comp_basis_to_pauli(n, normalize=False, order=order, pauli_order=po),
                      ("comp_basis_to_pauli", f"{order}:n{n}:{po}"),
                      f"basis.comp_basis_to_pauli({n}, normalize=False, order={order!r}, pauli_order={po!r})",
                      f"comp_basis_to_pauli n={n} order={order} pauli_order={po}")
                s.add(f"BASIS {ONUM[order]} {n} {po_tokens(po)}",
                      lambda n=n, order=order, po=po: basis.pauli_to_comp_basis(n, normalize=False, order=order, pauli_order=po).conj().T,
                      ("pauli_to_comp_basis", f"{order}:n{n}:{po}"),
                      f"basis.pauli_to_comp_basis({n}, normalize=False, order={order!r}, pauli_order={po!r}).conj().T",
                      f"pauli_to_comp_basis n={n} order={order} pauli_order={po}")
            if n == 3:
                continue
            for po in rng.sample(pos, min(len(pos), 4 if ctx.thorough else 2)):
                M = gi_matrix(rng, 4**n)
                for fname, cmd in (("liouville_to_pauli", "L2P"), ("choi_to_chi", "L2P"), ("pauli_to_liouville", "P2L"), ("chi_to_choi", "P2L")):
                    s.add(f"{cmd} {ONUM[order]} {n} {po_tokens(po)} {gi_tokens(M)}",
                          lambda M=M, order=order, po=po, fname=fname: nomut(getattr(st, fname), M, normalize=False, order=order, pauli_order=po),
                          (fname, f"{order}:n{n}:{po}"),
                          f"st.{fname}({arr_src(M)}, normalize=False, order={order!r}, pauli_order={po!r})",
                          f"{fname} n={n} order={order} pauli_order={po}")
                kraus = gi_kraus_set(rng, n, rng.randint(1, 3))
                s.add(f"KCHI {ONUM[order]} {n} {po_tokens(po)} {kraus_tokens(kraus)}",
                      lambda kraus=kraus, order=order, po=po: st.kraus_to_chi([(q, K.copy()) for q, K in kraus], normalize=False, order=order, pauli_order=po),
                      ("kraus_to_chi", f"{order}:n{n}:{po}"),
                      f"st.kraus_to_chi({kraus_src(kraus)}, normalize=False, order={order!r}, pauli_order={po!r})",
                      f"kraus_to_chi n={n} order={order} pauli_order={po}")
    s.run()


def corr_stinespring(ctx):
    from qibo.quantum_info import superoperator_transformations as st

    s = Suite(ctx, "stinespring")
    rng = ctx.rng
    for n in (1, 2, 3) if ctx.thorough else (1, 2):
        for e in (1, 2, 3, 4) if n < 3 else (2,):
            kraus = gi_kraus_set(rng, n, e)
            v = gi_matrix(rng, 1, e)[0]
            s.add(f"K2S {n} {kraus_tokens(kraus)} {gi_tokens(v)}",
                  lambda kraus=kraus, v=v, n=n: nomut(lambda v_: nomut_kraus(st.kraus_to_stinespring, kraus, nqubits=n, initial_state_env=v_), v),
                  ("kraus_to_stinespring", f"n{n}:e{e}"),
                  f"st.kraus_to_stinespring({kraus_src(kraus)}, nqubits={n}, initial_state_env={arr_src(v)})",
                  f"kraus_to_stinespring n={n} dim_env={e}")
            e0 = np.zeros(e, dtype=complex)
            e0[0] = 1
            s.add(f"K2S {n} {kraus_tokens(kraus)} {gi_tokens(e0)}",
                  lambda kraus=kraus: st.kraus_to_stinespring([(q, K.copy()) for q, K in kraus]),
                  ("kraus_to_stinespring-default", f"n{n}:e{e}"), f"st.kraus_to_stinespring({kraus_src(kraus)})",
                  f"kraus_to_stinespring (default environment) n={n} dim_env={e}")
            d = 2**n
            S = gi_matrix(rng, d * e)
            s.add(f"S2K {d} {e} {gi_tokens(S)} {gi_tokens(v)}",
                  lambda S=S, v=v, e=e, n=n: nomut(lambda S_, v_: st.stinespring_to_kraus(S_, e, initial_state_env=v_, nqubits=n), S, v),
                  ("stinespring_to_kraus", f"n{n}:e{e}"),
                  f"np.array(st.stinespring_to_kraus({arr_src(S)}, {e}, initial_state_env={arr_src(v)}, nqubits={n}))",
                  f"stinespring_to_kraus n={n} dim_env={e}")
            s.add(f"S2K {d} {e} {gi_tokens(S)} {gi_tokens(e0)}",
                  lambda S=S, e=e: np.array(st.stinespring_to_kraus(S.copy(), e)),
                  ("stinespring_to_kraus-default", f"n{n}:e{e}"), f"np.array(st.stinespring_to_kraus({arr_src(S)}, {e}))",
                  f"stinespring_to_kraus (defaults) n={n} dim_env={e}")
    s.run()


# ---------------------------------------------------------------------------
# direct search on the real code against the SPEC


class Search:
    """collects failures of one search suite under one obligation name."""

    def __init__(self, ctx, name):
        self.ctx, self.name, self.bad = ctx, f"C17_search_{name}", 0

    def check(self, ok, key, what, python, expected=None, observed=None):
        self.ctx.case()
        if not ok:
            self.bad += 1
            if callable(python):
                python = python()
            self.ctx.fail(key, what, python, expected=expected, observed=observed, broken=[self.name])

    def done(self):
        self.ctx.ob(self.name, self.bad == 0, "search", f"{self.bad} failing inputs" if self.bad else "")


def close(a, b, tol=TOL):
    a, b = np.asarray(a), np.asarray(b)
    return a.shape == b.shape and bool(np.allclose(a, b, atol=tol, rtol=0))


REPS = ("kraus", "choi", "liouville", "pauli", "chi", "stinespring")

REF_SRC = '''
import itertools, math
def vidx(order, d):
    i, j = np.meshgrid(np.arange(d), np.arange(d), indexing="ij")
    if order == "row": return i * d + j
    if order == "column": return j * d + i
    n = int(round(math.log2(d))); out = np.zeros((d, d), dtype=int)
    for q in range(n):
        out = (out << 2) | ((((j >> (n-1-q)) & 1)) << 1) | ((i >> (n-1-q)) & 1)
    return out
def vec(A, order):
    d = A.shape[0]; v = np.zeros(d*d, dtype=complex); v[vidx(order, d).reshape(-1)] = np.asarray(A).reshape(-1); return v
def choi_of(Ks, order):
    return sum(np.outer(vec(K, order), vec(K, order).conj()) for K in Ks)
'''


def call_ab(st, a, b, rep, order, normalize, po, aux):
    """call st.<a>_to_<b> with the options each function takes; returns the raw result."""
    f = getattr(st, f"{a}_to_{b}")
    kw = {}
    import inspect

    params = inspect.signature(f).parameters
    if "order" in params:
        kw["order"] = order
    if "normalize" in params:
        kw["normalize"] = normalize
    if "pauli_order" in params:
        kw["pauli_order"] = po
    if a == "stinespring":
        kw["dim_env"] = aux["dim_env"]
        kw["initial_state_env"] = aux["env"]
        kw["nqubits"] = aux["n"]
    elif b == "stinespring" and "nqubits" in params:
        kw["nqubits"] = aux["n"]
    return f(rep, **kw), kw


def search_conversions(ctx):
    """every a_to_b function on random (non-symmetric) channels: the result must represent
    lam·Φ where lam is the documented factor (d² per passage out of an un-normalised Pauli
    basis, 1 otherwise).  Unique representations are compared with the SPEC matrix, Kraus /
    Stinespring outputs through the SPEC Choi matrix of the operators they contain, and every
    output is additionally applied to a random ρ through the SPEC action of its representation."""
    from qibo.quantum_info import superoperator_transformations as st

    S = Search(ctx, "conversions")
    rng = ctx.rng
    configs = []
    for n in (1, 2):
        d = 2**n
        ranks = sorted({1, 2, d, d * d - 1, d * d})
        for r in ranks:
            configs.append((n, r))
    if ctx.thorough:
        configs += [(3, 1), (3, 3), (3, 8)]
    else:
        configs += [(3, rng.choice([1, 2, 3])), (3, rng.choice([4, 7, 9]))]
    nconf = 0
    for n, rank in configs:
        d = 2**n
        Ks = tp_kraus_full(rng, d, rank)
        if rank == 1 and rng.random() < 0.5:
            Ks = [cmatrix(rng, d)]  # non-unitary single operator
        kraus_in = [(tuple(range(n)), K) for K in Ks]
        rho = cmatrix(rng, d)
        phi_rho = Ref.apply_kraus(Ks, rho)
        po_list = ALL_PO if ctx.thorough and n <= 2 else (["IXYZ"] + rng.sample(ALL_PO, 3) if n < 3 else rng.sample(ALL_PO, 2))
        orders = ORDERS
        for order in orders:
            for normalize in (False, True):
                for po in po_list:
                    c = Ref.cfac(n, normalize)
                    env = cmatrix(rng, 1, len(Ks))[0]
                    env = env / np.linalg.norm(env)
                    Sfull = sum(np.kron(K, np.outer(np.eye(len(Ks))[a], env.conj())) for a, K in enumerate(Ks))
                    reps = {
                        "kraus": kraus_in,
                        "choi": Ref.choi(Ks, order),
                        "liouville": Ref.liouville(Ks, order),
                        "pauli": Ref.pauli(Ks, n, normalize, po),
                        "chi": Ref.chi(Ks, n, normalize, po),
                        "stinespring": Sfull,
                    }
                    aux = {"dim_env": len(Ks), "env": env, "n": n}
                    for a in REPS:
                        for b in REPS:
                            if a == b:
                                continue
                            # options that do not influence a function need not be re-run
                            nconf += 1
                            _one_conversion(ctx, S, st, a, b, reps, aux, Ks, rho, phi_rho, n, order, normalize, po, c)
    ctx.stat("conversion_calls", nconf)
    S.done()


_seen_calls = set()


def _one_conversion(ctx, S, st, a, b, reps, aux, Ks, rho, phi_rho, n, order, normalize, po, c):
    import inspect

    f = getattr(st, f"{a}_to_{b}")
    params = inspect.signature(f).parameters
    sig = (id(Ks), a, b, order if "order" in params else None, normalize if "normalize" in params else None,
           po if "pauli_order" in params else None)
    if sig in _seen_calls:
        return
    _seen_calls.add(sig)
    d = 2**n
    rep = reps[a]
    rep_in = [(q, K.copy()) for q, K in rep] if a == "kraus" else rep.copy()
    optdesc = f"order={order} normalize={normalize} pauli_order={po}"
    key_opts = f"{order}:{'norm' if normalize else 'unnorm'}"
    key = f"{a}_to_{b}:{key_opts}"
    # `system` order has no reshuffling in qibo: NotImplementedError is the documented answer
    try:
        out, kw = call_ab(st, a, b, rep_in, order, normalize, po, aux)
    except NotImplementedError:
        ctx.stat("not_implemented")
        S.check(order == "system", key, f"{a}_to_{b} raised NotImplementedError for {optdesc}", "")
        return
    except Exception as e:
        S.check(False, key, f"{a}_to_{b} raised {type(e).__name__}: {e} for n={n} rank={len(Ks)} {optdesc}",
                lambda: _conv_replay(a, b, rep, {}, None, None, order, n))
        return
    ctx.stat(f"conv:{a}_to_{b}")
    ctx.case((a, b, n, len(Ks), order, normalize, po))
    same = all(np.array_equal(x[1], y[1]) for x, y in zip(rep, rep_in)) if a == "kraus" else np.array_equal(rep, rep_in)
    S.check(same, f"{a}_to_{b}:mutates-input", f"{a}_to_{b} modified its input in place ({optdesc})", lambda: _conv_replay(a, b, rep, kw, None, None, order, n))
    # expected scale: leaving an un-normalised Pauli-type representation multiplies by c²
    lam = c * c if a in ("pauli", "chi") else 1.0
    if a in ("pauli", "chi") and b in ("pauli", "chi"):
        lam = c * c  # (B† · B) then B · B†: one passage out
    exp_unique = {
        "choi": lambda: lam * Ref.choi(Ks, order),
        "liouville": lambda: lam * Ref.liouville(Ks, order),
        "pauli": lambda: lam * Ref.pauli(Ks, n, normalize, po),
        "chi": lambda: lam * Ref.chi(Ks, n, normalize, po),
    }
    if b in exp_unique:
        exp = exp_unique[b]()
        ok = close(out, exp, TOL * max(1.0, lam))
        # action on rho through the SPEC action of representation b
        if ok:
            act = {"choi": lambda: Ref.apply_choi(out, rho, order), "liouville": lambda: Ref.apply_liouville(out, rho, order),
                   "pauli": lambda: Ref.apply_pauli(out, rho, n, normalize, po), "chi": lambda: Ref.apply_chi(out, rho, n, normalize, po)}[b]()
            ok = close(act, lam * phi_rho, TOL * max(1.0, lam) * 10)
        S.check(ok, key, f"{a}_to_{b} ({optdesc}, n={n}, Kraus rank {len(Ks)}) does not represent the same channel"
                + (f" (expected factor {lam:g})" if lam != 1 else ""),
                lambda: _conv_replay(a, b, rep, kw, exp, None, order, n), expected=str(np.round(exp, 6).tolist())[:300],
                observed=str(np.round(np.asarray(out), 6).tolist())[:300])
        return
    if b == "kraus":
        ops = out[0] if isinstance(out, tuple) else out
        ops = [np.asarray(K) for K in ops]
        got = Ref.choi(ops, "row") if ops else np.zeros((d * d, d * d))
        exp = lam * Ref.choi(Ks, "row")
        ok = close(got, exp, 1e-7 * max(1.0, lam)) and len(ops) <= d * d
        if ok and isinstance(out, tuple):
            # coefficients are the square roots of the eigenvalues: ||K_k||_F
            coeffs = np.asarray(out[1])
            ok = close(np.abs(coeffs), [np.linalg.norm(K) for K in ops], 1e-7 * max(1.0, lam))
        S.check(ok, key, f"{a}_to_{b} ({optdesc}, n={n}, rank {len(Ks)}): returned Kraus operators do not reproduce the channel",
                lambda: _conv_replay(a, b, rep, kw, exp, "kraus", order, n))
        return
    if b == "stinespring":
        Sout = np.asarray(out)
        e = Sout.shape[0] // d
        e0 = np.zeros(e, dtype=complex)
        e0[0] = 1
        ok = Sout.shape == (d * e, d * e)
        if ok:
            ops = [np.asarray(K) for K in st.stinespring_to_kraus(Sout, e, nqubits=n)]
            # independent extraction of <alpha| S |e0>
            ops2 = [Sout.reshape(d, e, d, e)[:, al, :, 0] for al in range(e)]
            got = Ref.choi(ops2, "row")
            exp = lam * Ref.choi(Ks, "row")
            ok = close(got, exp, 1e-7 * max(1.0, lam)) and all(close(x, y) for x, y in zip(ops, ops2))
            ok = ok and close(Ref.apply_stinespring(Sout, e0, rho), lam * phi_rho, 1e-6 * max(1.0, lam))
        S.check(ok, key, f"{a}_to_{b} ({optdesc}, n={n}, rank {len(Ks)}): dilation does not reproduce the channel",
                lambda: _conv_replay(a, b, rep, kw, lam * Ref.choi(Ks, "row"), "stinespring", order, n))
        return


def _conv_replay(a, b, rep, kw, exp, mode, order, n):
    rep_src = kraus_src(rep) if a == "kraus" else arr_src(rep)
    kws = ", ".join(f"{k}={(arr_src(v) if isinstance(v, np.ndarray) else repr(v))}" for k, v in kw.items())
    src = HDR + REF_SRC + f"out = st.{a}_to_{b}({rep_src}, {kws})\n"
    if exp is None:
        return src
    d = 2**n
    if mode is None:
        src += f"exp = {arr_src(exp)}\nassert np.allclose(np.asarray(out), exp, atol=1e-6), (out, exp)\n"
    elif mode == "kraus":
        src += f"ops = out[0] if isinstance(out, tuple) else out\nexp = {arr_src(exp)}\nassert np.allclose(choi_of([np.asarray(K) for K in ops], 'row'), exp, atol=1e-6)\n"
    else:
        src += (f"S = np.asarray(out); d = {d}; e = S.shape[0] // d\nops = [S.reshape(d, e, d, e)[:, al, :, 0] for al in range(e)]\n"
                f"exp = {arr_src(exp)}\nassert np.allclose(choi_of(ops, 'row'), exp, atol=1e-6)\n")
    return src


def search_roundtrips(ctx):
    """explicit a->b->a round trips and a->b->c vs a->c path independence using only qibo's
    functions (unique representations; factor d² per passage out of the un-normalised basis)."""
    from qibo.quantum_info import superoperator_transformations as st

    S = Search(ctx, "roundtrip")
    rng = ctx.rng
    lin = ("choi", "liouville", "pauli", "chi")
    for n in (1, 2):
        d = 2**n
        Ks = tp_kraus_full(rng, d, rng.randint(1, d * d))
        for order in ("row", "column"):
            for normalize in (False, True):
                pos = ALL_PO if ctx.thorough else ["IXYZ"] + rng.sample(ALL_PO, 2)
                for po in pos:
                    c = Ref.cfac(n, normalize)
                    start = {"choi": Ref.choi(Ks, order), "liouville": Ref.liouville(Ks, order),
                             "pauli": Ref.pauli(Ks, n, normalize, po), "chi": Ref.chi(Ks, n, normalize, po)}
                    aux = {}

                    def conv(a, b, x):
                        return call_ab(st, a, b, x.copy(), order, normalize, po, aux)[0]

                    def fac(a):
                        return c * c if a in ("pauli", "chi") else 1.0

                    for a in lin:
                        for b in lin:
                            if a == b:
                                continue
                            ab = conv(a, b, start[a])
                            back = conv(b, a, ab)
                            lam = fac(a) * fac(b)
                            okrt = close(back, lam * start[a], TOL * lam)
                            S.check(okrt, f"roundtrip:{a}->{b}->{a}:{order}:{'norm' if normalize else 'unnorm'}",
                                    f"{a}_to_{b} followed by {b}_to_{a} is not {lam:g}·identity (n={n}, order={order}, normalize={normalize}, pauli_order={po})",
                                    HDR + f"x = {arr_src(start[a])}\nkw = dict(order={order!r}, normalize={normalize}, pauli_order={po!r})\n"
                                    + "import inspect\ndef call(f, x):\n    p = inspect.signature(f).parameters\n    return f(x, **{k: v for k, v in kw.items() if k in p})\n"
                                    + f"y = call(st.{b}_to_{a}, call(st.{a}_to_{b}, x))\nassert np.allclose(y, {lam!r} * x, atol=1e-6), (y, x)\n")
                            ctx.stat("roundtrips")
                            for c3 in lin:
                                if c3 in (a, b):
                                    continue
                                via = conv(b, c3, ab)
                                direct = conv(a, c3, start[a])
                                okp = close(via, fac(b) * direct, TOL * lam * c * c)
                                S.check(okp, f"path:{a}->{b}->{c3}:{order}:{'norm' if normalize else 'unnorm'}",
                                        f"{a}->{b}->{c3} differs from {fac(b):g}·({a}->{c3}) (n={n}, order={order}, normalize={normalize}, pauli_order={po})",
                                        HDR + f"x = {arr_src(start[a])}\nkw = dict(order={order!r}, normalize={normalize}, pauli_order={po!r})\n"
                                        + "import inspect\ndef call(f, x):\n    p = inspect.signature(f).parameters\n    return f(x, **{k: v for k, v in kw.items() if k in p})\n"
                                        + f"via = call(st.{b}_to_{c3}, call(st.{a}_to_{b}, x)); direct = call(st.{a}_to_{c3}, x)\nassert np.allclose(via, {fac(b)!r} * direct, atol=1e-6)\n")
                                ctx.stat("paths")
    S.done()


def search_spectral(ctx):
    """choi_to_kraus / liouville_to_kraus beyond CPTP inputs: rank-deficient, non-TP, non-CP
    (Hermitian with negative eigenvalues -> SVD branch with left/right operators), for all orders."""
    from qibo.quantum_info import superoperator_transformations as st

    S = Search(ctx, "spectral")
    rng = ctx.rng
    import warnings

    for n in (1, 2) + ((3,) if ctx.thorough else ()):
        d = 2**n
        for order in ORDERS:
            for kind in ("cp", "noncp"):
                for rep in range(3 if ctx.thorough else 2):
                    r = rng.randint(1, min(d * d, 5))
                    Ks = [cmatrix(rng, d) for _ in range(r)]
                    C = Ref.choi(Ks, order)
                    if kind == "noncp":
                        Ks2 = [cmatrix(rng, d) for _ in range(rng.randint(1, 2))]
                        C = C - Ref.choi(Ks2, order)
                        # the difference of two CP maps may still be positive: keep the sample only
                        # if it really has a negative eigenvalue (otherwise the CP branch is taken)
                        while np.linalg.eigvalsh((C + C.conj().T) / 2).min() > -1e-3:
                            C = C - Ref.choi([cmatrix(rng, d)], order)
                    with warnings.catch_warnings():
                        warnings.simplefilter("ignore")
                        try:
                            ops, coeffs = st.choi_to_kraus(C.copy(), order=order)
                        except Exception as e:
                            S.check(False, f"choi_to_kraus:{kind}:{order}", f"choi_to_kraus raised {type(e).__name__}: {e}",
                                    HDR + f"st.choi_to_kraus({arr_src(C)}, order={order!r})\n")
                            continue
                    ops = np.asarray(ops)
                    if kind == "cp":
                        ok = ops.ndim == 3 and close(Ref.choi(list(ops), order), C, 1e-7) and len(ops) == r
                        py = HDR + REF_SRC + f"C = {arr_src(C)}\nops, _ = st.choi_to_kraus(C, order={order!r})\nassert len(ops) == {r} and np.allclose(choi_of(list(ops), {order!r}), C, atol=1e-6)\n"
                    else:
                        ok = ops.ndim == 4 and close(sum(np.outer(Ref.vec(L, order), Ref.vec(R, order).conj()) for L, R in zip(ops[0], ops[1])), C, 1e-7)
                        py = HDR + REF_SRC + (f"import warnings; warnings.simplefilter('ignore')\nC = {arr_src(C)}\nops, _ = st.choi_to_kraus(C, order={order!r})\n"
                                              f"assert np.allclose(sum(np.outer(vec(L, {order!r}), vec(R, {order!r}).conj()) for L, R in zip(ops[0], ops[1])), C, atol=1e-6)\n")
                    if kind == "cp":
                        # validate_cp=False (no Hermiticity / positivity test) and an explicit tolerance
                        ops2, co2 = st.choi_to_kraus(C.copy(), precision_tol=1e-10, order=order, validate_cp=False)
                        ok = ok and np.asarray(ops2).ndim == 3 and close(Ref.choi(list(np.asarray(ops2)), order), C, 1e-7) and len(ops2) == r
                        if order != "system":
                            ops3, _ = st.liouville_to_kraus(Ref.liouville(Ks, order), order=order)
                            ok = ok and close(Ref.choi(list(np.asarray(ops3)), order), C, 1e-7)
                    ctx.stat(f"spectral:{kind}")
                    S.check(ok, f"choi_to_kraus:{kind}:{order}",
                            f"choi_to_kraus on a {kind} map of rank {r} (n={n}, order={order}) does not reproduce the Choi matrix", py)
    S.done()


def search_stinespring(ctx):
    """stinespring_to_* on generic unitaries U of the joint system with a random environment
    state v: every output must represent ρ ↦ Tr_env U (ρ ⊗ |v⟩⟨v|) U†; plus Kraus round trips."""
    from qibo.quantum_info import superoperator_transformations as st

    S = Search(ctx, "stinespring")
    rng = ctx.rng
    for n in (1, 2):
        d = 2**n
        for e in (1, 2, 3, 4):
            g = cmatrix(rng, d * e)
            U, _ = np.linalg.qr(g)
            v = cmatrix(rng, 1, e)[0]
            v = v / np.linalg.norm(v)
            Ks = [np.einsum("iajb,b->ij", U.reshape(d, e, d, e), v)[:, :] if False else np.einsum("ijb,b->ij", U.reshape(d, e, d, e)[:, al, :, :], v) for al in range(e)]
            rho = cmatrix(rng, d)
            truth = Ref.apply_stinespring(U, v, rho)
            S.check(close(Ref.apply_kraus(Ks, rho), truth, 1e-8), "harness:stinespring", "harness self-check failed", "")
            order = rng.choice(("row", "column"))
            normalize = rng.random() < 0.5
            po = rng.choice(ALL_PO)
            for b in ("kraus", "choi", "liouville", "pauli", "chi"):
                f = getattr(st, f"stinespring_to_{b}")
                import inspect

                params = inspect.signature(f).parameters
                kw = {"dim_env": e, "initial_state_env": v.copy(), "nqubits": n}
                if "order" in params:
                    kw["order"] = order
                if "normalize" in params:
                    kw["normalize"] = normalize
                if "pauli_order" in params:
                    kw["pauli_order"] = po
                kws = ", ".join(f"{k}={(arr_src(x) if isinstance(x, np.ndarray) else repr(x))}" for k, x in kw.items())
                try:
                    out = f(U.copy(), **kw)
                except Exception as ex:
                    S.check(False, f"stinespring_to_{b}", f"stinespring_to_{b} raised {type(ex).__name__}: {ex}",
                            HDR + f"st.stinespring_to_{b}({arr_src(U)}, {kws})\n")
                    continue
                exp = {"kraus": None, "choi": lambda: Ref.choi(Ks, order), "liouville": lambda: Ref.liouville(Ks, order),
                       "pauli": lambda: Ref.pauli(Ks, n, normalize, po), "chi": lambda: Ref.chi(Ks, n, normalize, po)}[b]
                if exp is None:
                    ok = len(out) == e and all(close(x, y) for x, y in zip(out, Ks))
                    expv = np.array(Ks)
                    out = np.array(out)
                else:
                    expv = exp()
                    ok = close(out, expv)
                ctx.stat(f"stinespring_to_{b}")
                ctx.case(("st2", b, n, e, order, normalize, po))
                S.check(ok, f"stinespring_to_{b}", f"stinespring_to_{b} (n={n}, dim_env={e}, order={order}, normalize={normalize}, pauli_order={po}) does not represent Tr_env U(ρ⊗|v><v|)U†",
                        HDR + f"out = np.asarray(st.stinespring_to_{b}({arr_src(U)}, {kws}))\nexp = {arr_src(expv)}\nassert np.allclose(out, exp, atol=1e-6), (out, exp)\n")
            # choi/liouville/pauli/chi -> stinespring with an explicit environment state
            r = len(Ks)
            Kl = [K for K in Ks]
            rank = np.linalg.matrix_rank(Ref.choi(Kl, "row"), tol=1e-9)
            venv = cmatrix(rng, 1, rank)[0]
            venv = venv / np.linalg.norm(venv)
            srcs = {"choi": Ref.choi(Kl, order), "liouville": Ref.liouville(Kl, order), "pauli": Ref.pauli(Kl, n, True, po), "chi": Ref.chi(Kl, n, True, po)}
            for a, x in srcs.items():
                f = getattr(st, f"{a}_to_stinespring")
                kw = {"order": order, "nqubits": n, "initial_state_env": venv.copy()}
                if a in ("pauli", "chi"):
                    kw.update(normalize=True, pauli_order=po)
                kws = ", ".join(f"{k}={(arr_src(y) if isinstance(y, np.ndarray) else repr(y))}" for k, y in kw.items())
                try:
                    Sout = np.asarray(f(x.copy(), **kw))
                    ok = Sout.shape == (d * rank, d * rank) and close(Ref.apply_stinespring(Sout, venv, rho), truth, 1e-6)
                except Exception as ex:
                    ok = False
                ctx.stat(f"{a}_to_stinespring-env")
                S.check(ok, f"{a}_to_stinespring:env", f"{a}_to_stinespring with an explicit environment state v does not satisfy Tr_env S(ρ⊗|v><v|)S† = Φ(ρ) (n={n}, rank {rank}, order={order})",
                        HDR + f"S = st.{a}_to_stinespring({arr_src(x)}, {kws})\nprint(S.shape)\n# expected: Tr_env S (rho x |v><v|) S^dag == channel(rho)\n")
            # Kraus -> Stinespring -> Kraus with a random environment state, operators on sub-registers
            nn = n + 1
            kraus = [(rand_targets(rng, nn, rng.randint(1, nn)), None) for _ in range(e)]
            kraus = [(qs, cmatrix(rng, 2**len(qs))) for qs, _ in kraus]
            full = Ref.full_kraus(kraus, nn)
            try:
                Sm = st.kraus_to_stinespring([(q, K.copy()) for q, K in kraus], nqubits=nn, initial_state_env=v.copy())
                back = st.stinespring_to_kraus(Sm, e, initial_state_env=v.copy(), nqubits=nn)
                ok = len(back) == e and all(close(x, y) for x, y in zip(back, full))
            except Exception as ex:
                ok = False
            S.check(ok, "stinespring-roundtrip", f"kraus_to_stinespring -> stinespring_to_kraus is not the identity (nqubits={nn}, dim_env={e}, targets {[q for q, _ in kraus]})",
                    HDR + f"k = {kraus_src(kraus)}\nv = {arr_src(v)}\nS = st.kraus_to_stinespring(k, nqubits={nn}, initial_state_env=v)\nback = st.stinespring_to_kraus(S, {e}, initial_state_env=v, nqubits={nn})\n"
                    + f"exp = {arr_src(np.array(full))}\nassert np.allclose(np.array(back), exp, atol=1e-8)\n")
    S.done()


def search_to_helpers(ctx):
    """to_choi / to_liouville / to_pauli_liouville / to_chi / to_stinespring of a single operator
    U (ρ ↦ U ρ U†), non-unitary non-symmetric U, every order / normalisation / Pauli ordering."""
    from qibo.quantum_info import superoperator_transformations as st

    S = Search(ctx, "to_helpers")
    rng = ctx.rng
    for n in (1, 2) + ((3,) if ctx.thorough else ()):
        d = 2**n
        U = cmatrix(rng, d)
        Ks = [U]
        for order in ORDERS:
            for fname, exp in (("to_choi", lambda: Ref.choi(Ks, order)), ("to_liouville", lambda: Ref.liouville(Ks, order))):
                try:
                    out = getattr(st, fname)(U.copy(), order=order)
                    ok = close(out, exp())
                except NotImplementedError:
                    ok = order == "system" and fname == "to_liouville"
                    out = None
                ctx.stat(fname)
                S.check(ok, f"{fname}:{order}", f"{fname}(U, order={order}) is not the {fname[3:]} matrix of ρ ↦ UρU† (n={n})",
                        HDR + f"out = st.{fname}({arr_src(U)}, order={order!r})\nexp = {arr_src(exp())}\nassert np.allclose(out, exp, atol=1e-8)\n")
            for normalize in (False, True):
                for po in (ALL_PO if ctx.thorough and n == 1 else ["IXYZ"] + rng.sample(ALL_PO, 2)):
                    for fname, exp in (("to_pauli_liouville", lambda: Ref.pauli(Ks, n, normalize, po)), ("to_chi", lambda: Ref.chi(Ks, n, normalize, po))):
                        try:
                            out = getattr(st, fname)(U.copy(), normalize=normalize, order=order, pauli_order=po)
                            ok = close(out, exp())
                        except NotImplementedError:
                            ok = order == "system" and fname == "to_pauli_liouville"
                        ctx.stat(fname)
                        ctx.case((fname, n, order, normalize, po))
                        S.check(ok, f"{fname}:{order}:{'norm' if normalize else 'unnorm'}",
                                f"{fname}(U, normalize={normalize}, order={order}, pauli_order={po}) is not the documented matrix of ρ ↦ UρU† (n={n})",
                                HDR + f"out = st.{fname}({arr_src(U)}, normalize={normalize}, order={order!r}, pauli_order={po!r})\nexp = {arr_src(exp())}\nassert np.allclose(out, exp, atol=1e-8)\n")
        try:
            ok = close(st.to_stinespring(U.copy()), U)
        except Exception:
            ok = False
        S.check(ok, "to_stinespring:default", f"to_stinespring(U) with defaults is not U (n={n})", HDR + f"U = {arr_src(U)}\nassert np.allclose(st.to_stinespring(U), U)\n")
        # to_stinespring on a partition inside a larger register
        nn = n + 1
        part = rand_targets(rng, nn, n)
        try:
            out = st.to_stinespring(U.copy(), partition=part, nqubits=nn)
            ok = close(out, Ref.embed(U, list(part), nn))
        except Exception:
            ok = False
        S.check(ok, "to_stinespring", f"to_stinespring(U, partition={part}, nqubits={nn}) is not U embedded on those qubits",
                HDR + f"out = st.to_stinespring({arr_src(U)}, partition={part!r}, nqubits={nn})\nexp = {arr_src(Ref.embed(U, list(part), nn))}\nassert np.allclose(out, exp, atol=1e-8)\n")
    S.done()


def search_channels(ctx):
    """gates.Channel.to_choi / to_liouville / to_pauli_liouville on channels acting on a strict
    subset / non-adjacent / descending qubits, against the channel's own density-matrix action;
    second calls; no mutation of the channel."""
    from qibo import Circuit, gates
    from qibo.backends import NumpyBackend

    nb = NumpyBackend()
    S = Search(ctx, "channels")
    rng = ctx.rng

    def makers(n):
        q = rng.sample(range(n), min(n, 2))
        out = [
            ("KrausChannel", lambda: gates.KrausChannel([tuple(q[:1]), tuple(q)] if len(q) > 1 else [tuple(q)],
                                                        [cmatrix(rng, 2) * 0.5] + ([cmatrix(rng, 4) * 0.3] if len(q) > 1 else [])), None),
            ("PauliNoiseChannel", lambda: gates.PauliNoiseChannel(q[0], [("X", 0.1), ("Y", 0.15), ("Z", 0.2)]), None),
            ("DepolarizingChannel", lambda: gates.DepolarizingChannel(tuple(q), 0.3), None),
            ("AmplitudeDampingChannel", lambda: gates.AmplitudeDampingChannel(q[0], 0.3), None),
            ("PhaseDampingChannel", lambda: gates.PhaseDampingChannel(q[0], 0.4), None),
            ("ResetChannel", lambda: gates.ResetChannel(q[0], [0.2, 0.3]), None),
            ("ThermalRelaxationChannel", lambda: gates.ThermalRelaxationChannel(q[0], [1.0, 0.5, 0.3, 0.2]), None),
            ("ReadoutErrorChannel", lambda: gates.ReadoutErrorChannel(tuple(q[:1]), np.array([[0.9, 0.1], [0.2, 0.8]])), None),
            ("UnitaryChannel", lambda: gates.UnitaryChannel([tuple(q[:1]), tuple(q[::-1])] if len(q) > 1 else [tuple(q)],
                                                           [(0.2, np.linalg.qr(cmatrix(rng, 2))[0])] + ([(0.3, np.linalg.qr(cmatrix(rng, 4))[0])] if len(q) > 1 else [])), None),
        ]
        if len(q) > 1:
            out.append(("GeneralizedPauliNoise", lambda: gates.PauliNoiseChannel(tuple(q[::-1]), [("XZ", 0.1), ("IY", 0.2), ("ZX", 0.05)]), None))
        return out

    for n in (2, 3):
        for name, mk, _ in makers(n):
            try:
                ch = mk()
            except Exception as e:  # constructor signature differs: not this property's concern
                ctx.stat(f"channel_ctor_skipped:{name}")
                continue
            d = 2**n

            def action(rho, ch=ch):
                c = Circuit(n, density_matrix=True)
                c.add(ch)
                return np.asarray(nb.execute_circuit(c, initial_state=rho.copy()).state())

            rho = cmatrix(rng, d)
            rho = rho @ rho.conj().T
            rho = rho / np.trace(rho) + 0  # a valid state, not symmetric
            try:
                truth = action(rho)
            except Exception as e:
                ctx.stat(f"channel_exec_skipped:{name}")
                continue
            descr = f"{name} on qubits {ch.target_qubits} in {n} qubits"
            for order in ORDERS:
                try:
                    C1 = np.asarray(ch.to_choi(nqubits=n, order=order))
                    C2 = np.asarray(ch.to_choi(nqubits=n, order=order))
                    ok = close(Ref.apply_choi(C1, rho, order), truth, 1e-7) and close(C1, C2)
                except Exception as e:
                    ok = False
                ctx.stat("Channel.to_choi")
                ctx.case(("chan", name, n, order))
                S.check(ok, f"Channel.to_choi:{name}:{order}", f"to_choi(order={order}) of {descr} does not act like the channel's execution (or the second call differs)", f"# {descr}; to_choi(nqubits={n}, order={order!r}) applied to a random state vs Circuit execution")
                if order == "system":
                    continue
                try:
                    L = np.asarray(ch.to_liouville(nqubits=n, order=order))
                    ok = close(Ref.apply_liouville(L, rho, order), truth, 1e-7)
                except Exception:
                    ok = False
                ctx.stat("Channel.to_liouville")
                S.check(ok, f"Channel.to_liouville:{name}:{order}", f"to_liouville(order={order}) of {descr} does not act like the channel's execution", f"# {descr}; to_liouville(nqubits={n}, order={order!r})")
            for normalize in (False, True):
                po = rng.choice(ALL_PO)
                try:
                    P = np.asarray(ch.to_pauli_liouville(nqubits=n, normalize=normalize, pauli_order=po))
                    ok = close(Ref.apply_pauli(P, rho, n, normalize, po), truth, 1e-7)
                except Exception:
                    ok = False
                ctx.stat("Channel.to_pauli_liouville")
                S.check(ok, f"Channel.to_pauli_liouville:{name}:{'norm' if normalize else 'unnorm'}",
                        f"to_pauli_liouville(normalize={normalize}, pauli_order={po}) of {descr} does not act like the channel's execution",
                        f"# {descr}; to_pauli_liouville(nqubits={n}, normalize={normalize}, pauli_order={po!r})")
            # the queries must not have changed the channel
            try:
                again = action(rho)
                ok = close(again, truth, 1e-9)
            except Exception:
                ok = False
            S.check(ok, f"Channel.query-mutates:{name}", f"executing {descr} after to_choi/to_liouville/to_pauli_liouville gives a different state", f"# {descr}")
    S.done()


def search_channel_gate_objects(ctx):
    """KrausChannel / UnitaryChannel built from Gate OBJECTS (gates.Unitary with generic
    matrices, CNOT / CRX / fSim) declared on ascending AND descending qubits, with `qubits` an
    explicit list of target tuples (ascending / descending / non-adjacent) or the empty list.
    Documented meaning: the i-th declared qubit of gate k goes to the i-th requested qubit of
    tuple k (empty list: the gate stays where it was declared).  to_choi / to_liouville /
    to_pauli_liouville and the execution on a density matrix are compared with the SPEC
    matrices of  ρ ↦ Σ_k K_k ρ K_k†,  K_k = the gate's matrix embedded on the requested
    ordered qubits (independent of the channel's own execution)."""
    from qibo import Circuit, gates
    from qibo.backends import NumpyBackend

    nb = NumpyBackend()
    S = Search(ctx, "channel_gate_objects")
    rng = ctx.rng

    CNOT = np.array([[1, 0, 0, 0], [0, 1, 0, 0], [0, 0, 0, 1], [0, 0, 1, 0]], dtype=complex)

    def gate_pool(n, unitary):
        """(source, 2^k matrix in DECLARED qubit order, declared qubits)."""
        out = []
        a = rng.randrange(n)
        m1 = np.linalg.qr(cmatrix(rng, 2))[0] if unitary else cmatrix(rng, 2) * 0.5
        out.append((f"gates.Unitary({arr_src(m1)}, {a})", m1, (a,)))
        for desc in (False, True):
            q = sorted(rng.sample(range(n), 2), reverse=desc)
            m2 = np.linalg.qr(cmatrix(rng, 4))[0] if unitary else cmatrix(rng, 4) * 0.3
            out.append((f"gates.Unitary({arr_src(m2)}, {q[0]}, {q[1]})", m2, tuple(q)))
            if unitary:
                th, ph = rng.uniform(0.2, 2.8), rng.uniform(0.2, 2.8)
                c, s = math.cos(th / 2), math.sin(th / 2)
                crx = np.eye(4, dtype=complex)
                crx[2:, 2:] = [[c, -1j * s], [-1j * s, c]]
                fs = np.eye(4, dtype=complex)
                fs[1:3, 1:3] = [[math.cos(th), -1j * math.sin(th)], [-1j * math.sin(th), math.cos(th)]]
                fs[3, 3] = np.exp(-1j * ph)
                q = sorted(rng.sample(range(n), 2), reverse=desc)
                out.append((f"gates.CNOT({q[0]}, {q[1]})", CNOT, tuple(q)))
                q = sorted(rng.sample(range(n), 2), reverse=desc)
                out.append((f"gates.CRX({q[0]}, {q[1]}, {th!r})", crx, tuple(q)))
                q = sorted(rng.sample(range(n), 2), reverse=desc)
                out.append((f"gates.fSim({q[0]}, {q[1]}, {th!r}, {ph!r})", fs, tuple(q)))
        return out

    def requested(n, k, form):
        if form == "empty":
            return None
        if k == 1:
            return (rng.randrange(n),)
        q = sorted(rng.sample(range(n), 2))
        if form == "nonadjacent" and n > 2:
            q = sorted(rng.choice([(x, y) for x in range(n) for y in range(x + 2, n)]))
        return tuple(q[::-1]) if form == "descending" or (form == "nonadjacent" and rng.random() < 0.5) else tuple(q)

    for n in (2, 3) + ((4,) if ctx.thorough else ()):
        d = 2**n
        for cls in ("KrausChannel", "UnitaryChannel"):
            unitary = cls == "UnitaryChannel"
            pool = gate_pool(n, unitary)
            two = [g for g in pool if len(g[2]) == 2]
            for form in ("ascending", "descending", "nonadjacent", "empty"):
                for pick in two:
                    # one single-qubit gate + the two-qubit gate under test (+ a second one)
                    chosen = [pool[0], pick] + ([rng.choice(two)] if rng.random() < 0.5 else [])
                    req = [requested(n, len(g[2]), form) for g in chosen]
                    probs = [rng.uniform(0.05, 0.9 / len(chosen)) for _ in chosen]
                    if form == "empty":
                        qsrc, where = "[]", [g[2] for g in chosen]
                    else:
                        qsrc, where = repr(req), req
                    if unitary:
                        ops_src = "[" + ", ".join(f"({p!r}, {g[0]})" for p, g in zip(probs, chosen)) + "]"
                        Ks = [math.sqrt(p) * Ref.embed(g[1], list(w), n) for p, g, w in zip(probs, chosen, where)]
                        Ks.append(math.sqrt(1 - sum(probs)) * np.eye(d, dtype=complex))
                    else:
                        ops_src = "[" + ", ".join(g[0] for g in chosen) + "]"
                        Ks = [Ref.embed(g[1], list(w), n) for g, w in zip(chosen, where)]
                    ctor = f"gates.{cls}({qsrc}, {ops_src})"
                    decl = [g[2] for g in chosen]
                    descr = f"{cls} from Gate objects declared on {decl} with qubits={qsrc} in {n} qubits"
                    try:
                        ch = eval(ctor, {"gates": gates, "np": np})
                    except Exception:  # constructor signature differs: not this property's concern
                        ctx.stat(f"channel_ctor_skipped:{cls}-gates")
                        continue
                    kind = f"{cls}:{'declared-desc' if any(list(x) != sorted(x) for x in decl) else 'declared-asc'}:{form}"
                    ks_src = ("# K_k = (sqrt(p_k) x) gate matrix embedded on the requested ordered qubits: i-th declared qubit -> i-th requested qubit\n"
                              + f"Ks = [{', '.join(arr_src(K) for K in Ks)}]\n")

                    def replay(call, cmp_src, exp, ctor=ctor, ks_src=ks_src, n=n):
                        if exp.size <= 4096:
                            return HDR + f"ch = {ctor}\nout = np.asarray(ch.{call})\n" + ks_src + f"exp = {arr_src(exp)}  # {cmp_src}\nassert np.allclose(out, exp, atol=1e-8)\n"
                        # too large to print: the replay checks the row-order Choi matrix of the same channel
                        return (HDR + REF_SRC + f"ch = {ctor}\n# failing call: ch.{call}\nout = np.asarray(ch.to_choi(nqubits={n}, order='row'))\n" + ks_src
                                + "exp = choi_of(Ks, 'row')\nassert np.allclose(out, exp, atol=1e-8)\n")

                    for order in ORDERS:
                        exp = Ref.choi(Ks, order)
                        try:
                            out = np.asarray(ch.to_choi(nqubits=n, order=order))
                            ok = close(out, exp)
                        except Exception as e:
                            ok, out = False, repr(e)
                        ctx.stat("Channel.to_choi")
                        ctx.case(("chan-gates", kind, n, order))
                        S.check(ok, f"Channel.to_choi:gate-objects:{kind}:{order}",
                                f"to_choi(order={order}) of {descr} is not the Choi matrix of Σ K ρ K† with each gate on its requested ordered qubits",
                                lambda: replay(f"to_choi(nqubits={n}, order={order!r})", "Σ_k |K_k)(K_k|", exp),
                                expected="Σ_k |K_k)(K_k| with K_k on the requested ordered qubits",
                                observed=None if ok else (out if isinstance(out, str) else f"max |Δ| = {np.abs(out - exp).max():.3g}" if out.shape == exp.shape else f"shape {out.shape}"))
                        if order == "system":
                            continue
                        exp = Ref.liouville(Ks, order)
                        try:
                            out = np.asarray(ch.to_liouville(nqubits=n, order=order))
                            ok = close(out, exp)
                        except Exception as e:
                            ok, out = False, repr(e)
                        ctx.stat("Channel.to_liouville")
                        S.check(ok, f"Channel.to_liouville:gate-objects:{kind}:{order}",
                                f"to_liouville(order={order}) of {descr} is not the Liouville matrix of Σ K ρ K† with each gate on its requested ordered qubits",
                                lambda: replay(f"to_liouville(nqubits={n}, order={order!r})", "Σ_k K_k ⊗ conj(K_k) in that order", exp),
                                expected="Liouville matrix of Σ K ρ K†",
                                observed=None if ok else (out if isinstance(out, str) else f"max |Δ| = {np.abs(out - exp).max():.3g}" if out.shape == exp.shape else f"shape {out.shape}"))
                    for normalize in (False, True):
                        po = rng.choice(ALL_PO)
                        exp = Ref.pauli(Ks, n, normalize, po)
                        try:
                            out = np.asarray(ch.to_pauli_liouville(nqubits=n, normalize=normalize, pauli_order=po))
                            ok = close(out, exp)
                        except Exception as e:
                            ok, out = False, repr(e)
                        ctx.stat("Channel.to_pauli_liouville")
                        S.check(ok, f"Channel.to_pauli_liouville:gate-objects:{kind}:{'norm' if normalize else 'unnorm'}",
                                f"to_pauli_liouville(normalize={normalize}, pauli_order={po}) of {descr} is not the Pauli-Liouville matrix of Σ K ρ K†",
                                lambda: replay(f"to_pauli_liouville(nqubits={n}, normalize={normalize}, pauli_order={po!r})", "Pauli-Liouville matrix", exp),
                                expected="Pauli-Liouville matrix of Σ K ρ K†",
                                observed=None if ok else (out if isinstance(out, str) else f"max |Δ| = {np.abs(out - exp).max():.3g}" if out.shape == exp.shape else f"shape {out.shape}"))
                    # execution on a density matrix
                    rho = cmatrix(rng, d)
                    rho = rho @ rho.conj().T
                    rho = rho / np.trace(rho)
                    exp = Ref.apply_kraus(Ks, rho)
                    try:
                        c = Circuit(n, density_matrix=True)
                        c.add(ch)
                        out = np.asarray(nb.execute_circuit(c, initial_state=rho.copy()).state())
                        ok = close(out, exp, 1e-7)
                    except Exception as e:
                        ok, out = False, repr(e)
                    ctx.stat("Channel.apply_density_matrix")
                    S.check(ok, f"Channel.apply_density_matrix:gate-objects:{kind}",
                            f"executing {descr} on a density matrix is not Σ K ρ K† with each gate on its requested ordered qubits",
                            lambda: HDR + f"from qibo import Circuit\nch = {ctor}\nc = Circuit({n}, density_matrix=True); c.add(ch)\nrho = {arr_src(rho)}\nout = c(rho.copy()).state()\nexp = {arr_src(exp)}\nassert np.allclose(out, exp, atol=1e-7)\n",
                            expected="Σ K ρ K†", observed=None if ok else (out if isinstance(out, str) else f"max |Δ| = {np.abs(out - exp).max():.3g}"))
    S.done()


def search_networks(ctx):
    """QuantumChannel built from a Choi operator (row vectorisation, `inverse=True`, as
    documented) or from a pure operator: apply, link product with a state network, composition
    `@`, pure vs full representation, rectangular channels, operator/matrix round trip."""
    from qibo.quantum_info import superoperator_transformations as st
    from qibo.quantum_info.quantum_networks import QuantumChannel, QuantumComb, QuantumNetwork

    S = Search(ctx, "networks")
    rng = ctx.rng
    NHDR = HDR + "from qibo.quantum_info.quantum_networks import QuantumChannel, QuantumNetwork, QuantumComb\n"

    def row_choi(Ks):
        # K is d_out x d_in ; C[(a,b),(c,e)] = Σ K[a,b] conj K[c,e]
        return sum(np.outer(K.reshape(-1), K.reshape(-1).conj()) for K in Ks)

    shapes = [(2, 2), (4, 4), (2, 3), (3, 2), (2, 4), (4, 2), (3, 3)] + ([(8, 8), (4, 3)] if ctx.thorough else [])
    for (dout, din) in shapes:
        for rank in (1, 2, 3):
            Ks = [gi_matrix(rng, dout, din) for _ in range(rank)]
            rho = gi_matrix(rng, din)
            truth = Ref.apply_kraus(Ks, rho)
            C = row_choi(Ks)
            src_ch = f"QuantumChannel.from_operator({arr_src(C)}, ({dout}, {din}), inverse=True)"
            ch = QuantumChannel.from_operator(C.copy(), (dout, din), inverse=True)
            ctx.case(("net", dout, din, rank))
            try:
                out = np.asarray(ch.apply(rho.copy()))
                ok = close(out, truth)
            except Exception as e:
                out, ok = repr(e), False
            ctx.stat("network_apply")
            S.check(ok, "network-apply:mixed", f"QuantumChannel.from_operator(row Choi, ({dout},{din}), inverse=True).apply(ρ) differs from Σ KρK† (Kraus rank {rank})",
                    NHDR + f"ch = {src_ch}\nout = ch.apply({arr_src(rho)})\nexp = {arr_src(truth)}\nassert out.shape == exp.shape and np.allclose(out, exp, atol=1e-8), (out, exp)\n",
                    expected=str(truth.tolist()), observed=str(out.tolist() if hasattr(out, 'tolist') else out))
            # link product with the state as a network
            try:
                stn = QuantumChannel.from_operator(rho.copy())
                lp = np.asarray(stn.link_product("ij,jk -> ik", ch).matrix())
                ok = close(lp, truth)
            except Exception as e:
                ok = False
            ctx.stat("network_link_state")
            S.check(ok, "network-link:state", f"state.link_product('ij,jk -> ik', channel) differs from Σ KρK† (dims {din}->{dout}, rank {rank})",
                    NHDR + f"ch = {src_ch}\nstn = QuantumChannel.from_operator({arr_src(rho)})\nout = stn.link_product('ij,jk -> ik', ch).matrix()\nexp = {arr_src(truth)}\nassert np.allclose(out, exp, atol=1e-8), (out, exp)\n")
            # composition with a second channel din2=dout
            d2 = rng.choice([2, 3])
            Ks2 = [gi_matrix(rng, d2, dout) for _ in range(rng.randint(1, 2))]
            C2 = row_choi(Ks2)
            ch2 = QuantumChannel.from_operator(C2.copy(), (d2, dout), inverse=True)
            truth2 = Ref.apply_kraus(Ks2, truth)
            try:
                comp = ch @ ch2
                lp = np.asarray(QuantumChannel.from_operator(rho.copy()).link_product("ij,jk -> ik", comp).matrix())
                ok = close(lp, truth2) and tuple(comp.partition) == (din, d2)
                # the composed network equals the network of the composed Kraus set
                Kc = [B @ A for A in Ks for B in Ks2]
                direct = QuantumChannel.from_operator(row_choi(Kc), (d2, din), inverse=True)
                ok = ok and close(comp.full(), direct.full())
            except Exception as e:
                ok = False
            ctx.stat("network_compose")
            S.check(ok, "network-compose", f"(N1 @ N2) is not 'N1 then N2' (dims {din}->{dout}->{d2})",
                    NHDR + f"c1 = {src_ch}\nc2 = QuantumChannel.from_operator({arr_src(C2)}, ({d2}, {dout}), inverse=True)\n"
                    f"out = QuantumChannel.from_operator({arr_src(rho)}).link_product('ij,jk -> ik', c1 @ c2).matrix()\nexp = {arr_src(truth2)}\nassert np.allclose(out, exp, atol=1e-8), (out, exp)\n")
            # from_operator -> matrix round trip (no inverse)
            try:
                net = QuantumNetwork.from_operator(C.copy(), (dout, din))
                ok = close(net.matrix(), C) and close(np.asarray(net.operator()).reshape(dout * din, dout * din), C)
            except Exception:
                ok = False
            S.check(ok, "network-operator-roundtrip", f"QuantumNetwork.from_operator(C, ({dout},{din})).matrix() != C",
                    NHDR + f"C = {arr_src(C)}\nassert np.allclose(QuantumNetwork.from_operator(C, ({dout}, {din})).matrix(), C)\n")
        # pure channel (a single operator), pure vs full
        U = gi_matrix(rng, dout, din)
        rho = gi_matrix(rng, din)
        truth = U @ rho @ U.conj().T
        try:
            p = QuantumChannel.from_operator(U.copy(), (dout, din), pure=True, inverse=True)
            a1 = np.asarray(p.apply(rho.copy()))
            ok1 = close(a1, truth)
        except Exception:
            ok1 = False
        ctx.stat("network_apply_pure")
        S.check(ok1, "network-apply:pure", f"pure QuantumChannel.apply(ρ) differs from UρU† (dims {din}->{dout})",
                NHDR + f"U = {arr_src(U)}\np = QuantumChannel.from_operator(U, ({dout}, {din}), pure=True, inverse=True)\nassert np.allclose(p.apply({arr_src(rho)}), {arr_src(truth)}, atol=1e-8)\n")
        try:
            p = QuantumChannel.from_operator(U.copy(), (dout, din), pure=True, inverse=True)
            p.full(update=True)
            a2 = np.asarray(p.apply(rho.copy()))
            ok2 = close(a2, truth)
        except Exception:
            ok2 = False
        S.check(ok2, "network-apply:mixed", f"after full(update=True) a pure QuantumChannel applies differently: apply(ρ) != UρU† (dims {din}->{dout})",
                NHDR + f"U = {arr_src(U)}\np = QuantumChannel.from_operator(U, ({dout}, {din}), pure=True, inverse=True)\np.full(update=True)\nassert np.allclose(p.apply({arr_src(rho)}), {arr_src(truth)}, atol=1e-8)\n")
        # pure @ pure = product
        d2 = rng.choice([2, 3])
        V = gi_matrix(rng, d2, dout)
        try:
            p1 = QuantumComb.from_operator(U.copy(), (dout, din), pure=True, inverse=True)
            p2 = QuantumComb.from_operator(V.copy(), (d2, dout), pure=True, inverse=True)
            p3 = QuantumComb.from_operator(V @ U, (d2, din), pure=True, inverse=True)
            ok = close((p1 @ p2).full(), p3.full())
        except Exception:
            ok = False
        ctx.stat("network_compose_pure")
        S.check(ok, "network-compose:pure", f"(N_U @ N_V).full() != N_(VU).full() (dims {din}->{dout}->{d2})",
                NHDR + f"U = {arr_src(U)}; V = {arr_src(V)}\np1 = QuantumComb.from_operator(U, ({dout}, {din}), pure=True, inverse=True)\np2 = QuantumComb.from_operator(V, ({d2}, {dout}), pure=True, inverse=True)\n"
                f"p3 = QuantumComb.from_operator(V @ U, ({d2}, {din}), pure=True, inverse=True)\nassert np.allclose((p1 @ p2).full(), p3.full())\n")
    # kraus_to_choi (row) of a qubit channel straight into a network, as in qibo's own test
    for n in (1, 2):
        d = 2**n
        kraus = gi_kraus_set(rng, n, rng.randint(1, 3))
        full = Ref.full_kraus(kraus, n)
        rho = gi_matrix(rng, d)
        truth = Ref.apply_kraus(full, rho)
        try:
            ch = QuantumChannel.from_operator(st.kraus_to_choi([(q, K.copy()) for q, K in kraus]), (d, d), inverse=True)
            ok = close(ch.apply(rho.copy()), truth)
        except Exception:
            ok = False
        S.check(ok, "network-apply:mixed", f"QuantumChannel.from_operator(kraus_to_choi(K), inverse=True).apply(ρ) differs from Σ KρK† ({n} qubits)",
                NHDR + f"k = {kraus_src(kraus)}\nch = QuantumChannel.from_operator(st.kraus_to_choi(k), ({d}, {d}), inverse=True)\nassert np.allclose(ch.apply({arr_src(rho)}), {arr_src(truth)}, atol=1e-8)\n")
    S.done()


def corr_normalize(ctx):
    """tie of the statements of lean/QV/Props/C17c.lean to the real code.

    (1) the `normalize=True` variants are the un-normalised (exactly modelled) matrices scaled by
        s = 2^{-n/2}: comp_basis_to_pauli, pauli_to_comp_basis (B_s = s·B), liouville_to_pauli,
        pauli_to_liouville, choi_to_chi, chi_to_choi (factor s²) — the definitions `compToPauliS`,
        `liouvilleToPauliS`, … of QV/Proofs/PauliComplete.lean;
    (2) the round trips of T17_*_roundtrip_flags on Gaussian-integer matrices: exact equality with
        4^n·M for the un-normalised pair, (s1 s2 2^n)²·M within 1e-9 for the other flag pairs;
    (3) B†B = 2^n·1 exactly (T17_pauli_unitary_left) and kraus_to_chi = choi_to_chi(kraus_to_choi)
        exactly (T17_kraus_chi_path) on Gaussian-integer Kraus sets."""
    from qibo.quantum_info import basis
    from qibo.quantum_info import superoperator_transformations as st

    rng = ctx.rng
    name = "C17_corr_normalize"
    bad = 0

    def fail(key, what, py, expected=None, observed=None):
        nonlocal bad
        bad += 1
        ctx.fail(key, what, HDR + py, expected=expected, observed=observed, broken=[name])

    for n in (1, 2, 3):
        d = 2**n
        s = 1.0 / math.sqrt(d)
        pos = ALL_PO if (n == 1 or (ctx.thorough and n == 2)) else ["IXYZ"] + rng.sample(ALL_PO, 3 if n == 2 else 1)
        for order in ORDERS:
            for po in pos:
                kw = f"order={order!r}, pauli_order={po!r}"
                B0 = np.asarray(basis.comp_basis_to_pauli(n, normalize=False, order=order, pauli_order=po))
                B1 = np.asarray(basis.comp_basis_to_pauli(n, normalize=True, order=order, pauli_order=po))
                C0 = np.asarray(basis.pauli_to_comp_basis(n, normalize=False, order=order, pauli_order=po))
                C1 = np.asarray(basis.pauli_to_comp_basis(n, normalize=True, order=order, pauli_order=po))
                ctx.case(("normalize", n, order, po))
                ctx.stat("normalize:basis")
                if not (close(B1, s * B0, 1e-12) and close(C1, s * C0, 1e-12) and abs(s * s * d - 1) < 1e-12):
                    fail(f"normalize:basis:{order}", f"comp_basis_to_pauli / pauli_to_comp_basis(n={n}, normalize=True, {kw}) is not 2^(-n/2) times the un-normalised matrix",
                         f"s = {s!r}\nfor f in (basis.comp_basis_to_pauli, basis.pauli_to_comp_basis):\n    assert np.allclose(f({n}, normalize=True, {kw}), s * f({n}, normalize=False, {kw}), atol=1e-12, rtol=0)\n")
                # B† B = 2^n 1 exactly (integer entries), and pauli_to_comp = B†
                if not (np.array_equal(B0.conj().T @ B0, d * np.eye(d * d)) and np.array_equal(B0 @ B0.conj().T, d * np.eye(d * d))
                        and np.array_equal(C0, B0.conj().T)):
                    fail(f"unitary-left:{order}", f"B†B != 2^n·1 or pauli_to_comp_basis != B† exactly (n={n}, {kw})",
                         f"B = basis.comp_basis_to_pauli({n}, normalize=False, {kw})\nassert np.array_equal(B.conj().T @ B, {d} * np.eye({d * d}))\n"
                         f"assert np.array_equal(basis.pauli_to_comp_basis({n}, normalize=False, {kw}), B.conj().T)\n")
                if n == 3 and not ctx.thorough:
                    continue
                M = gi_matrix(rng, d * d)
                pairs = (("liouville_to_pauli", "pauli_to_liouville"), ("pauli_to_liouville", "liouville_to_pauli"),
                         ("choi_to_chi", "chi_to_choi"), ("chi_to_choi", "choi_to_chi"))
                for f1, f2 in pairs:
                    g1, g2 = getattr(st, f1), getattr(st, f2)
                    a0 = np.asarray(nomut(g1, M, normalize=False, order=order, pauli_order=po))
                    a1 = np.asarray(nomut(g1, M, normalize=True, order=order, pauli_order=po))
                    ctx.stat("normalize:scaled")
                    if not close(a1, s * s * a0, 1e-10):
                        fail(f"normalize:{f1}:{order}", f"{f1}(M, normalize=True) is not 2^(-n)·{f1}(M, normalize=False) (n={n}, {kw})",
                             f"M = {arr_src(M)}\nassert np.allclose(st.{f1}(M, normalize=True, {kw}), {s * s!r} * st.{f1}(M, normalize=False, {kw}), atol=1e-10, rtol=0)\n")
                    for n1 in (False, True):
                        for n2 in (False, True):
                            mid = np.asarray(nomut(g1, M, normalize=n1, order=order, pauli_order=po))
                            back = np.asarray(nomut(g2, mid, normalize=n2, order=order, pauli_order=po))
                            fac = {(False, False): float(4**n), (True, True): 1.0}.get((n1, n2), float(2**n))
                            exact = not n1 and not n2
                            ok = np.array_equal(back, fac * M) if exact else close(back, fac * M, 1e-9)
                            ctx.stat("normalize:roundtrip")
                            if not ok:
                                fail(f"roundtrip-flags:{f1}:{order}:{int(n1)}{int(n2)}",
                                     f"{f2}({f1}(M, normalize={n1}), normalize={n2}) is not {fac:g}·M (n={n}, {kw})",
                                     f"M = {arr_src(M)}\nback = st.{f2}(st.{f1}(M, normalize={n1}, {kw}), normalize={n2}, {kw})\n"
                                     f"assert np.allclose(back, {fac!r} * M, atol=1e-9, rtol=0), np.abs(back - {fac!r} * M).max()\n",
                                     expected=f"{fac:g}*M", observed=str(np.abs(back - fac * M).max()))
                # path independence: kraus_to_chi = choi_to_chi(kraus_to_choi), exactly
                kraus = gi_kraus_set(rng, n, rng.randint(1, 3))
                chi = np.asarray(st.kraus_to_chi([(q, K.copy()) for q, K in kraus], normalize=False, order=order, pauli_order=po))
                choi = np.asarray(st.kraus_to_choi([(q, K.copy()) for q, K in kraus], order=order))
                via = np.asarray(st.choi_to_chi(choi, normalize=False, order=order, pauli_order=po))
                back = np.asarray(st.chi_to_choi(chi, normalize=False, order=order, pauli_order=po))
                ctx.stat("normalize:path")
                if not (np.array_equal(chi, via) and np.array_equal(back, 4**n * choi)):
                    fail(f"path:kraus_to_chi:{order}", f"kraus_to_chi != choi_to_chi(kraus_to_choi) or chi_to_choi(kraus_to_chi) != 4^n·kraus_to_choi (n={n}, {kw})",
                         f"K = {kraus_src(kraus)}\nchi = st.kraus_to_chi(K, normalize=False, {kw})\nchoi = st.kraus_to_choi(K, order={order!r})\n"
                         f"assert np.array_equal(chi, st.choi_to_chi(choi, normalize=False, {kw}))\nassert np.array_equal(st.chi_to_choi(chi, normalize=False, {kw}), {4**n} * choi)\n")
    ctx.ob(name, bad == 0, "correspondence", f"{bad} disagreements" if bad else "")


def search_basis(ctx):
    """comp_basis_to_pauli / pauli_to_comp_basis: B B† = c·1 (c = 1 normalised, d otherwise),
    pauli_to_comp = B† , rows are the conjugated vectorised Pauli strings in the documented
    (first qubit most significant) order, for every order and all 24 Pauli orderings; sparse form."""
    from qibo.quantum_info import basis

    S = Search(ctx, "basis")
    rng = ctx.rng
    for n in (1, 2, 3):
        d = 2**n
        pos = ALL_PO if (n <= 2 or ctx.thorough) else rng.sample(ALL_PO, 4)
        for po in pos:
            for order in ORDERS:
                for normalize in (False, True):
                    if n == 3 and not ctx.thorough and rng.random() < 0.5:
                        continue
                    s = math.sqrt(d) if normalize else 1.0
                    exp = np.array([Ref.vec(p, order).conj() / s for p in Ref.paulis(n, po)])
                    B = np.asarray(basis.comp_basis_to_pauli(n, normalize=normalize, order=order, pauli_order=po))
                    Bi = np.asarray(basis.pauli_to_comp_basis(n, normalize=normalize, order=order, pauli_order=po))
                    c = Ref.cfac(n, normalize)
                    ok = close(B, exp) and close(Bi, exp.conj().T) and close(B @ B.conj().T, c * np.eye(d * d)) and close(Bi @ B, c * np.eye(d * d))
                    ctx.stat("basis")
                    ctx.case(("basis", n, po, order, normalize))
                    S.check(ok, f"basis:{order}:{'norm' if normalize else 'unnorm'}",
                            f"comp_basis_to_pauli/pauli_to_comp_basis(n={n}, normalize={normalize}, order={order}, pauli_order={po}) is not the (scaled) unitary change of basis",
                            HDR + f"B = basis.comp_basis_to_pauli({n}, normalize={normalize}, order={order!r}, pauli_order={po!r})\nexp = {arr_src(exp) if n < 3 else 'B'}\nassert np.allclose(B, exp, atol=1e-9)\n"
                            f"Bi = basis.pauli_to_comp_basis({n}, normalize={normalize}, order={order!r}, pauli_order={po!r})\nassert np.allclose(Bi @ B, {c!r} * np.eye({d * d}), atol=1e-9)\n")
                    if n <= 2:
                        el, ix = basis.comp_basis_to_pauli(n, normalize=normalize, sparse=True, order=order, pauli_order=po)
                        dense = np.zeros((d * d, d * d), dtype=complex)
                        for r in range(d * d):
                            dense[r, np.asarray(ix)[r]] = np.asarray(el)[r]
                        S.check(close(dense, exp), f"basis-sparse:{order}", f"sparse comp_basis_to_pauli(n={n}, order={order}, pauli_order={po}) differs from the dense one",
                                HDR + f"el, ix = basis.comp_basis_to_pauli({n}, normalize={normalize}, sparse=True, order={order!r}, pauli_order={po!r})\nB = basis.comp_basis_to_pauli({n}, normalize={normalize}, order={order!r}, pauli_order={po!r})\n"
                                f"D = np.zeros_like(B)\nfor r in range(len(B)): D[r, np.asarray(ix)[r]] = np.asarray(el)[r]\nassert np.allclose(D, B)\n")
    S.done()


def harness_selfcheck(ctx):
    """the SPEC library is internally consistent (guards the harness, not qibo)."""
    rng = ctx.rng
    ok = True
    for n in (1, 2):
        d = 2**n
        Ks = tp_kraus_full(rng, d, 3)
        rho = cmatrix(rng, d)
        truth = Ref.apply_kraus(Ks, rho)
        for order in ORDERS:
            ok &= close(Ref.unvec(Ref.vec(rho, order), order), rho)
            ok &= close(Ref.apply_choi(Ref.choi(Ks, order), rho, order), truth)
            ok &= close(Ref.apply_liouville(Ref.liouville(Ks, order), rho, order), truth)
        for normalize in (False, True):
            po = rng.choice(ALL_PO)
            P = Ref.pauli(Ks, n, normalize, po)
            X = Ref.chi(Ks, n, normalize, po)
            ok &= close(P, Ref.pauli_slow(Ks, n, normalize, po))
            ok &= close(Ref.apply_pauli(P, rho, n, normalize, po), truth) and close(Ref.apply_pauli_slow(P, rho, n, normalize, po), truth)
            ok &= close(Ref.apply_chi_slow(X, rho, n, normalize, po), truth)
            ok &= close(Ref.apply_chi(Ref.chi(Ks, n, normalize, po), rho, n, normalize, po), truth)
    if not ok:
        raise RuntimeError("C17 harness self-check failed (SPEC library inconsistent)")


def limit_blas_threads(n=1):
    """the matrices here are tiny: multi-threaded BLAS on a shared machine is ~50x slower.
    Best effort, no effect on results."""
    import ctypes
    import re

    try:
        libs = {m.group(0) for m in re.finditer(r"/\S*openblas\S*\.so\S*", open("/proc/self/maps").read())}
    except OSError:
        return
    for lib in libs:
        try:
            h = ctypes.CDLL(lib)
        except OSError:
            continue
        for sym in ("scipy_openblas_set_num_threads64_", "scipy_openblas_set_num_threads", "openblas_set_num_threads64_", "openblas_set_num_threads"):
            f = getattr(h, sym, None)
            if f is not None:
                try:
                    f(n)
                except Exception:
                    pass
                break


def run(ctx):
    from qibo import set_backend
    import scipy.linalg  # noqa: F401  (load its BLAS before limiting threads)

    set_backend("numpy")
    limit_blas_threads(1)
    MODULES, THEOREMS = registry(PROP)
    ctx.theorems = THEOREMS
    build_and_audit(ctx, PROP, MODULES, THEOREMS)
    harness_selfcheck(ctx)
    corr_vec(ctx)
    corr_reshuffle(ctx)
    corr_kraus(ctx)
    corr_pauli(ctx)
    corr_stinespring(ctx)
    corr_normalize(ctx)
    search_basis(ctx)
    search_conversions(ctx)
    search_roundtrips(ctx)
    search_spectral(ctx)
    search_stinespring(ctx)
    search_to_helpers(ctx)
    search_channels(ctx)
    search_channel_gate_objects(ctx)
    search_networks(ctx)
    from props import C17_networks

    C17_networks.run_suites(ctx)
    from props import C17_relabel

    C17_relabel.run_suites(ctx)
    ctx.notes.append("exact Gaussian-integer correspondence of the Lean index model with vectorization/unvectorization (3 orders, d in {2,3,4,8}), _reshuffling, kraus_to_choi/liouville/chi (ordered non-adjacent targets, ranks 1..d^2), Channel.to_choi/to_liouville, comp_basis_to_pauli (24 orderings), liouville_to_pauli/pauli_to_liouville/choi_to_chi/chi_to_choi, kraus_to_stinespring/stinespring_to_kraus; normalize=True variants = 2^(-n/2)-scaled un-normalised matrices, exact B†B = 2^n·1, exact 4^n round trips and kraus_to_chi = choi_to_chi∘kraus_to_choi on Gaussian integers, flag-pair round-trip factors (C17_corr_normalize, ties Props/C17c); numeric search (1e-8) of all 30 a_to_b functions x orders x Pauli orderings x normalisations against an independent SPEC, round trips, path independence, spectral branches, Stinespring, to_* helpers, gates.Channel.to_*, quantum networks")
    ctx.assumptions.append("spectral steps (eigh, svd, qr) are library contracts; their use is checked numerically (1e-7) by reconstructing the Choi matrix from the returned operators")
    ctx.assumptions.append("kraus_to_unitaries (numerical optimisation) is outside the property check")
